package spikeb

import (
	"context"
	"fmt"
	"os"
	"sync"
	"testing"
	"testing/synctest"
	"time"

	"github.com/nspcc-dev/neo-go/pkg/wallet"
	"github.com/nspcc-dev/neofs-contract/contracts"
	"github.com/nspcc-dev/neofs-contract/deploy"
	"go.uber.org/zap"
	"go.uber.org/zap/zapcore"
)

type glag struct{}

func (glag) Size() int                    { return 41 }
func (glag) LetterByIndex(i int) string { return fmt.Sprintf("letter%d", i) }

func prm(t *testing.T, c *Chain, ctx context.Context, i int, log *zap.Logger) deploy.Prm {
	fs, err := contracts.GetFS()
	if err != nil {
		t.Fatal(err)
	}
	var p deploy.Prm
	p.Logger = log
	p.Blockchain = c.Client(ctx, i)
	p.LocalAccount = wallet.NewAccountFromPrivateKey(c.privs[i])
	p.ValidatorMultiSigAccount = c.ValidatorAcc(i)
	p.NNS.Common.NEF, p.NNS.Common.Manifest = fs[0].NEF, fs[0].Manifest
	p.NNS.SystemEmail = "nonexistent@nspcc.io"
	p.ProxyContract.Common.NEF, p.ProxyContract.Common.Manifest = fs[1].NEF, fs[1].Manifest
	p.AuditContract.Common.NEF, p.AuditContract.Common.Manifest = fs[2].NEF, fs[2].Manifest
	p.NetmapContract.Common.NEF, p.NetmapContract.Common.Manifest = fs[3].NEF, fs[3].Manifest
	p.NetmapContract.Config.MaxObjectSize = 1 << 20
	p.NetmapContract.Config.EpochDuration = 240
	p.NetmapContract.Config.ContainerFee = 1000
	p.BalanceContract.Common.NEF, p.BalanceContract.Common.Manifest = fs[4].NEF, fs[4].Manifest
	p.ReputationContract.Common.NEF, p.ReputationContract.Common.Manifest = fs[5].NEF, fs[5].Manifest
	p.NeoFSIDContract.Common.NEF, p.NeoFSIDContract.Common.Manifest = fs[6].NEF, fs[6].Manifest
	p.ContainerContract.Common.NEF, p.ContainerContract.Common.Manifest = fs[7].NEF, fs[7].Manifest
	p.AlphabetContract.Common.NEF, p.AlphabetContract.Common.Manifest = fs[8].NEF, fs[8].Manifest
	p.Glagolitsa = glag{}
	return p
}

func runDeploy(t *testing.T, n int) {
	dir, _ := os.MkdirTemp("", "spikeb")
	defer os.RemoveAll(dir)
	lvl := zapcore.ErrorLevel
	if os.Getenv("SPIKE_LOG") != "" {
		lvl = zapcore.InfoLevel
	}
	zc := zap.NewDevelopmentConfig()
	zc.Level = zap.NewAtomicLevelAt(lvl)
	log, _ := zc.Build()
	wall0 := time.Now()
	synctest.Test(t, func(t *testing.T) {
		c, err := NewChain(n, dir, zap.NewNop())
		if err != nil {
			t.Fatal(err)
		}
		ctx, cancel := context.WithCancel(context.Background())
		stop := make(chan struct{})
		go func() {
			for {
				select {
				case <-stop:
					return
				case <-time.After(msPerBlock * time.Millisecond):
				}
				if _, err := c.ProduceBlock(); err != nil {
					t.Errorf("produce: %v", err)
					return
				}
			}
		}()
		var wg sync.WaitGroup
		errs := make([]error, n)
		t0 := time.Now()
		for i := 0; i < n; i++ {
			wg.Add(1)
			go func() {
				defer wg.Done()
				errs[i] = deploy.Deploy(ctx, prm(t, c, ctx, i, log.With(zap.Int("member", i))))
			}()
		}
		done := make(chan struct{})
		go func() { wg.Wait(); close(done) }()
		select {
		case <-done:
		case <-time.After(3 * time.Hour):
			t.Errorf("deploy did not finish in 3h of simulated time; height=%d", c.bc.BlockHeight())
		}
		t.Logf("n=%d errs=%v simulated=%v height=%d txs=%d wall=%v calls=%v", n, errs, time.Since(t0), c.bc.BlockHeight(), c.txs, time.Since(wall0), c.calls)
		cancel()
		close(stop)
		for _, nt := range c.ntr {
			nt.Shutdown()
		}
		c.nrPool.StopSubscriptions()
		c.bc.Close()
	})
}

func TestDeploy1(t *testing.T) { runDeploy(t, 1) }
func TestDeploy4(t *testing.T) { runDeploy(t, 4) }
func TestDeploy3(t *testing.T) { runDeploy(t, 3) }
func TestDeploy2(t *testing.T) { runDeploy(t, 2) }
func TestDeploy7(t *testing.T) { runDeploy(t, 7) }
