package spikeb

import (
	"context"
	"fmt"
	"os"
	"sync"
	"testing"
	"testing/synctest"
	"time"

	"github.com/nspcc-dev/neofs-contract/deploy"
	"go.uber.org/zap"
)

func TestIdem(t *testing.T) {
	n := 4
	dir, _ := os.MkdirTemp("", "spikeb")
	defer os.RemoveAll(dir)
	defer func() { recover() }()
	synctest.Test(t, func(t *testing.T) {
		c, err := NewChain(n, dir, zap.NewNop())
		if err != nil {
			t.Fatal(err)
		}
		ctx, cancel := context.WithCancel(context.Background())
		stop := make(chan struct{})
		go func() {
			for {
				select {
				case <-stop:
					return
				case <-time.After(msPerBlock * time.Millisecond):
				}
				c.ProduceBlock()
			}
		}()
		for round := 1; round <= 2; round++ {
			var wg sync.WaitGroup
			errs := make([]error, n)
			cmu.Lock()
			before := map[string]int{}
			for k, v := range c.calls {
				before[k] = v
			}
			cmu.Unlock()
			h0 := c.bc.BlockHeight()
			txs0 := c.txs
			for i := 0; i < n; i++ {
				wg.Add(1)
				go func() {
					defer wg.Done()
					errs[i] = deploy.Deploy(ctx, prm(t, c, ctx, i, zap.NewNop()))
				}()
			}
			wg.Wait()
			cmu.Lock()
			fmt.Printf("round %d: errs=%v blocks=%d txsInBlocks=%d SendRaw=%d SubmitNotary=%d\n", round, errs, c.bc.BlockHeight()-h0, c.txs-txs0,
				c.calls["SendRawTransaction"]-before["SendRawTransaction"], c.calls["SubmitP2PNotaryRequest"]-before["SubmitP2PNotaryRequest"])
			cmu.Unlock()
		}
		cancel()
		close(stop)
	})
}
