package spikeb

import (
	"context"
	"crypto/sha256"
	"encoding/hex"
	"fmt"
	"math/rand/v2"
	"os"
	"sort"
	"strconv"
	"strings"
	"sync"
	"testing"
	"testing/synctest"
	"time"

	"go.uber.org/zap"

	"github.com/nspcc-dev/neofs-contract/deploy"
)

// gated run: every RPC call is parked; the sim picks who proceeds from a seeded PRNG.
func runGated(t *testing.T, n int, seed uint64, maxBlocks int) (digest string, height uint32, steps int, errs []error, leftover bool) {
	dir, _ := os.MkdirTemp("", "spikeb")
	defer os.RemoveAll(dir)
	defer func() {
		if r := recover(); r != nil {
			if !strings.Contains(fmt.Sprint(r), "deadlock") {
				panic(r)
			}
			leftover = true
		}
	}()
	synctest.Test(t, func(t *testing.T) {
		rng := rand.New(rand.NewPCG(seed, 0x5eed))
		c, err := NewChain(n, dir, zap.NewNop())
		if err != nil {
			t.Fatal(err)
		}
		c.gate = NewGate()
		ctx, cancel := context.WithCancel(context.Background())
		var wg sync.WaitGroup
		errs = make([]error, n)
		finished := make([]bool, n)
		cancels := make([]context.CancelFunc, n)
		var fmu sync.Mutex
		var start func(i int)
		start = func(i int) {
			wg.Add(1)
			mctx, mcancel := context.WithCancel(ctx)
			cancels[i] = mcancel
			go func() {
				ctx := mctx
				defer wg.Done()
				var lg = zap.NewNop()
				if os.Getenv("SPIKE_WARN") != "" {
					zc := zap.NewDevelopmentConfig()
					zc.Level = zap.NewAtomicLevelAt(zap.WarnLevel)
					zc.DisableStacktrace = true
					lg, _ = zc.Build()
				}
				p := prm(t, c, ctx, i, lg)
				p.Blockchain = c.GatedClient(ctx, i)
				errs[i] = deploy.Deploy(ctx, p)
				fmu.Lock()
				finished[i] = true
				fmu.Unlock()
			}()
		}
		for i := 0; i < n; i++ {
			start(i)
		}
		crashAt, _ := strconv.Atoi(os.Getenv("SPIKE_CRASH_AT"))
		crashM, _ := strconv.Atoi(os.Getenv("SPIKE_CRASH_M"))
		restartAfter := 0
		logh := sha256.New()
		logf := func(f string, a ...any) {
			s := fmt.Sprintf(f, a...)
			logh.Write([]byte(s + "\n"))
			if os.Getenv("SPIKE_TRACE") != "" {
				fmt.Println(s)
			}
		}
		sinceBlock := 0
		for {
			synctest.Wait()
			fmu.Lock()
			all := true
			for _, f := range finished {
				all = all && f
			}
			fmu.Unlock()
			if all || int(c.bc.BlockHeight()) >= maxBlocks {
				break
			}
			steps++
			if crashAt > 0 && steps == crashAt {
				logf("%d CRASH m%d h=%d", steps, crashM, c.bc.BlockHeight())
				cancels[crashM]()
				for _, p := range c.gate.Take() {
					if p.member == crashM {
						c.gate.Fail(p)
					}
				}
				restartAfter = steps + 300
				continue
			}
			if restartAfter > 0 && steps >= restartAfter {
				fmu.Lock()
				done := finished[crashM]
				fmu.Unlock()
				if done {
					logf("%d RESTART m%d (previous incarnation returned: %v) h=%d", steps, crashM, errs[crashM], c.bc.BlockHeight())
					fmt.Printf("crash: incarnation returned %v at h=%d\n", errs[crashM], c.bc.BlockHeight())
					fmu.Lock()
					finished[crashM] = false
					fmu.Unlock()
					restartAfter = 0
					start(crashM)
					continue
				}
			}
			parked := c.gate.Take()
			// calls of a crashed member that arrive late fail too
			if restartAfter > 0 {
				failed := false
				for _, p := range parked {
					if p.member == crashM {
						c.gate.Fail(p)
						failed = true
					}
				}
				if failed {
					continue
				}
			}
			if len(parked) > 0 {
				p := parked[rng.IntN(len(parked))]
				logf("%d call m%d %s h=%d", steps, p.member, p.name, c.bc.BlockHeight())
				c.gate.Release(p)
				continue
			}
			// environment: deliver pending events one at a time (seeded order), else advance time
			type dl struct {
				kind string
				m    int
			}
			var dls []dl
			c.mu.Lock()
			for m, q := range c.pendBlk {
				if len(q) > 0 {
					dls = append(dls, dl{"blk", m})
				}
			}
			for m, q := range c.pendNR {
				if len(q) > 0 {
					dls = append(dls, dl{"nr", m})
				}
			}
			c.mu.Unlock()
			sort.Slice(dls, func(i, j int) bool {
				if dls[i].kind != dls[j].kind {
					return dls[i].kind < dls[j].kind
				}
				return dls[i].m < dls[j].m
			})
			if len(dls) > 0 {
				d := dls[rng.IntN(len(dls))]
				c.mu.Lock()
				if d.kind == "blk" {
					b := c.pendBlk[d.m][0]
					c.pendBlk[d.m] = c.pendBlk[d.m][1:]
					c.mu.Unlock()
					logf("%d deliver blk %d -> m%d", steps, b.Index, d.m)
					c.blkCh[d.m] <- b
				} else {
					e := c.pendNR[d.m][0]
					c.pendNR[d.m] = c.pendNR[d.m][1:]
					c.mu.Unlock()
					logf("%d deliver nr -> m%d", steps, d.m)
					c.nrCh[d.m] <- e
				}
				continue
			}
			// advance fake time by a quantum; produce a block every 4 quanta
			time.Sleep(250 * time.Millisecond)
			sinceBlock++
			if sinceBlock >= 4 {
				sinceBlock = 0
				synctest.Wait()
				b, err := c.ProduceBlock()
				if err != nil {
					t.Errorf("produce: %v", err)
					break
				}
				keys := make([]string, len(b.Transactions))
				for i, tx := range b.Transactions {
					keys[i] = contentKey(tx)[:8]
				}
				logf("%d block %d ntx=%d", steps, b.Index, len(keys))
			}
		}
		height = c.bc.BlockHeight()
		digest = hex.EncodeToString(logh.Sum(nil))[:16]
		cancel()
		// release anything still parked so goroutines can unwind
		for i := 0; i < 1000; i++ {
			synctest.Wait()
			parked := c.gate.Take()
			if len(parked) == 0 {
				break
			}
			for _, p := range parked {
				c.gate.Release(p)
			}
		}
		for _, ch := range c.blkCh {
			close(ch)
		}
		for _, ch := range c.nrCh {
			close(ch)
		}
		for _, nt := range c.ntr {
			nt.Shutdown()
		}
		c.nrPool.StopSubscriptions()
		close(c.evCh)
		c.bc.Close()
		synctest.Wait()
	})
	return
}

func TestGated(t *testing.T) {
	n, _ := strconv.Atoi(os.Getenv("SPIKE_N"))
	if n == 0 {
		n = 3
	}
	seed, _ := strconv.ParseUint(os.Getenv("SPIKE_SEED"), 10, 64)
	w0 := time.Now()
	d, h, steps, errs, lo := runGated(t, n, seed, 3000)
	fmt.Printf("RESULT n=%d seed=%d digest=%s height=%d steps=%d errs=%v leftover=%v wall=%v\n", n, seed, d, h, steps, errs, lo, time.Since(w0))
}
