package spikeb

import (
	"context"
	"fmt"
	"os"
	"sync"
	"testing"
	"testing/synctest"
	"time"

	"github.com/nspcc-dev/neo-go/pkg/core/native/noderoles"
	"github.com/nspcc-dev/neo-go/pkg/rpcclient/invoker"
	"github.com/nspcc-dev/neo-go/pkg/rpcclient/unwrap"
	"github.com/nspcc-dev/neofs-contract/deploy"
	"go.uber.org/zap"
)

func TestEndState(t *testing.T) {
	n := 4
	dir, _ := os.MkdirTemp("", "spikeb")
	defer os.RemoveAll(dir)
	defer func() { recover() }()
	synctest.Test(t, func(t *testing.T) {
		c, _ := NewChain(n, dir, zap.NewNop())
		ctx, cancel := context.WithCancel(context.Background())
		stop := make(chan struct{})
		go func() {
			for {
				select {
				case <-stop:
					return
				case <-time.After(msPerBlock * time.Millisecond):
				}
				c.ProduceBlock()
			}
		}()
		var wg sync.WaitGroup
		for i := 0; i < n; i++ {
			wg.Add(1)
			go func() { defer wg.Done(); _ = deploy.Deploy(ctx, prm(t, c, ctx, i, zap.NewNop())) }()
		}
		wg.Wait()
		for id := int32(1); id < 30; id++ {
			h, err := c.bc.GetContractScriptHash(id)
			if err != nil {
				continue
			}
			cs := c.bc.GetContractState(h)
			fmt.Printf("contract id=%d name=%q hash=%s upd=%d\n", id, cs.Manifest.Name, h.StringLE(), cs.UpdateCounter)
		}
		inv := invoker.New(c.Client(ctx, 0), nil)
		nns, _ := c.bc.GetContractScriptHash(1)
		for _, name := range []string{"proxy", "audit", "netmap", "balance", "reputation", "neofsid", "container", "alphabet0", "alphabet1", "alphabet2", "alphabet3", "alphabet4"} {
			recs, err := unwrap.ArrayOfUTF8Strings(inv.Call(nns, "getRecords", name+".neofs", 16))
			fmt.Printf("nns %s.neofs -> %v %v\n", name, recs, err)
		}
		for _, r := range []noderoles.Role{noderoles.P2PNotary, noderoles.NeoFSAlphabet} {
			ks, _, _ := c.bc.GetDesignatedByRole(r)
			fmt.Printf("role %v: %d keys\n", r, len(ks))
		}
		for i := 0; i < n; i++ {
			fmt.Printf("member %d GAS=%v\n", i, c.bc.GetUtilityTokenBalance(c.privs[i].GetScriptHash()))
		}
		cancel()
		close(stop)
	})
}
