package spike

import (
	"testing"

	"github.com/nspcc-dev/neo-go/pkg/core/storage"
	"github.com/nspcc-dev/neo-go/pkg/core/transaction"
	"github.com/nspcc-dev/neo-go/pkg/smartcontract"
	"github.com/nspcc-dev/neo-go/pkg/smartcontract/callflag"
	"github.com/nspcc-dev/neo-go/pkg/smartcontract/trigger"
	"github.com/nspcc-dev/neo-go/pkg/util"
)

func TestWhatIf(t *testing.T) {
	w := newWorld(t, 7)
	e := w.e
	u := e.NewAccount(t)
	try := func(name string, signers []util.Uint160, scope transaction.WitnessScope) {
		script, _ := smartcontract.CreateCallScript(w.balance, "mint", u.ScriptHash(), 5, []byte("x"))
		tx := transaction.New(script, 0)
		for _, s := range signers {
			tx.Signers = append(tx.Signers, transaction.Signer{Account: s, Scopes: scope})
		}
		ic, err := e.Chain.GetTestVM(trigger.Application, tx, nil)
		if err != nil {
			t.Fatal(err)
		}
		ic.VM.GasLimit = 100_0000_0000
		ic.VM.LoadScriptWithFlags(script, callflag.All)
		err = ic.VM.Run()
		ops := storage.BatchToOperations(ic.DAO.GetBatch())
		t.Logf("%-28s state=%s err=%v storageOps=%d notifications=%d", name, ic.VM.State(), err != nil, len(ops), len(ic.Notifications))
		ic.Finalize()
	}
	try("alphabet 5of7 global", []util.Uint160{w.alphabet.ScriptHash()}, transaction.Global)
	try("committee 4of7 global", []util.Uint160{w.committee.ScriptHash()}, transaction.Global)
	try("single member", []util.Uint160{w.privs[0].GetScriptHash()}, transaction.Global)
	try("alphabet scope None", []util.Uint160{w.alphabet.ScriptHash()}, transaction.None)
	try("alphabet CalledByEntry", []util.Uint160{w.alphabet.ScriptHash()}, transaction.CalledByEntry)
	try("stranger", []util.Uint160{u.ScriptHash()}, transaction.Global)
}
