package spike

import (
	"math/big"
	"testing"

	"github.com/nspcc-dev/neo-go/pkg/neotest"
	"github.com/nspcc-dev/neo-go/pkg/util"
	"github.com/nspcc-dev/neo-go/pkg/vm/stackitem"
	"github.com/nspcc-dev/neo-go/pkg/vm/vmstate"
)

func (w *world) call(t testing.TB, h util.Uint160, m string, args ...any) (stackitem.Item, error) {
	inv := w.e.NewInvoker(h, w.alphabet)
	st, err := inv.TestInvoke(t, m, args...)
	if err != nil {
		return nil, err
	}
	if st.Len() == 0 {
		return nil, nil
	}
	return st.Pop().Item(), nil
}

func (w *world) tx(t testing.TB, signers []neotest.Signer, sysfee int64, h util.Uint160, m string, args ...any) (vmstate.State, string, int) {
	e := w.e
	tx := e.NewUnsignedTx(t, h, m, args...)
	e.SignTx(t, tx, sysfee, signers...)
	e.AddNewBlock(t, tx)
	aer := e.GetTxExecResult(t, tx.Hash())
	return aer.VMState, aer.FaultException, len(aer.Events)
}

func bal(t testing.TB, w *world, a util.Uint160) *big.Int {
	it, err := w.call(t, w.balance, "balanceOf", a)
	if err != nil {
		t.Fatal(err)
	}
	b, _ := it.TryInteger()
	return b
}

func TestBehaviours(t *testing.T) {
	w := newWorld(t, 4)
	e := w.e
	A := []neotest.Signer{w.alphabet}
	u1 := e.NewAccount(t)
	u2 := e.NewAccount(t)
	t.Log(w.tx(t, A, -1, w.balance, "mint", u1.ScriptHash(), 1000, []byte("d")))
	t.Log(w.tx(t, A, -1, w.balance, "mint", u2.ScriptHash(), 500, []byte("d")))
	// committee-majority instead of alphabet
	t.Log("mint by committee-majority (n=4: 3of4 both? alphabet m=3, committee m=3):", w.alphabet.ScriptHash() == w.committee.ScriptHash())
	// negative transfer by u1: steals from u2
	st, fe, ev := w.tx(t, []neotest.Signer{u1}, -1, w.balance, "transfer", u1.ScriptHash(), u2.ScriptHash(), -400, nil)
	t.Log("negative transfer:", st, fe, ev, "u1=", bal(t, w, u1.ScriptHash()), "u2=", bal(t, w, u2.ScriptHash()))
	st, fe, ev = w.tx(t, []neotest.Signer{u1}, -1, w.balance, "transfer", u1.ScriptHash(), u2.ScriptHash(), -400, nil)
	t.Log("negative transfer 2:", st, fe, ev, "u1=", bal(t, w, u1.ScriptHash()), "u2=", bal(t, w, u2.ScriptHash()))
	ts, _ := w.call(t, w.balance, "totalSupply")
	t.Log("supply", ts)
	// gas limit fault: transfer with tiny sysfee
	st, fe, ev = w.tx(t, []neotest.Signer{u1}, 100000, w.balance, "transfer", u1.ScriptHash(), u2.ScriptHash(), 1, nil)
	t.Log("gas-limited transfer:", st, fe, ev, "u1=", bal(t, w, u1.ScriptHash()), "u2=", bal(t, w, u2.ScriptHash()))
	// lock until=0
	lockAcc := util.Uint160{9, 9, 9}
	t.Log(w.tx(t, A, -1, w.balance, "lock", []byte("x"), u1.ScriptHash(), lockAcc, 100, 0))
	t.Log(w.tx(t, A, -1, w.netmap, "newEpoch", 1))
	t.Log("lock until=0 after tick: lock=", bal(t, w, lockAcc), "u1=", bal(t, w, u1.ScriptHash()))

	// snapshot count: tick to epoch 12 and reduce to 3
	for ep := 2; ep <= 12; ep++ {
		w.tx(t, A, -1, w.netmap, "newEpoch", ep)
	}
	// add a structured candidate each epoch? need node witness; use addNode with node signer
	t.Log(w.tx(t, A, -1, w.netmap, "updateSnapshotCount", 0))
	t.Log(w.tx(t, A, -1, w.netmap, "newEpoch", 13))
	t.Log(w.tx(t, A, -1, w.netmap, "updateSnapshotCount", 5))
	t.Log(w.tx(t, A, -1, w.netmap, "newEpoch", 13))
}
