package spike

import (
	"crypto/sha256"
	"encoding/hex"
	"encoding/json"
	"fmt"
	"path/filepath"
	"sort"
	"testing"
	"time"

	"github.com/nspcc-dev/neo-go/pkg/config"
	"github.com/nspcc-dev/neo-go/pkg/config/netmode"
	"github.com/nspcc-dev/neo-go/pkg/core"
	"github.com/nspcc-dev/neo-go/pkg/core/state"
	"github.com/nspcc-dev/neo-go/pkg/core/storage"
	"github.com/nspcc-dev/neo-go/pkg/core/transaction"
	"github.com/nspcc-dev/neo-go/pkg/crypto/keys"
	"github.com/nspcc-dev/neo-go/pkg/neotest"
	"github.com/nspcc-dev/neo-go/pkg/util"
	"github.com/nspcc-dev/neo-go/pkg/vm/stackitem"
	"github.com/nspcc-dev/neo-go/pkg/wallet"
	"github.com/stretchr/testify/require"
	"go.uber.org/zap"
)

func detKey(seed string, i int) *keys.PrivateKey {
	h := sha256.Sum256([]byte(fmt.Sprintf("%s/%d", seed, i)))
	k, err := keys.NewPrivateKeyFromBytes(h[:])
	if err != nil {
		panic(err)
	}
	return k
}

type world struct {
	e         *neotest.Executor
	privs     []*keys.PrivateKey
	alphabet  neotest.Signer // 2n/3+1
	committee neotest.Signer // n/2+1
	nns, netmap, balance, container, neofsid util.Uint160
}

func multi(privs []*keys.PrivateKey, m int) neotest.Signer {
	pubs := make(keys.PublicKeys, len(privs))
	for i := range privs {
		pubs[i] = privs[i].PublicKey()
	}
	accs := make([]*wallet.Account, len(privs))
	for i := range privs {
		accs[i] = wallet.NewAccountFromPrivateKey(privs[i])
		if err := accs[i].ConvertMultisig(m, pubs); err != nil {
			panic(err)
		}
	}
	return neotest.NewMultiSigner(accs...)
}

func (w *world) deploy2(t testing.TB, c *neotest.Contract, data any) {
	e := w.e
	bNef, err := c.NEF.Bytes()
	require.NoError(t, err)
	bMan, err := json.Marshal(c.Manifest)
	require.NoError(t, err)
	tx := e.NewUnsignedTx(t, e.NativeHash(t, "ContractManagement"), "deploy", bNef, bMan, data)
	signers := []neotest.Signer{w.committee}
	if w.alphabet.ScriptHash() != w.committee.ScriptHash() {
		signers = append(signers, w.alphabet)
	}
	e.SignTx(t, tx, -1, signers...)
	e.AddNewBlock(t, tx)
	e.CheckHalt(t, tx.Hash())
}

func comp(t testing.TB, sender util.Uint160, d, c string) *neotest.Contract {
	x := *neotest.CompileFile(t, sender, d, c)
	x.Hash = state.CreateContractHash(sender, x.NEF.Checksum, x.Manifest.Name)
	return &x
}

func src(n string) (string, string) {
	d := filepath.Join("/repo/contracts", n)
	return d, filepath.Join(d, "config.yml")
}

func newWorld(t testing.TB, n int) *world {
	privs := make([]*keys.PrivateKey, n)
	for i := range privs {
		privs[i] = detKey("committee", i)
	}
	sort.Slice(privs, func(i, j int) bool { return privs[i].PublicKey().Cmp(privs[j].PublicKey()) < 0 })
	sc := make([]string, n)
	for i := range privs {
		sc[i] = hex.EncodeToString(privs[i].PublicKey().Bytes())
	}
	cfg := config.Blockchain{ProtocolConfiguration: config.ProtocolConfiguration{
		Magic: netmode.UnitTestNet, MaxTraceableBlocks: 1000, TimePerBlock: time.Second,
		StandbyCommittee: sc, ValidatorsCount: uint32(n), VerifyTransactions: true,
	}}
	bc, err := core.NewBlockchain(storage.NewMemoryStore(), cfg, zap.NewNop())
	require.NoError(t, err)
	go bc.Run()
	t.Cleanup(bc.Close)
	validators := multi(privs, n-(n-1)/3)
	w := &world{privs: privs, alphabet: multi(privs, n*2/3+1), committee: multi(privs, n/2+1)}
	w.e = neotest.NewExecutor(t, bc, validators, w.committee)
	e := w.e
	// fund alphabet & committee accounts
	gas := e.NativeHash(t, "GasToken")
	for _, s := range []neotest.Signer{w.alphabet, w.committee} {
		if s.ScriptHash() == validators.ScriptHash() { continue }
		tx := e.NewTx(t, []neotest.Signer{validators}, gas, "transfer", validators.ScriptHash(), s.ScriptHash(), int64(100000_0000_0000), nil)
		e.AddNewBlock(t, tx); e.CheckHalt(t, tx.Hash())
	}
	d, c := src("nns")
	cn := comp(t, e.CommitteeHash, d, c)
	e.DeployContractBy(t, w.committee, cn, []any{[]any{[]any{"neofs", "ops@nspcc.io"}}})
	w.nns = cn.Hash
	reg := func(name string, h util.Uint160) {
		inv := e.CommitteeInvoker(w.nns)
		inv.Invoke(t, true, "register", name+".neofs", e.CommitteeHash, "ops@nspcc.ru", int64(3600), int64(600), int64(10*365*24*3600), int64(3600))
		inv.Invoke(t, nil, "addRecord", name+".neofs", 16, h.StringLE())
	}
	d, c = src("netmap")
	cm := comp(t, e.CommitteeHash, d, c)
	e.DeployContractBy(t, w.committee, cm, []any{false, util.Uint160{}, util.Uint160{}, []any{}, []any{"ContainerFee", int64(7), "ContainerAliasFee", int64(3)}})
	w.netmap = cm.Hash
	reg("netmap", cm.Hash)
	d, c = src("balance")
	cb := comp(t, e.CommitteeHash, d, c)
	// balance deploy subscribes for new epoch => needs alphabet witness
	w.deploy2(t, cb, nil)
	w.balance = cb.Hash
	reg("balance", cb.Hash)
	d, c = src("neofsid")
	ci := comp(t, e.CommitteeHash, d, c)
	e.DeployContractBy(t, w.committee, ci, nil)
	w.neofsid = ci.Hash
	reg("neofsid", ci.Hash)
	d, c = src("container")
	cc := comp(t, e.CommitteeHash, d, c)
	w.deploy2(t, cc, nil)
	w.container = cc.Hash
	reg("container", cc.Hash)
	return w
}

func TestSpike(t *testing.T) {
	for _, n := range []int{1, 4, 7} {
		t0 := time.Now()
		w := newWorld(t, n)
		t.Logf("n=%d world built in %v height=%d", n, time.Since(t0), w.e.Chain.BlockHeight())
		_ = stackitem.Null{}
		_ = transaction.Global
	}
}
