package spike

import (
	"testing"

	"github.com/nspcc-dev/neo-go/pkg/neotest"
	"github.com/nspcc-dev/neo-go/pkg/util"
	"github.com/nspcc-dev/neo-go/pkg/vm/stackitem"
)

func TestMore(t *testing.T) {
	w := newWorld(t, 1)
	e := w.e
	A := []neotest.Signer{w.alphabet}
	// --- reputation prefix
	d, c := src("reputation")
	cr := comp(t, e.CommitteeHash, d, c)
	e.DeployContractBy(t, w.committee, cr, nil)
	peer := make([]byte, 33)
	peer[0] = 2
	t.Log(w.tx(t, A, -1, cr.Hash, "put", 257, peer, []byte("v257")))
	t.Log(w.tx(t, A, -1, cr.Hash, "put", 1, peer, []byte("v1")))
	r, err := w.call(t, cr.Hash, "listByEpoch", 1)
	t.Log("listByEpoch(1) ->", len(r.Value().([]stackitem.Item)), err)
	r, err = w.call(t, cr.Hash, "listByEpoch", 0)
	t.Log("listByEpoch(0) ->", len(r.Value().([]stackitem.Item)), err)

	// --- neofs non-notary setConfig by stranger
	d, c = src("neofs")
	cf := comp(t, e.CommitteeHash, d, c)
	k := []any{}
	accs := []neotest.Signer{}
	for i := 0; i < 4; i++ {
		a := e.NewAccount(t).(neotest.SingleSigner)
		accs = append(accs, a)
		k = append(k, a.Account().PublicKey().Bytes())
	}
	e.DeployContractBy(t, w.committee, cf, []any{true, util.Uint160{1}, k, []any{}})
	stranger := e.NewAccount(t)
	id := []byte("id1")
	t.Log("alphabet0 vote:")
	t.Log(w.tx(t, []neotest.Signer{accs[0]}, -1, cf.Hash, "setConfig", id, []byte("K"), []byte("V")))
	t.Log("alphabet1 vote:")
	t.Log(w.tx(t, []neotest.Signer{accs[1]}, -1, cf.Hash, "setConfig", id, []byte("K"), []byte("V")))
	r, _ = w.call(t, cf.Hash, "config", []byte("K"))
	t.Log("after 2 of 4 (threshold 3): config =", r)
	t.Log("stranger vote:")
	t.Log(w.tx(t, []neotest.Signer{stranger}, -1, cf.Hash, "setConfig", id, []byte("K"), []byte("V")))
	r, _ = w.call(t, cf.Hash, "config", []byte("K"))
	t.Log("after stranger: config =", r)
	// cheque by stranger
	t.Log("stranger cheque:")
	t.Log(w.tx(t, []neotest.Signer{stranger}, -1, cf.Hash, "cheque", []byte("c1"), stranger.ScriptHash(), 1, []byte("l")))
}
