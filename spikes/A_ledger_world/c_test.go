package spike

import (
	"crypto/sha256"
	"testing"

	"github.com/nspcc-dev/neo-go/pkg/core/interop/storage"
	"github.com/nspcc-dev/neo-go/pkg/neotest"
	"github.com/nspcc-dev/neo-go/pkg/vm/stackitem"
)

func TestLeak(t *testing.T) {
	w := newWorld(t, 1)
	e := w.e
	A := []neotest.Signer{w.alphabet}
	node := e.NewAccount(t).(neotest.SingleSigner)
	pub := node.Account().PublicKey().Bytes()
	n2 := []any{[]any{"addr"}, map[string]string{"k": "v"}, pub, 1}
	_ = n2
	st, fe, ev := w.tx(t, []neotest.Signer{w.alphabet, node}, -1, w.netmap, "addNode", stackitem.NewStruct([]stackitem.Item{
		stackitem.NewArray([]stackitem.Item{stackitem.Make("addr")}),
		stackitem.NewMapWithValue([]stackitem.MapElement{{Key: stackitem.Make("k"), Value: stackitem.Make("v")}}),
		stackitem.Make(pub), stackitem.Make(1)}))
	t.Log("addNode", st, fe, ev)
	for ep := 1; ep <= 12; ep++ {
		w.tx(t, A, -1, w.netmap, "newEpoch", ep)
	}
	list := func() (res []int) {
		for ep := 0; ep <= 16; ep++ {
			inv := e.NewInvoker(w.netmap, w.alphabet)
			s, err := inv.TestInvoke(t, "listNodes", ep)
			if err != nil { t.Fatal(err) }
			it := s.Pop().Value().(*storage.Iterator)
			n := 0
			for it.Next() { n++ }
			if n > 0 { res = append(res, ep) }
		}
		return
	}
	t.Log("before resize, non-empty epochs:", list())
	t.Log(w.tx(t, A, -1, w.netmap, "updateSnapshotCount", 3))
	t.Log("after resize to 3, non-empty epochs:", list())
	w.tx(t, A, -1, w.netmap, "newEpoch", 13)
	w.tx(t, A, -1, w.netmap, "newEpoch", 14)
	t.Log("after 2 more ticks, non-empty epochs:", list())

	// placement signatures: duplicate signature of one member
	k1 := e.NewAccount(t).(neotest.SingleSigner).Account().PrivateKey()
	k2 := e.NewAccount(t).(neotest.SingleSigner).Account().PrivateKey()
	cid := sha256.Sum256([]byte("c"))
	t.Log(w.tx(t, A, -1, w.container, "addNextEpochNodes", cid[:], 0, []any{k1.PublicKey().Bytes(), k2.PublicKey().Bytes()}))
	t.Log(w.tx(t, A, -1, w.container, "commitContainerListUpdate", cid[:], []any{2}))
	msg := []byte("message")
	s1 := k1.Sign(msg)
	s2 := k2.Sign(msg)
	r, err := w.call(t, w.container, "verifyPlacementSignatures", cid[:], msg, []any{[]any{s1, s2}})
	t.Log("honest:", r, err)
	r, err = w.call(t, w.container, "verifyPlacementSignatures", cid[:], msg, []any{[]any{s1, s1}})
	t.Log("duplicate s1,s1 with REP=2:", r, err)
}
