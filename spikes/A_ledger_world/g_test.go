package spike

import (
	"testing"

	"github.com/nspcc-dev/neo-go/pkg/neotest"
	"github.com/nspcc-dev/neo-go/pkg/vm/stackitem"
	"github.com/stretchr/testify/require"
)

func (w *world) jump(t testing.TB, ms uint64) {
	b := w.e.NewUnsignedBlock(t)
	b.Timestamp += ms
	require.NoError(t, w.e.Chain.AddBlock(w.e.SignBlock(b)))
}

func TestNNS(t *testing.T) {
	w := newWorld(t, 1)
	e := w.e
	C := []neotest.Signer{w.committee}
	u1 := e.NewAccount(t)
	u2 := e.NewAccount(t)
	// short TLD (100s) and long TLD
	t.Log(w.tx(t, C, -1, w.nns, "registerTLD", "short", "e@x.y", 1, 1, 100, 1))
	t.Log(w.tx(t, C, -1, w.nns, "registerTLD", "long", "e@x.y", 1, 1, 100000000, 1))
	// (ii) b.long registered by u1; record for xa.b.long; then register a.b.long
	t.Log(w.tx(t, []neotest.Signer{u1}, -1, w.nns, "register", "b.long", u1.ScriptHash(), "e@x.y", 1, 1, 1000, 1))
	t.Log("addRecord xa.b.long:")
	t.Log(w.tx(t, []neotest.Signer{u1}, -1, w.nns, "addRecord", "xa.b.long", 16, "hello"))
	r, err := w.call(t, w.nns, "isAvailable", "a.b.long")
	t.Log("isAvailable(a.b.long) with record xa.b.long on parent:", r, err)
	if r != nil { v, _ := r.TryBool(); t.Log("   =", v) }
	t.Log("register a.b.long:")
	t.Log(w.tx(t, []neotest.Signer{u1}, -1, w.nns, "register", "a.b.long", u1.ScriptHash(), "e@x.y", 1, 1, 1000, 1))
	// (iii) records survive re-registration?
	t.Log(w.tx(t, []neotest.Signer{u1}, -1, w.nns, "register", "c.long", u1.ScriptHash(), "e@x.y", 1, 1, 1000, 1))
	t.Log(w.tx(t, []neotest.Signer{u1}, -1, w.nns, "addRecord", "c.long", 16, "old-owner-data"))
	w.jump(t, 1000*1000+5)
	r, err = w.call(t, w.nns, "getRecords", "c.long", 16)
	t.Log("getRecords(c.long) after expiry:", r, err)
	t.Log("re-register c.long by u2:")
	t.Log(w.tx(t, []neotest.Signer{u2}, -1, w.nns, "register", "c.long", u2.ScriptHash(), "e@x.y", 1, 1, 1000, 1))
	r, err = w.call(t, w.nns, "getRecords", "c.long", 16)
	if err == nil {
		for _, it := range r.Value().([]stackitem.Item) { b, _ := it.TryBytes(); t.Log("   c.long TXT after re-registration by u2:", string(b)) }
	} else { t.Log(err) }
	// (i) expired TLD
	r, err = w.call(t, w.nns, "isAvailable", "short")
	t.Log("isAvailable(expired TLD 'short'):", r, err)
	r, err = w.call(t, w.nns, "isAvailable", "x.short")
	t.Log("isAvailable(x.short) under expired TLD:", r, err)
	if r != nil { v, _ := r.TryBool(); t.Log("   =", v) }
}
