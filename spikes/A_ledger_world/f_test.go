package spike

import (
	"crypto/sha256"
	"testing"

	"github.com/mr-tron/base58"
	"github.com/nspcc-dev/neo-go/pkg/encoding/address"
	"github.com/nspcc-dev/neo-go/pkg/neotest"
	"github.com/nspcc-dev/neo-go/pkg/util"
	"github.com/nspcc-dev/neo-go/pkg/vm/stackitem"
)

func blob(owner neotest.Signer, tag byte) []byte {
	v := make([]byte, 100)
	v[0] = tag
	o, _ := base58.Decode(address.Uint160ToString(owner.ScriptHash()))
	copy(v[6:], o)
	return v
}

func TestMore2(t *testing.T) {
	w := newWorld(t, 1)
	e := w.e
	A := []neotest.Signer{w.alphabet}
	u := e.NewAccount(t)
	t.Log(w.tx(t, A, -1, w.balance, "mint", u.ScriptHash(), 1000000, []byte("d")))
	// --- alias re-put under another name
	b := blob(u, 1)
	id := sha256.Sum256(b)
	sig, pub, tok := make([]byte, 64), make([]byte, 33), []byte{}
	t.Log("putNamed n1:")
	t.Log(w.tx(t, A, -1, w.container, "putNamed", b, sig, pub, tok, "name1", ""))
	t.Log("putNamed n2 (same blob):")
	t.Log(w.tx(t, A, -1, w.container, "putNamed", b, sig, pub, tok, "name2", ""))
	r, err := w.call(t, w.container, "alias", id[:])
	t.Log("alias:", string(r.Value().([]byte)), err)
	t.Log("delete:")
	t.Log(w.tx(t, A, -1, w.container, "delete", id[:], sig, tok))
	for _, n := range []string{"name1.container", "name2.container"} {
		r, err = w.call(t, w.nns, "getRecords", n, 16)
		if err != nil {
			t.Log(n, "getRecords err:", err)
		} else {
			t.Log(n, "TXT records after delete:", len(r.Value().([]stackitem.Item)))
		}
	}
	// --- many locks expiring at one tick
	for i := 0; i < 12; i++ {
		la := util.Uint160{byte(i + 1), 0xaa}
		w.tx(t, A, -1, w.balance, "lock", []byte{byte(i)}, u.ScriptHash(), la, 10+i, 1)
	}
	t.Log("before tick u =", bal(t, w, u.ScriptHash()))
	st, fe, ev := w.tx(t, A, -1, w.netmap, "newEpoch", 1)
	t.Log("tick:", st, fe, ev)
	left := 0
	for i := 0; i < 12; i++ {
		la := util.Uint160{byte(i + 1), 0xaa}
		if bal(t, w, la).Sign() != 0 {
			left++
		}
	}
	t.Log("after tick u =", bal(t, w, u.ScriptHash()), "locks still holding funds:", left)
}
