#!/bin/bash
# every property-preserving own change against the checks listed for it: all must stay quiet
cd /verif
export GOFLAGS=-mod=mod GOPROXY=off GOSUMDB=off GOTOOLCHAIN=local
out=.work/benign_results.txt; : > $out
run1() { n=$1; shift; b=30; VERIF_WORKERS=5 VERIF_BUDGET=$b bin/mutant $n /verif/mutants/$n.diff "$@" 2>&1 | grep "^mutant=" | sed 's/replay=[^ ]* //' | cut -c1-170 >> $out; }
export -f run1; export out
python3 - <<'PY' | xargs -P 3 -L 1 bash -c 'run1 "$@"' _
import json
for x in json.load(open('/verif/mutants/table.json')):
    if x.get('benign'): print(x['name'], ' '.join(x['props']))
PY
echo DONE >> $out
