#!/bin/bash
# runs every kept independent change against the checks of the sibling
# properties (same contracts/engine): which of them fire although the change
# was written against another property?
cd /verif
export GOFLAGS=-mod=mod GOPROXY=off GOSUMDB=off GOTOOLCHAIN=local
sib() { case $1 in
 C01) echo "C02 C09";; C02) echo "C01 C09";; C09) echo "C01 C02";;
 C04) echo "C05 C14";; C05) echo "C04";; C14) echo "C04";;
 C06) echo "C07 C08";; C07) echo "C06 C08";; C08) echo "C06 C07";;
 C10) echo "C11 C12";; C11) echo "C10 C12";; C12) echo "C10 C11";;
 C17) echo "C19";; C19) echo "C17";; C20) echo "C04 C06";; *) echo "";; esac; }
out=.work/crossmatrix10.txt; : > $out
run1() { t=$1; p=C${t:1:2}; s=$(sib $p); [ -z "$s" ] && return; VERIF_WORKERS=5 VERIF_BUDGET=25 bin/mutant $t /verif/seeded/$t/patch.diff $s 2>&1 | grep "^mutant=" | sed 's/replay=[^ ]* //' | cut -c1-170 >> $out; }
export -f run1 sib; export out
for t in c20g c20h c20i c19g c19h c20j c20k c14g c14h c12g c10g c01g c02g c04g c05g c06g c07g c08g c09g c11g c17g c19i c14i c20l; do echo $t; done | xargs -P 3 -I{} bash -c "run1 {}"
echo DONE >> $out
