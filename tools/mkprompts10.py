#!/usr/bin/env python3
# builds wave-4 prompts: one per property, listing what earlier changes did
import json, glob, os, subprocess, sys
props={json.loads(l)['id']:json.loads(l) for l in open('/verif/properties.jsonl')}
tmpl=open('/verif/.work/mutprompts/c17b.txt').read()
# cut template into parts around property-specific text
head=tmpl.split('THE PROPERTY your change must break')[0]
kinds={'C01': 'failed or rejected invocations (GAS exhaustion mid-way, refusals) that nevertheless leave a trace, or notification contents (Transfer/TransferX fields) that disagree with the real movement', 'C02': 'the Alphabet-only paths (transferX, lock, burn, newEpoch unlock) being reachable with less than the Alphabet multi-signature under some committee size or scope', 'C03': 'safe methods that modify state, or the verify methods of Proxy/Alphabet/Processing, or a method of Reputation/Audit/NeoFSID/Processing/Alphabet', 'C04': 'the owner index (list/containersOf/count) or the notifications (exactly one PutSuccess/DeleteSuccess/SetEACLSuccess) rather than names and eACL tables', 'C05': 'atomicity: a put that fails after some nodes were already paid, or a fee read at the wrong moment when the configuration changes in the same block', 'C06': 'the tick height (lastEpochBlock), the candidate set being altered by a tick, or a subscriber that rejects the call', 'C07': 'replacement of node info on re-adding, or the witness combination for requests made by the node itself', 'C08': 'snapshotByEpoch/listNodes for epochs just outside the window (future epochs, epoch current-N) rather than the ring copy arithmetic', 'C09': 'the tick with epoch exactly equal to until, or a lock whose until lies in the past when it is created', 'C10': 'renew limits (ten years ahead), transfer clearing the admin, or totalSupply/balanceOf accounting on re-registration of an expired name', 'C11': 'updateSOA/renew authorisation, committee-owned names and TLD records, or admin rights after the owner changes', 'C12': 'SOA serial refresh, records of sub-names living under the longest registered enclosing name, or registration being blocked while the parent holds records for the sub-name', 'C13': 'idempotence of a second run on a finished chain (something is deployed, updated, registered or designated again), or exactly-once deployment when two members race', 'C14': 'the pending roster (addNextEpochNodes batches accumulating, commit emptying it) or the order of keys returned by nodes(cid, i)', 'C15': 'the deployment order returned by GetFS()/GetMain(), the version() constant of one contract, or result decoding of a generated binding for an unusual but valid return value', 'C16': 'data preservation for Balance, NNS or NeoFSID storage during _deploy(isUpdate), or the witness check of update for the main-chain contracts (NeoFS, Processing)', 'C17': 'repeated votes by one key, or votes for different ids mixing (two decisions sharing voters), or innerRingCandidateRemove requested by the candidate itself', 'C19': 'the withdraw fee with Notary enabled versus disabled, candidate registration fee, or what Proxy/Processing/Alphabet accept in onNEP17Payment', 'C20': 'Audit (put/get/list/listByEpoch/listByCID/listByNode), NeoFSID (addKey/removeKey/key) or the configuration maps of Netmap/NeoFS (setConfig/config/listConfig)'}
for pid,tag,focus in [a.split(':',2) for a in sys.argv[1:]]:
    focus=focus.replace('_',' ')
    p=props[pid]
    prev=[]
    for d in sorted(glob.glob('/verif/seeded/c%s*'%pid[1:])):
        m=json.load(open(d+'/meta.json'))
        prev.append(m['summary'].strip())
    prop_txt='''THE PROPERTY your change must break (this text is all you get about what is being verified):
  id: %s
  title: %s
  statement: %s
  quantified over: %s
  why the existing tests cannot settle it: %s
  code anchors: files %s; mechanisms %s
''' % (pid,p['title'],p['statement'],p['quantifier']['text'],p['why_tests_cant'],', '.join(p['anchors']['files']),'; '.join('%s (%s)'%(x['name'],x['where']) for x in p['anchors']['mechanism']))
    rest=tmpl.split('TASK\n',1)[1]
    # replace the diversity sentence
    i=rest.index('IMPORTANT for diversity:')
    j=rest.index('\n3. The change must still compile')
    div='IMPORTANT for diversity: other engineers have ALREADY written the following changes for this property — do something clearly different (another function, another mechanism, another kind of condition): ' + ' || '.join('(%d) %s'%(k+1,s) for k,s in enumerate(prev)) + ' This time the change must be of a particular KIND: it is invisible as long as two things coincide that coincide in every existing test and in most deployments, and it shows only when they differ. Examples of such pairs: ' + focus + '. Pick one such pair (one of these or another you find in the code) and make the code use the wrong one of the two. Stay inside what the property quantifies over: the failing scenario must be one the property statement covers.'
    rest=rest[:i]+div+rest[j:]
    txt=head.replace('c17b',tag)+prop_txt+'\nTASK\n'+rest.replace('c17b',tag).replace('"C17"','"%s"'%pid)
    txt=txt.replace('(verify both: `git stash` / `git stash pop`, or apply/revert the diff)','(verify both by saving `git diff --binary > ../'+tag+'.diff` and using `git apply -R` / `git apply`; do NOT use `git stash`: the stash is shared between all worktrees of the repository and other engineers are working in theirs right now)')
    open('/verif/.work/mutprompts10/%s.txt'%tag,'w').write(txt)
    print(tag, len(txt))
