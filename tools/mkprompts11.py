#!/usr/bin/env python3
# wave 11: by kind "needs a schedule or a fault, not a value": same-block interleavings, failures at a point,
# two cooperating edits. usage: mkprompts11.py C01:c01h C13:c13u ...
import json, glob, os, sys
props={json.loads(l)['id']:json.loads(l) for l in open('/verif/properties.jsonl')}
tmpl=open('/verif/tools/prompt_template/c17b.txt').read()
head=tmpl.split('THE PROPERTY your change must break')[0]
ex={
'C01':'several movements of one account inside ONE invocation or one block (a tick releasing several locks of one owner; fee loop paying a node that is also the payer); a nested refusal in the middle of a multi-transfer invocation; an edit in common/ plus an edit in balance that only together lose tokens',
'C02':'an authorisation that is decided once and reused for a later debit of the same invocation or block; a debit made on behalf of a contract caller that itself was called by somebody else; two edits (helper + caller) that only together let a debit through',
'C03':'a witness check that moves behind an early return taken only after a particular earlier transaction; a check skipped for the second call of the same method in one block; an edit in common/ and one in a contract which only together drop a check',
'C04':'put and delete (or setEACL and delete, or two puts under two names) of one container in ONE block or in a particular order; a nested NNS call that refuses and is tolerated; two edits (removeContainer + a getter) that only together leak',
'C05':'a setConfig of the fee in the same block as (before/after) a put; a put that runs out of GAS or is refused after some Alphabet nodes were paid; two puts of one owner in one block with funds for only one',
'C06':'two ticks in one block; a candidate change and a tick in one block in either order; a subscriber that refuses once and accepts the next epoch; a subscription made in the same block as the tick',
'C07':'add and update/remove of the same node in ONE block in a particular order; the same node added through the legacy and the structured API in interleaved order; an update arriving right after a tick in the same block',
'C08':'a resize and a tick in ONE block in either order; two resizes without a tick in between; a resize right after the ring wrapped; a tick that is refused (subscriber) between two resizes',
'C09':'a lock created in the same block as the tick that reaches its expiry, in either order; a burn of a lock account in the same block as its release; two locks of one owner expiring in one tick where the first refund changes what the second sees',
'C10':'registration, transfer and renew of one name in ONE block; something derived from the block timestamp when two blocks share almost the same time; take-over of an expired name in the same block in which the old owner renews; two edits that only together miscount',
'C11':'a right exercised in the same block as (right after) the transfer/setAdmin/expiry that removes it; an admin appointed and used in one block; parent and child changing owners in interleaved order',
'C12':'two record changes of one name in ONE block (SOA serial / ordering); a record added to a sub-name in the same block as the registration of that sub-name, in either order; deleteRecords followed by addRecord in one block',
'C13':'a member that crashes and restarts between two particular steps (after sending a transaction but before seeing it accepted; after a Notary request was sent but before the main transaction is completed); an RPC read that fails once at a particular stage; a block or notary-request event that is lost, duplicated or arrives late; two members doing the same step in the same block',
'C14':'addNextEpochNodes batches for two vectors (or two containers) interleaved; a commit in the same block as a following batch; a batch that is refused in the middle (bad key) after some keys were stored; verification right after a commit in the same block',
'C15':'(for this property the kind applies loosely) a difference between shipped artifact and source, or between binding and contract, that shows only on a path taken after a particular sequence of transactions or when an invocation faults at a particular point — e.g. an error path, a catch block, a branch taken only when two transactions share a block',
'C16':'an update attempted in the same block as (right after) a role designation, a vote, a tick or another update; an update that runs out of GAS in the middle of its migration loop and is then repeated; a migration step that depends on state another contract migrates in the same deployment; two edits (common + one contract) which only together lose data',
'C17':'two votes of different Alphabet keys in ONE block; votes for two competing ids interleaved; a vote arriving exactly at / one block after the 20-block limit; a vote in the same block as the alphabetUpdate that removes the voter',
'C19':'a deposit and a withdraw/cheque in one block; emit called twice in one block or right after a payment in the same block; a fee transfer loop that is interrupted (GAS) and repeated; Notary on/off paths that share a helper changed for one of them',
'C20':'a put and the tick that cleans it up in ONE block in either order; two puts under the same key in one block; a configuration key set, removed and set again in one block; estimation put right after the tick that changes the previous-epoch map',
}
for pid,tag in [a.split(':') for a in sys.argv[1:]]:
    p=props[pid]
    prev=[]
    for d in sorted(glob.glob('/verif/seeded/c%s*'%pid[1:])):
        m=json.load(open(d+'/meta.json'))
        prev.append(m['summary'].strip()[:260])
    prop_txt='''THE PROPERTY your change must break (this text is all you get about what is being verified):
  id: %s
  title: %s
  statement: %s
  quantified over: %s
  why the existing tests cannot settle it: %s
  code anchors: files %s; mechanisms %s
''' % (pid,p['title'],p['statement'],p['quantifier']['text'],p['why_tests_cant'],', '.join(p['anchors']['files']),'; '.join('%s (%s)'%(x['name'],x['where']) for x in p['anchors']['mechanism']))
    rest=tmpl.split('TASK\n',1)[1]
    i=rest.index('IMPORTANT for diversity:')
    j=rest.index('\n3. The change must still compile')
    div=('IMPORTANT for diversity: other engineers have ALREADY written the following changes for this property — do something clearly different (another function, another mechanism, another kind of condition): '
      + ' || '.join('(%d) %s'%(k+1,s) for k,s in enumerate(prev))
      + ' This time the change must be of a particular KIND: it must NOT be exposed by one unusual argument value alone; it shows only under a particular SCHEDULE or FAULT. One of: (a) two or more transactions in the SAME block (same height, same block timestamp), or a particular ORDER of two operations by different parties, or an operation landing exactly at a boundary in time/height/epoch created by an earlier one; (b) a failure at a particular point — a nested contract call that aborts or is caught, GAS running out mid-way, and for deploy/: an RPC error, a lost, duplicated or late event, a member crashing and restarting between two particular steps; (c) two cooperating edits at two different sites that each look harmless alone and break the property only together. Ideas for this property: '
      + ex[pid] + '. Pick one (or another of the same kind that you find in the code). Stay inside what the property quantifies over: the failing scenario must be one the property statement covers, and on the UNCHANGED code the same scenario must satisfy the property.')
    rest=rest[:i]+div+rest[j:]
    txt=head.replace('c17b',tag)+prop_txt+'\nTASK\n'+rest.replace('c17b',tag).replace('"C17"','"%s"'%pid)
    txt=txt.replace('(verify both: `git stash` / `git stash pop`, or apply/revert the diff)','(verify both by saving `git diff --binary > ../'+tag+'.diff` and using `git apply -R` / `git apply`; do NOT use `git stash`: the stash is shared between all worktrees of the repository and other engineers are working in theirs right now)')
    open('/verif/.work/mutprompts11/%s.txt'%tag,'w').write(txt)
    print(tag, len(txt))
