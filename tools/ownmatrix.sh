#!/bin/bash
# every kept independent change against the check of its own property
cd /verif
export GOFLAGS=-mod=mod GOPROXY=off GOSUMDB=off GOTOOLCHAIN=local
out=.work/ownmatrix.txt; : > $out
run1() { t=$1; p=C${t:1:2}; b=45; w=5; [ $p = C13 ] && { b=150; w=8; }; [ $p = C16 -o $p = C15 ] && b=75; VERIF_WORKERS=$w VERIF_BUDGET=$b bin/mutant $t /verif/seeded/$t/patch.diff $p 2>&1 | grep "^mutant=" | sed 's/replay=[^ ]* //' | cut -c1-170 >> $out; }
export -f run1; export out
ls seeded | xargs -P 2 -I{} bash -c 'run1 {}'
echo DONE >> $out
