#!/bin/sh
cd /verif
for p in C01 C02 C03 C04 C05 C06 C07 C08 C09 C10 C11 C12 C13 C14 C15 C16 C17 C19 C20; do
  bin/check $p quick > .work/quick_$p.log 2>&1; echo "$p rc=$? $(grep -m1 ' quick: ' .work/quick_$p.log)" >> .work/allquick_results.txt
done
echo DONE >> .work/allquick_results.txt
