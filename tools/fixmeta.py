#!/usr/bin/env python3
"""fixmeta.py tag PID rule 'lead note'  — mark an initial miss as caught after strengthening"""
import json,sys
tag,pid,rule,note=sys.argv[1:5]
p='/verif/seeded/%s/meta.json'%tag
m=json.load(open(p))
m['checks_run_against_it']={pid:'caught: '+rule, pid+' (first attempt, before strengthening)':'MISSED'}
m['lead_note']=note
m['base_commit']='ab09c3e'
json.dump(m,open(p,'w'),indent=1)
