#!/bin/sh
# quick checks of the given ids on the current tree, results in .work/subquick_results.txt
cd /verif
for p in "$@"; do
  VERIF_WORKERS=${VERIF_WORKERS:-5} VERIF_BUDGET=${VERIF_BUDGET:-70} bin/check $p quick > .work/subq_$p.log 2>&1; echo "$p rc=$? $(grep -m1 ' quick: ' .work/subq_$p.log) $(grep -m1 VIOLATION .work/subq_$p.log)" >> .work/subquick_results.txt
done
echo DONE >> .work/subquick_results.txt
