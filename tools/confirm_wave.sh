#!/bin/sh
# confirms second-wave seeded changes as they appear (each once)
cd /verif
tags="$@"
i=0
while [ $i -lt 200 ]; do
  pending=0
  for t in $tags; do
    [ -f .work/confirm_$t.log ] && continue
    pending=1
    if [ -f /tmp/mut_$t/SEEDED/meta.json ] && [ -f /tmp/mut_$t/SEEDED/patch.diff ]; then
      # wait until the agent has stopped touching the directory
      if [ -z "$(find /tmp/mut_$t/SEEDED -mmin -2 2>/dev/null)" ]; then
        id=$(echo $t | cut -c1-3 | tr a-z A-Z)
        VERIF_WORKERS=6 VERIF_BUDGET=50 bin/seeded-confirm $t $id > .work/confirm_$t.log 2>&1
      fi
    fi
  done
  [ $pending -eq 0 ] && break
  sleep 60; i=$((i+1))
done
echo DONE > .work/confirm_wave3.done
