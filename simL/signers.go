package siml

import (
	"bytes"
	"fmt"

	"github.com/nspcc-dev/neo-go/pkg/core/transaction"
	"github.com/nspcc-dev/neo-go/pkg/crypto/keys"
)

// Witness tells whether the signer list carries a witness of acc that is valid
// at call depth `depth` (0: contract invoked from the entry script).
func Witness(signers []Signer, acc []byte, depth int) bool {
	for _, s := range signers {
		if !bytes.Equal(s.Hash.BytesBE(), acc) {
			continue
		}
		switch s.Scope {
		case transaction.Global:
			return true
		case transaction.CalledByEntry:
			if depth == 0 {
				return true
			}
		}
	}
	return false
}

// AlphaSignerClass returns the signer set of class `class` for a method that
// requires the Alphabet multi-signature, and the fault kind it represents (""
// for a valid Alphabet witness): 0 Alphabet; 1 committee-majority account (a
// fault only where it differs from the Alphabet account); 2 a single member;
// 3 a stranger; 4 Alphabet with scope None; 5 Alphabet with scope
// CalledByEntry (valid at call depth 0); 6 nobody; 7 Alphabet plus a stranger.
//
// In a world with fewer validators than committee members the validators'
// account is a stranger to the contracts: class 3 is that account, and every
// other class-0 set carries it next to the Alphabet (a witness more than
// needed changes nothing).
func AlphaSignerClass(w *World, class int, stranger *keys.PrivateKey) ([]Signer, string) {
	few := w.Validator.Hash != w.Alphabet.Hash && w.Validator.Hash != w.Committee.Hash
	switch class {
	case 0:
		if few && w.nonce%2 == 1 {
			return []Signer{w.Alphabet, w.Validator}, ""
		}
		return []Signer{w.Alphabet}, ""
	case 1:
		if w.Committee.Hash == w.Alphabet.Hash {
			// n = 1, 2, 4: the two accounts coincide; the neighbouring threshold
			// (one signature short) is the wrong account there
			if s, ok := OneShort(w, w.Alphabet); ok {
				return []Signer{s}, "wit.one_short"
			}
			return []Signer{w.Alphabet}, ""
		}
		return []Signer{w.Committee}, "wit.swap_threshold"
	case 2:
		return []Signer{Single("member0", w.Privs[0])}, "wit.single"
	case 3:
		if few {
			return []Signer{w.Validator}, "wit.validators_account"
		}
		return []Signer{Single("stranger", stranger)}, "wit.missing"
	case 4:
		return []Signer{w.Alphabet.WithScope(transaction.None)}, "wit.scope"
	case 5:
		return []Signer{w.Alphabet.WithScope(transaction.CalledByEntry)}, ""
	case 6:
		return nil, "wit.missing"
	default:
		return []Signer{w.Alphabet, Single("stranger", stranger)}, ""
	}
}

func signerNames(l []Signer) string {
	s := "["
	for i, x := range l {
		if i > 0 {
			s += ","
		}
		s += x.Name
		switch x.Scope {
		case transaction.None:
			s += ":None"
		case transaction.CalledByEntry:
			s += ":CBE"
		}
	}
	return s + "]"
}

func clipStr(s string, n int) string {
	if len(s) > n {
		return s[:n] + "…"
	}
	return s
}

// OneShort returns the multi-signature account of the same keys that needs one
// signature less than s (false for single keys and 1-of-n accounts).
func OneShort(w *World, s Signer) (Signer, bool) {
	m := len(s.Keys)
	if m < 2 || len(w.Privs) < m {
		return Signer{}, false
	}
	return Multi(fmt.Sprintf("%d-of-%d", m-1, len(w.Privs)), m-1, w.Privs), true
}
