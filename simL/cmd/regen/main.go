// regen compares (default) or rewrites (-w name) contract.nef/manifest.json of
// /repo/contracts/<name> using the same compiler entry points as
// `neo-go contract compile`.
package main

import (
	"bytes"
	"flag"
	"fmt"
	"os"
	"path/filepath"

	siml "simL"
)

func main() {
	write := flag.String("w", "", "contract to rewrite")
	flag.Parse()
	names := []string{"alphabet", "audit", "balance", "container", "neofs", "neofsid", "netmap", "nns", "processing", "proxy", "reputation"}
	bad := 0
	for _, n := range names {
		dir := filepath.Join(siml.RepoDir(), "contracts", n)
		a := siml.CompileContract(n)
		oldNef, _ := os.ReadFile(filepath.Join(dir, "contract.nef"))
		oldMan, _ := os.ReadFile(filepath.Join(dir, "manifest.json"))
		nefEq, manEq := bytes.Equal(oldNef, a.NEFBytes), bytes.Equal(oldMan, a.ManBytes)
		fmt.Printf("%-11s nef_equal=%v manifest_equal=%v\n", n, nefEq, manEq)
		if !nefEq || !manEq {
			bad++
		}
		if *write == n {
			if err := os.WriteFile(filepath.Join(dir, "contract.nef"), a.NEFBytes, 0o644); err != nil {
				panic(err)
			}
			if err := os.WriteFile(filepath.Join(dir, "manifest.json"), a.ManBytes, 0o644); err != nil {
				panic(err)
			}
			fmt.Println("rewritten", n)
		}
	}
	if bad > 0 && *write == "" {
		os.Exit(1)
	}
}
