// oldart writes, for every FS-chain contract, a build of the working tree whose
// only change is a version constant one lower (common/version.go) into
// <out>/<name>/{contract.nef,manifest.json}. Simulator D deploys these first
// and then lets deploy.Deploy upgrade them to the shipped executables.
package main

import (
	"flag"
	"fmt"
	"os"
	"path/filepath"

	siml "simL"
)

func main() {
	out := flag.String("o", "", "output directory")
	flag.Parse()
	if *out == "" {
		fmt.Fprintln(os.Stderr, "usage: oldart -o <dir>")
		os.Exit(2)
	}
	defer siml.RemoveScratch()
	cur, _ := siml.TreeVersions()
	for _, n := range []string{"nns", "proxy", "audit", "netmap", "balance", "reputation", "neofsid", "container", "alphabet"} {
		a := siml.VariantBuild(n, cur-1, -1)
		d := filepath.Join(*out, n)
		if err := os.MkdirAll(d, 0o755); err != nil {
			panic(err)
		}
		if err := os.WriteFile(filepath.Join(d, "contract.nef"), a.NEFBytes, 0o644); err != nil {
			panic(err)
		}
		if err := os.WriteFile(filepath.Join(d, "manifest.json"), a.ManBytes, 0o644); err != nil {
			panic(err)
		}
	}
	fmt.Println("old-version artifacts (version", cur-1, ") written to", *out)
}
