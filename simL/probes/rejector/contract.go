// Package rejector is a simulator probe: a deployed contract that refuses
// every token payment announced to it (its callbacks throw, which a caller may
// catch). To a token contract that keeps balances per address and does not
// announce payments it is an address like any other.
package rejector

import (
	"github.com/nspcc-dev/neo-go/pkg/interop"
)

// OnNEP17Payment refuses everything.
func OnNEP17Payment(from interop.Hash160, amount int, data any) {
	panic("rejector: payment refused")
}

// OnNEP11Payment refuses everything.
func OnNEP11Payment(from interop.Hash160, amount int, token []byte, data any) {
	panic("rejector: token refused")
}
