// Package holder is a simulator probe: a contract that can hold NEOFS balance
// and call Balance.transfer on its own behalf ("the account is the contract
// making the call"), or on somebody else's.
package holder

import (
	"github.com/nspcc-dev/neo-go/pkg/interop"
	"github.com/nspcc-dev/neo-go/pkg/interop/contract"
)

// Move calls transfer(from, to, amount, nil) of the given NEP-17 contract and
// returns its result.
func Move(token interop.Hash160, from, to interop.Hash160, amount int) bool {
	return contract.Call(token, "transfer", contract.All, from, to, amount, nil).(bool)
}

// OnNEP17Payment accepts everything.
func OnNEP17Payment(from interop.Hash160, amount int, data any) {
}

// OnNEP11Payment accepts everything.
func OnNEP11Payment(from interop.Hash160, amount int, token []byte, data any) {
}
