// Package token is a simulator probe: a minimal NEP-17 token that is NOT GAS
// and NOT NEO. It is used to offer foreign payments to the governance
// contracts (C19): `transfer` to a deployed contract calls the receiver's
// onNEP17Payment exactly as a native token does, so the only thing the
// receiver can tell it from GAS by is the calling script hash.
package token

import (
	"github.com/nspcc-dev/neo-go/pkg/interop"
	"github.com/nspcc-dev/neo-go/pkg/interop/contract"
	"github.com/nspcc-dev/neo-go/pkg/interop/native/management"
	"github.com/nspcc-dev/neo-go/pkg/interop/runtime"
	"github.com/nspcc-dev/neo-go/pkg/interop/storage"
)

const supplyKey = "s"

func balanceKey(acc interop.Hash160) []byte {
	return append([]byte("b"), acc...)
}

func getInt(ctx storage.Context, key []byte) int {
	v := storage.Get(ctx, key)
	if v == nil {
		return 0
	}
	return v.(int)
}

// Symbol is the NEP-17 symbol.
func Symbol() string { return "PRB" }

// Decimals is the NEP-17 precision.
func Decimals() int { return 8 }

// TotalSupply is the NEP-17 total supply.
func TotalSupply() int {
	return getInt(storage.GetReadOnlyContext(), []byte(supplyKey))
}

// BalanceOf is the NEP-17 balance.
func BalanceOf(account interop.Hash160) int {
	return getInt(storage.GetReadOnlyContext(), balanceKey(account))
}

// Mint creates tokens for anybody who asks (it is a probe).
func Mint(to interop.Hash160, amount int) {
	if len(to) != interop.Hash160Len || amount < 0 {
		panic("bad mint")
	}
	ctx := storage.GetContext()
	storage.Put(ctx, balanceKey(to), getInt(ctx, balanceKey(to))+amount)
	storage.Put(ctx, []byte(supplyKey), getInt(ctx, []byte(supplyKey))+amount)
	var nobody interop.Hash160
	runtime.Notify("Transfer", nobody, to, amount)
}

// Transfer is the NEP-17 transfer: witness of `from`, funds, Transfer
// notification, then onNEP17Payment of a receiving contract.
func Transfer(from, to interop.Hash160, amount int, data any) bool {
	if len(from) != interop.Hash160Len || len(to) != interop.Hash160Len || amount < 0 {
		panic("bad transfer")
	}
	if !runtime.CheckWitness(from) {
		return false
	}
	ctx := storage.GetContext()
	have := getInt(ctx, balanceKey(from))
	if have < amount {
		return false
	}
	storage.Put(ctx, balanceKey(from), have-amount)
	storage.Put(ctx, balanceKey(to), getInt(ctx, balanceKey(to))+amount)
	runtime.Notify("Transfer", from, to, amount)
	if management.GetContract(to) != nil {
		contract.Call(to, "onNEP17Payment", contract.All, from, amount, data)
	}
	return true
}
