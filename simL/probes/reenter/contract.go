// Package reenter is a simulator probe: a GAS receiver that, once armed, calls
// the paying contract's cheque method again (same id, itself as receiver, same
// amount) from inside the payment callback — once.
package reenter

import (
	"github.com/nspcc-dev/neo-go/pkg/interop"
	"github.com/nspcc-dev/neo-go/pkg/interop/contract"
	"github.com/nspcc-dev/neo-go/pkg/interop/runtime"
	"github.com/nspcc-dev/neo-go/pkg/interop/storage"
)

// Arm stores what the next payment callback asks for.
func Arm(neofs interop.Hash160, id []byte, amount int, lock interop.Hash160) {
	ctx := storage.GetContext()
	storage.Put(ctx, "neofs", neofs)
	storage.Put(ctx, "id", id)
	storage.Put(ctx, "amount", amount)
	storage.Put(ctx, "lock", lock)
}

// OnNEP17Payment asks for the same cheque again, once.
func OnNEP17Payment(from interop.Hash160, amount int, data any) {
	ctx := storage.GetContext()
	h := storage.Get(ctx, "neofs")
	if h == nil {
		return
	}
	storage.Delete(ctx, "neofs")
	contract.Call(h.(interop.Hash160), "cheque", contract.All,
		storage.Get(ctx, "id").([]byte), runtime.GetExecutingScriptHash(),
		storage.Get(ctx, "amount").(int), storage.Get(ctx, "lock").(interop.Hash160))
}
