// Package nmsub is a simulator probe: a NewEpoch subscriber of the Netmap
// contract. Every call is announced by a "called"(epoch) notification and
// counted in storage; RefuseEpoch arms a refusal (panic) for one specific
// epoch number.
package nmsub

import (
	"github.com/nspcc-dev/neo-go/pkg/interop"
	"github.com/nspcc-dev/neo-go/pkg/interop/contract"
	"github.com/nspcc-dev/neo-go/pkg/interop/iterator"
	"github.com/nspcc-dev/neo-go/pkg/interop/native/std"
	"github.com/nspcc-dev/neo-go/pkg/interop/runtime"
	"github.com/nspcc-dev/neo-go/pkg/interop/storage"
)

const (
	refuseKey = "refuse"
	callsKey  = "calls"
	lastKey   = "last"
)

// NewEpoch is the subscriber callback.
func NewEpoch(e int) {
	ctx := storage.GetContext()
	r := storage.Get(ctx, refuseKey)
	if r != nil && r.(int) == e {
		panic("probe subscriber refuses this epoch")
	}
	n := 0
	c := storage.Get(ctx, callsKey)
	if c != nil {
		n = c.(int)
	}
	storage.Put(ctx, callsKey, n+1)
	storage.Put(ctx, lastKey, e)
	runtime.Notify("called", e)
}

// RefuseEpoch makes NewEpoch(e) panic from now on (one epoch at a time; a new
// call replaces the previous value).
func RefuseEpoch(e int) {
	storage.Put(storage.GetContext(), refuseKey, e)
}

// Calls returns how many NewEpoch calls took effect.
func Calls() int {
	c := storage.Get(storage.GetReadOnlyContext(), callsKey)
	if c == nil {
		return 0
	}
	return c.(int)
}

// Last returns the argument of the last NewEpoch call that took effect.
func Last() int {
	c := storage.Get(storage.GetReadOnlyContext(), lastKey)
	if c == nil {
		return -1
	}
	return c.(int)
}

// Observe records what the Netmap contract answers for its two candidate lists
// at this very point of the block (slot numbers are the simulator's): the only
// way to see the candidate set a tick later in the same block publishes.
func Observe(netmap interop.Hash160, slot int) {
	ctx := storage.GetContext()
	leg := contract.Call(netmap, "netmapCandidates", contract.ReadOnly)
	storage.Put(ctx, append([]byte("obsL"), std.Serialize(slot)...), std.Serialize(leg))
	it := contract.Call(netmap, "listCandidates", contract.ReadOnly).(iterator.Iterator)
	var l []any
	for iterator.Next(it) {
		l = append(l, iterator.Value(it))
	}
	storage.Put(ctx, append([]byte("obsS"), std.Serialize(slot)...), std.Serialize(l))
}

// ObservedLegacy returns the legacy candidate list recorded under slot.
func ObservedLegacy(slot int) any {
	v := storage.Get(storage.GetReadOnlyContext(), append([]byte("obsL"), std.Serialize(slot)...))
	if v == nil {
		return nil
	}
	return std.Deserialize(v.([]byte))
}

// ObservedStructured returns the structured candidate list recorded under slot.
func ObservedStructured(slot int) any {
	v := storage.Get(storage.GetReadOnlyContext(), append([]byte("obsS"), std.Serialize(slot)...))
	if v == nil {
		return nil
	}
	return std.Deserialize(v.([]byte))
}
