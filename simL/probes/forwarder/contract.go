// Package forwarder is a simulator probe: a registrar contract that registers
// an NNS name for itself and, from inside the payment callback announcing the
// new token, hands the name on to the account it was told to serve (a call
// back into the token contract while that one is still in its own method).
package forwarder

import (
	"github.com/nspcc-dev/neo-go/pkg/interop"
	"github.com/nspcc-dev/neo-go/pkg/interop/contract"
	"github.com/nspcc-dev/neo-go/pkg/interop/runtime"
	"github.com/nspcc-dev/neo-go/pkg/interop/storage"
)

// Register registers name in nns for this contract and forwards it to target.
func Register(nns interop.Hash160, name string, target interop.Hash160) bool {
	ctx := storage.GetContext()
	storage.Put(ctx, "target", target)
	return contract.Call(nns, "register", contract.All, name, runtime.GetExecutingScriptHash(),
		"fwd@verif.io", 3600, 600, 365*24*3600, 3600).(bool)
}

// OnNEP11Payment hands the received token on, once.
func OnNEP11Payment(from interop.Hash160, amount int, token []byte, data any) {
	ctx := storage.GetContext()
	t := storage.Get(ctx, "target")
	if t == nil {
		return
	}
	storage.Delete(ctx, "target")
	if !contract.Call(runtime.GetCallingScriptHash(), "transfer", contract.All, t.(interop.Hash160), token, nil).(bool) {
		panic("forwarder: transfer refused")
	}
}
