// Package nnsresolver is a simulator probe: a contract that looks another
// contract up the way every NeoFS contract does, through
// common.ResolveFSContract (NNS by ID 1, "<name>.neofs", TXT, first record).
package nnsresolver

import (
	"github.com/nspcc-dev/neo-go/pkg/interop"
	"github.com/nspcc-dev/neofs-contract/common"
)

// Resolve returns common.ResolveFSContract(name).
func Resolve(name string) interop.Hash160 {
	return common.ResolveFSContract(name)
}
