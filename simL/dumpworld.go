package siml

import (
	"encoding/base64"
	"encoding/binary"
	"encoding/csv"
	"encoding/json"
	"io"
	"os"
	"sort"

	"github.com/nspcc-dev/neo-go/pkg/config"
	"github.com/nspcc-dev/neo-go/pkg/core/dao"
	"github.com/nspcc-dev/neo-go/pkg/core/native"
	"github.com/nspcc-dev/neo-go/pkg/core/state"
	"github.com/nspcc-dev/neo-go/pkg/core/storage"
	"github.com/nspcc-dev/neo-go/pkg/vm"
	"github.com/nspcc-dev/neo-go/pkg/vm/opcode"
)

// DumpContract is one contract of a recorded network dump.
type DumpContract struct {
	Name    string
	State   state.Contract
	Storage []KV
}

// Dump is a recorded network state (tests/dump format: <prefix>-contracts.json
// and <prefix>-storage.csv).
type Dump struct {
	Prefix    string
	Contracts []*DumpContract
}

var dumpCache = map[string]*Dump{}

// LoadDump parses a dump; cached per process.
func LoadDump(prefix string) *Dump {
	if d, ok := dumpCache[prefix]; ok {
		return d
	}
	raw, err := os.ReadFile(prefix + "-contracts.json")
	must(err)
	var states []struct {
		Name  string         `json:"name"`
		State state.Contract `json:"state"`
	}
	must(json.Unmarshal(raw, &states))
	d := &Dump{Prefix: prefix}
	by := map[string]*DumpContract{}
	for _, s := range states {
		dc := &DumpContract{Name: s.Name, State: s.State}
		d.Contracts = append(d.Contracts, dc)
		by[s.Name] = dc
	}
	f, err := os.Open(prefix + "-storage.csv")
	must(err)
	defer f.Close()
	rd := csv.NewReader(f)
	rd.FieldsPerRecord = 3
	for {
		rec, err := rd.Read()
		if err == io.EOF {
			break
		}
		must(err)
		k, err := base64.StdEncoding.DecodeString(rec[1])
		must(err)
		v, err := base64.StdEncoding.DecodeString(rec[2])
		must(err)
		dc := by[rec[0]]
		if dc == nil {
			harnessf("dump %s: storage of unknown contract %s", prefix, rec[0])
		}
		dc.Storage = append(dc.Storage, KV{K: k, V: v})
	}
	sort.Slice(d.Contracts, func(i, j int) bool { return d.Contracts[i].Name < d.Contracts[j].Name })
	dumpCache[prefix] = d
	return d
}

// NewDumpWorld builds a world whose store holds the dumped contracts (states
// and storages) before the chain starts; `mutate`, if given, may edit the
// storages first (seeded perturbations in the old layouts).
func NewDumpWorld(n int, label string, d *Dump, mutate func(name string, kvs []KV) []KV) *World {
	return NewDumpWorldPatched(n, label, d, mutate, nil)
}

// NewDumpWorldPatched is NewDumpWorld with a hook that may edit a dumped
// contract state (its executable) before it is stored.
func NewDumpWorldPatched(n int, label string, d *Dump, mutate func(name string, kvs []KV) []KV, patch func(name string, st *state.Contract)) *World {
	prep := func(low storage.Store) {
		cached := storage.NewMemCachedStore(low)
		_dao := dao.NewSimple(low, false)
		nat := native.NewContracts(config.ProtocolConfiguration{})
		must(nat.Management.InitializeCache(0, _dao))
		for _, c := range d.Contracts {
			st := c.State
			st.UpdateCounter = 0
			if patch != nil {
				patch(c.Name, &st)
			}
			must(native.PutContractState(_dao, &st))
			kvs := c.Storage
			if mutate != nil {
				kvs = mutate(c.Name, append([]KV(nil), kvs...))
			}
			for _, kv := range kvs {
				key := make([]byte, 5+len(kv.K))
				key[0] = byte(_dao.Version.StoragePrefix)
				binary.LittleEndian.PutUint32(key[1:], uint32(st.ID))
				copy(key[5:], kv.K)
				cached.Put(key, kv.V)
			}
		}
		_, err := _dao.PersistSync()
		must(err)
		_, err = cached.PersistSync()
		must(err)
	}
	w := NewWorld(WorldOpts{N: n, Label: label, Prepare: prep})
	for _, c := range d.Contracts {
		cs := w.BC.GetContractState(c.State.Hash)
		if cs == nil {
			harnessf("dumped contract %s is not visible on the restored chain", c.Name)
		}
		w.C[c.Name] = &Deployed{Name: c.Name, Hash: c.State.Hash, ID: c.State.ID, Manifest: &cs.Manifest}
	}
	return w
}

// PatchVersionConstant rewrites every PUSHINT16 `from` of a script into
// PUSHINT16 `to` (instruction lengths and jump offsets stay as they are) and
// returns how many were rewritten. Used to make a recorded old executable
// report — and hand to _deploy on update — another supported version number.
func PatchVersionConstant(script []byte, from, to int64) ([]byte, int) {
	if from < 0 || from > 32767 || to < 0 || to > 32767 {
		return script, 0
	}
	out := append([]byte(nil), script...)
	c := vm.NewContext(script)
	n := 0
	for c.NextIP() < len(script) {
		ip := c.NextIP()
		op, prm, err := c.Next()
		if err != nil {
			return script, 0
		}
		if op == opcode.PUSHINT16 && len(prm) == 2 && int64(int16(binary.LittleEndian.Uint16(prm))) == from {
			binary.LittleEndian.PutUint16(out[ip+1:], uint16(to))
			n++
		}
	}
	return out, n
}
