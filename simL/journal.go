package siml

// Journal: when RecordJournal is set every world records the blocks it is fed
// (scripts, signer specifications, fees, Δt, deployments) together with a
// normalised observation of what each block did. ReplayJournal feeds the same
// history to a second world whose contracts come from another source (the
// embedded artifacts) and reports the first divergence. Used by C15.

import (
	"bytes"
	"crypto/sha256"
	"encoding/hex"
	"fmt"
	"regexp"
	"sort"
	"strings"

	"github.com/nspcc-dev/neo-go/pkg/core/state"
	"github.com/nspcc-dev/neo-go/pkg/core/transaction"
	"github.com/nspcc-dev/neo-go/pkg/util"
	"github.com/nspcc-dev/neo-go/pkg/vm/stackitem"
	"github.com/nspcc-dev/neo-go/pkg/vm/vmstate"
)

// RecordJournal switches recording on for worlds created afterwards.
var RecordJournal bool

// JDeploy marks a transaction as the deployment of an artifact.
type JDeploy struct {
	Key  string
	Art  *Artifact
	Data any
}

// JTx is one recorded transaction.
type JTx struct {
	Script  []byte
	Signers []Signer
	SysFee  int64
	NetFee  int64
	Nonce   uint32
	Hash    util.Uint256
	Deploy  *JDeploy
}

// JBlock is one recorded block with the observation of its effects.
type JBlock struct {
	Dt  uint64
	Txs []*JTx
	Obs []string
}

type hashPair struct{ from, to []byte }

func pairs160(from, to util.Uint160) []hashPair {
	if from == to {
		return nil
	}
	return []hashPair{{from.BytesBE(), to.BytesBE()}, {from.BytesLE(), to.BytesLE()},
		{[]byte(from.StringLE()), []byte(to.StringLE())}, {[]byte(from.StringBE()), []byte(to.StringBE())}}
}

func pairs256(from, to util.Uint256) []hashPair {
	if from == to {
		return nil
	}
	return []hashPair{{from.BytesBE(), to.BytesBE()}, {from.BytesLE(), to.BytesLE()},
		{[]byte(from.StringLE()), []byte(to.StringLE())}, {[]byte(from.StringBE()), []byte(to.StringBE())}}
}

// substHashes rewrites every occurrence of a contract or transaction hash (raw
// big- and little-endian bytes, and both hex spellings) according to pairs.
func substHashes(b []byte, pairs []hashPair) []byte {
	for _, p := range pairs {
		b = bytes.ReplaceAll(b, p.from, p.to)
	}
	return b
}

var reInstr = regexp.MustCompile(`at instruction \d+ \([A-Z0-9_]+\): `)

func itemRepr(sb *strings.Builder, it stackitem.Item, depth int) {
	if depth > 12 {
		sb.WriteString("…")
		return
	}
	switch v := it.(type) {
	case stackitem.Null:
		sb.WriteString("null")
	case *stackitem.Array, *stackitem.Struct:
		sb.WriteString("[")
		for _, e := range it.Value().([]stackitem.Item) {
			itemRepr(sb, e, depth+1)
			sb.WriteString(",")
		}
		sb.WriteString("]")
	case *stackitem.Map:
		sb.WriteString("{")
		for _, e := range v.Value().([]stackitem.MapElement) {
			itemRepr(sb, e.Key, depth+1)
			sb.WriteString(":")
			itemRepr(sb, e.Value, depth+1)
			sb.WriteString(",")
		}
		sb.WriteString("}")
	case *stackitem.Interop:
		sb.WriteString("interop")
	case *stackitem.Pointer:
		sb.WriteString("pointer")
	default:
		b, err := it.TryBytes()
		if err != nil {
			sb.WriteString(it.Type().String())
			return
		}
		fmt.Fprintf(sb, "%s:%x", it.Type(), b)
	}
}

// observe describes what a block did: per transaction the VM state, the fault
// text (instruction offsets removed), the stack, the notifications and the GAS
// consumed; then a digest of every deployed contract's storage. Contract
// hashes are rewritten by `norm` so that two worlds are comparable.
func (w *World) observe(aers []*state.AppExecResult, deploys []bool, norm []hashPair) []string {
	var out []string
	for i, aer := range aers {
		var sb strings.Builder
		if i < len(deploys) && deploys[i] {
			// a deployment returns the executable itself and is charged by its
			// size: a difference in bytes alone is not a behavioural difference
			out = append(out, fmt.Sprintf("tx%d deploy %s fault=%q", i, aer.VMState, reInstr.ReplaceAllString(aer.FaultException, "")))
			continue
		}
		fmt.Fprintf(&sb, "tx%d %s gas=%d fault=%q stack=", i, aer.VMState, aer.GasConsumed, reInstr.ReplaceAllString(aer.FaultException, ""))
		for _, it := range aer.Stack {
			itemRepr(&sb, it, 0)
			sb.WriteString(";")
		}
		if aer.VMState == vmstate.Halt {
			for _, ev := range aer.Events {
				fmt.Fprintf(&sb, " ev(%s,%s,", ev.ScriptHash.StringLE(), ev.Name)
				itemRepr(&sb, ev.Item, 0)
				sb.WriteString(")")
			}
		}
		out = append(out, string(substHashes([]byte(sb.String()), norm)))
	}
	keys := make([]string, 0, len(w.C))
	for k := range w.C {
		keys = append(keys, k)
	}
	sort.Strings(keys)
	for _, k := range keys {
		h := sha256.New()
		for _, kv := range w.Scan(w.C[k].ID, nil) {
			fmt.Fprintf(h, "%d:%d:", len(kv.K), len(kv.V))
			h.Write(substHashes(kv.K, norm))
			h.Write(substHashes(kv.V, norm))
		}
		out = append(out, "storage "+k+" "+hex.EncodeToString(h.Sum(nil)[:10]))
	}
	return out
}

// ReplayJournal feeds src's recorded history to a fresh world in which every
// repository contract is replaced by alt(name) (probe contracts stay as they
// are). It returns the new world and a description of the first divergence
// ("" if the two executions agree observation by observation).
func ReplayJournal(src *World, alt func(name string) *Artifact) (*World, string) {
	saved := RecordJournal
	RecordJournal = false
	defer func() { RecordJournal = saved }()
	w := newBareWorld(src.Opts)
	var s2e, e2s []hashPair
	for bi, jb := range src.Journal {
		txs := make([]*transaction.Transaction, len(jb.Txs))
		var deployed []*JTx
		for i, jt := range jb.Txs {
			script := jt.Script
			if jt.Deploy != nil {
				a := jt.Deploy.Art
				if !a.Probe {
					a = alt(a.Name)
				}
				script = CallScript(w.Mgmt, "deploy", a.NEFBytes, a.ManBytes, jt.Deploy.Data)
				deployed = append(deployed, &JTx{Deploy: &JDeploy{Key: jt.Deploy.Key, Art: a}})
			}
			script = substHashes(script, s2e)
			txs[i] = w.rawTxNonce(script, jt.Signers, jt.SysFee, jt.NetFee, jt.Nonce)
			e2s = append(e2s, pairs256(txs[i].Hash(), jt.Hash)...)
		}
		aers := w.AddBlock(txs, jb.Dt)
		di := 0
		for i, jt := range jb.Txs {
			if jt.Deploy == nil {
				continue
			}
			a := deployed[di].Deploy.Art
			di++
			if aers[i].VMState != vmstate.Halt {
				continue
			}
			h := state.CreateContractHash(txs[i].Sender(), a.NEF.Checksum, a.Manifest.Name)
			cs := w.BC.GetContractState(h)
			if cs == nil {
				return w, fmt.Sprintf("block %d: contract %s deployed in the first world is missing in the second", bi, jt.Deploy.Key)
			}
			w.C[jt.Deploy.Key] = &Deployed{Name: jt.Deploy.Key, Hash: h, ID: cs.ID, Manifest: &cs.Manifest}
			if sd := src.C[jt.Deploy.Key]; sd != nil {
				s2e = append(s2e, pairs160(sd.Hash, h)...)
				e2s = append(e2s, pairs160(h, sd.Hash)...)
			}
		}
		dep := make([]bool, len(jb.Txs))
		for i, jt := range jb.Txs {
			dep[i] = jt.Deploy != nil
		}
		obs := w.observe(aers, dep, e2s)
		if len(obs) != len(jb.Obs) {
			return w, fmt.Sprintf("block %d: %d observations vs %d", bi, len(jb.Obs), len(obs))
		}
		for i := range obs {
			if obs[i] != jb.Obs[i] {
				return w, fmt.Sprintf("block %d: first world: %s | second world: %s", bi, clipStr(jb.Obs[i], 600), clipStr(obs[i], 600))
			}
		}
	}
	return w, ""
}
