package siml

// C15, bindings part (conformance driving, no schedule dimension): every method
// of every generated rpc/* binding is called through a recording actor on the
// populated world an engine's history left behind. The call the binding makes
// must name a method that exists in the manifest compiled from the working
// tree with that arity, and whenever the contract HALTs the binding's decoder
// must accept the result.

import (
	"bytes"
	"fmt"
	"github.com/nspcc-dev/neo-go/pkg/encoding/bigint"
	"math/big"
	"os"
	"path/filepath"
	"reflect"
	"regexp"
	"sort"
	"strings"

	"github.com/google/uuid"
	"github.com/nspcc-dev/neo-go/pkg/core/transaction"
	"github.com/nspcc-dev/neo-go/pkg/crypto/keys"
	"github.com/nspcc-dev/neo-go/pkg/neorpc/result"
	"github.com/nspcc-dev/neo-go/pkg/smartcontract"
	"github.com/nspcc-dev/neo-go/pkg/smartcontract/manifest"
	"github.com/nspcc-dev/neo-go/pkg/util"
	"github.com/nspcc-dev/neo-go/pkg/vm/stackitem"
	"github.com/nspcc-dev/neo-go/pkg/vm/vmstate"
	rpcalphabet "github.com/nspcc-dev/neofs-contract/rpc/alphabet"
	rpcaudit "github.com/nspcc-dev/neofs-contract/rpc/audit"
	rpcbalance "github.com/nspcc-dev/neofs-contract/rpc/balance"
	rpccontainer "github.com/nspcc-dev/neofs-contract/rpc/container"
	rpcneofs "github.com/nspcc-dev/neofs-contract/rpc/neofs"
	rpcneofsid "github.com/nspcc-dev/neofs-contract/rpc/neofsid"
	rpcnetmap "github.com/nspcc-dev/neofs-contract/rpc/netmap"
	rpcnns "github.com/nspcc-dev/neofs-contract/rpc/nns"
	rpcprocessing "github.com/nspcc-dev/neofs-contract/rpc/processing"
	rpcproxy "github.com/nspcc-dev/neofs-contract/rpc/proxy"
	rpcreputation "github.com/nspcc-dev/neofs-contract/rpc/reputation"
)

type bindCall struct {
	kind   string // call, expand, make, send, run (a script the binding built itself)
	script []byte
	method string
	nargs  int
	params []any
	halted bool
	null   bool // HALTed with Null on top of the stack
	fault  string
	item   stackitem.Item // HALTed with exactly one item: that item
}

// bindActor implements every Invoker/Actor interface of the rpc packages.
type bindActor struct {
	w     *World
	calls []bindCall
	iters map[uuid.UUID][]stackitem.Item
	seq   int
}

func (a *bindActor) run(kind string, c util.Uint160, op string, params ...any) (*result.Invoke, error) {
	script := CallScript(c, op, params...)
	p := a.w.WhatIf(script, nil, 0)
	bc := bindCall{kind: kind, method: op, nargs: len(params), params: params, halted: p.State == vmstate.Halt, fault: p.Fault, null: topIsNull(p)}
	a.calls = append(a.calls, bc)
	res := &result.Invoke{State: p.State.String(), GasConsumed: p.GAS, Script: script, Stack: p.Stack, FaultException: p.Fault}
	return res, nil
}

func topIsNull(p *Probe) bool {
	if p.State != vmstate.Halt || len(p.Stack) == 0 {
		return false
	}
	_, ok := p.Stack[len(p.Stack)-1].(stackitem.Null)
	return ok
}

func (a *bindActor) Call(c util.Uint160, op string, params ...any) (*result.Invoke, error) {
	// iterators are handed out the way an RPC server with sessions does
	script := CallScript(c, op, params...)
	p := a.w.whatIfRaw(script)
	bc := bindCall{kind: "call", method: op, nargs: len(params), params: params, halted: p.State == vmstate.Halt, fault: p.Fault, null: topIsNull(p)}
	iters := 0
	for _, it := range p.RawIters {
		if it != nil {
			iters++
		}
	}
	if bc.halted && len(p.Stack) == 1 && iters == 0 {
		bc.item = p.Stack[0]
	}
	a.calls = append(a.calls, bc)
	res := &result.Invoke{State: p.State.String(), GasConsumed: p.GAS, Script: script, Stack: p.Stack, FaultException: p.Fault}
	for i, it := range p.RawIters {
		if it == nil {
			continue
		}
		a.seq++
		var sid, iid uuid.UUID
		copy(sid[:], fmt.Sprintf("sess%012d", a.seq))
		copy(iid[:], fmt.Sprintf("iter%012d", a.seq))
		res.Session = sid
		a.iters[iid] = it
		idc := iid
		res.Stack[i] = stackitem.NewInterop(result.Iterator{ID: &idc})
	}
	return res, nil
}

func (a *bindActor) CallAndExpandIterator(c util.Uint160, m string, maxItems int, params ...any) (*result.Invoke, error) {
	return a.run("expand", c, m, params...)
}

func (a *bindActor) TerminateSession(uuid.UUID) error { return nil }

func (a *bindActor) TraverseIterator(_ uuid.UUID, it *result.Iterator, num int) ([]stackitem.Item, error) {
	if it.ID == nil {
		return it.Values, nil
	}
	vals := a.iters[*it.ID]
	if num < len(vals) {
		a.iters[*it.ID] = vals[num:]
		return vals[:num], nil
	}
	a.iters[*it.ID] = nil
	return vals, nil
}

func (a *bindActor) rec(kind, method string, params []any) {
	a.calls = append(a.calls, bindCall{kind: kind, method: method, nargs: len(params), params: params})
}

func (a *bindActor) MakeCall(c util.Uint160, m string, params ...any) (*transaction.Transaction, error) {
	a.rec("make", m, params)
	return transaction.New([]byte{0x40}, 0), nil
}
func (a *bindActor) MakeRun(script []byte) (*transaction.Transaction, error) {
	a.calls = append(a.calls, bindCall{kind: "run", script: script})
	return transaction.New(script, 0), nil
}
func (a *bindActor) MakeUnsignedCall(c util.Uint160, m string, _ []transaction.Attribute, params ...any) (*transaction.Transaction, error) {
	a.rec("make", m, params)
	return transaction.New([]byte{0x40}, 0), nil
}
func (a *bindActor) MakeUnsignedRun(script []byte, _ []transaction.Attribute) (*transaction.Transaction, error) {
	a.calls = append(a.calls, bindCall{kind: "run", script: script})
	return transaction.New(script, 0), nil
}
func (a *bindActor) SendCall(c util.Uint160, m string, params ...any) (util.Uint256, uint32, error) {
	a.rec("send", m, params)
	return util.Uint256{}, 0, nil
}
func (a *bindActor) SendRun(script []byte) (util.Uint256, uint32, error) {
	a.calls = append(a.calls, bindCall{kind: "run", script: script})
	return util.Uint256{}, 0, nil
}
func (a *bindActor) Sender() util.Uint160 { return a.w.Payer.Hash }

var bindCtors = map[string]func(a *bindActor, h util.Uint160) any{
	"alphabet":   func(a *bindActor, h util.Uint160) any { return rpcalphabet.New(a, h) },
	"audit":      func(a *bindActor, h util.Uint160) any { return rpcaudit.New(a, h) },
	"balance":    func(a *bindActor, h util.Uint160) any { return rpcbalance.New(a, h) },
	"container":  func(a *bindActor, h util.Uint160) any { return rpccontainer.New(a, h) },
	"neofs":      func(a *bindActor, h util.Uint160) any { return rpcneofs.New(a, h) },
	"neofsid":    func(a *bindActor, h util.Uint160) any { return rpcneofsid.New(a, h) },
	"netmap":     func(a *bindActor, h util.Uint160) any { return rpcnetmap.New(a, h) },
	"nns":        func(a *bindActor, h util.Uint160) any { return rpcnns.New(a, h) },
	"processing": func(a *bindActor, h util.Uint160) any { return rpcprocessing.New(a, h) },
	"proxy":      func(a *bindActor, h util.Uint160) any { return rpcproxy.New(a, h) },
	"reputation": func(a *bindActor, h util.Uint160) any { return rpcreputation.New(a, h) },
}

// candidate argument values by Go type, harvested from the world's storage
type bindPools struct {
	bytes [][]byte
	h160  []util.Uint160
	h256  []util.Uint256
	strs  []string
	keys  []*keys.PublicKey
	ints  []*big.Int
	// what earlier calls returned: ids handed out by one method are what the
	// next one wants to be asked about
	freshB [][]byte
	freshI []*big.Int
	// deep: in some runs every reader is asked about every fresh value (newest
	// first) until three calls HALTed with something in the answer — ids handed
	// out late by a lister reach the getter that wants them, and a getter sees
	// more than the first (often empty or one-element) answer
	deep bool
}

// feed adds the leaves of a result to the pools of fresh values.
func (p *bindPools) feed(it stackitem.Item) {
	var l []bindLeaf
	if !itemLeaves(it, &l) {
		return
	}
	for _, x := range l {
		if len(x.b) == 0 || len(x.b) > 80 {
			continue
		}
		dup := false
		for _, y := range p.freshB {
			if bytes.Equal(x.b, y) {
				dup = true
			}
		}
		if dup {
			continue
		}
		p.freshB = append(p.freshB, x.b)
		if len(x.b) <= 8 {
			p.freshI = append(p.freshI, bigint.FromBytes(x.b))
		}
	}
	// the newest answers are what the next method wants: the oldest go
	if n := len(p.freshB); n > 110 {
		p.freshB = append([][]byte(nil), p.freshB[n-110:]...)
	}
	if n := len(p.freshI); n > 40 {
		p.freshI = append([]*big.Int(nil), p.freshI[n-40:]...)
	}
}

func harvest(w *World, d *Deployed) *bindPools {
	p := &bindPools{}
	seen := map[string]bool{}
	addB := func(b []byte) {
		if len(b) == 0 || len(b) > 80 || seen[string(b)] || len(p.bytes) > 60 {
			return
		}
		seen[string(b)] = true
		p.bytes = append(p.bytes, append([]byte{}, b...))
		switch len(b) {
		case 20:
			h, _ := util.Uint160DecodeBytesBE(b)
			p.h160 = append(p.h160, h)
		case 32:
			h, _ := util.Uint256DecodeBytesBE(b)
			p.h256 = append(p.h256, h)
		case 33:
			if k, err := keys.NewPublicKeyFromBytes(b, nil); err == nil {
				p.keys = append(p.keys, k)
			}
		}
		printable := true
		for _, c := range b {
			if c < 0x20 || c > 0x7e {
				printable = false
			}
		}
		if printable {
			p.strs = append(p.strs, string(b))
		}
	}
	for _, kv := range w.Scan(d.ID, nil) {
		k := kv.K
		addB(k)
		if len(k) > 1 {
			addB(k[1:])
		}
		for _, l := range []int{20, 25, 32, 33} {
			if len(k) > l {
				addB(k[len(k)-l:])
				addB(k[1 : 1+min(l, len(k)-1)])
			}
		}
		addB(kv.V)
	}
	p.bytes = append(p.bytes, []byte{}, []byte("x"))
	p.h160 = append(p.h160, w.Payer.Hash, w.Committee.Hash, d.Hash)
	p.h256 = append(p.h256, util.Uint256{1})
	p.strs = append(p.strs, "neofs", "netmap.neofs", "container", "a.b", "x")
	p.keys = append(p.keys, w.Pubs[0])
	if nm := w.C["netmap"]; nm != nil {
		// epoch-keyed stores are asked about the epochs that exist
		if it, err := w.readNoHook(nm.Hash, "epoch"); err == nil {
			if e, err := it.TryInteger(); err == nil && e.IsInt64() {
				for _, dlt := range []int64{0, -1, 1, -2, -3} {
					if v := e.Int64() + dlt; v >= 0 {
						p.ints = append(p.ints, big.NewInt(v))
					}
				}
			}
		}
	}
	for _, v := range []int64{0, 1, 2, 3, 16, 100} {
		p.ints = append(p.ints, big.NewInt(v))
	}
	return p
}

func (p *bindPools) value(t reflect.Type, try int) reflect.Value {
	pick := func(n int) int {
		if n == 0 {
			return 0
		}
		return try % n
	}
	switch t {
	case reflect.TypeOf(util.Uint160{}):
		return reflect.ValueOf(p.h160[pick(len(p.h160))])
	case reflect.TypeOf(util.Uint256{}):
		return reflect.ValueOf(p.h256[pick(len(p.h256))])
	case reflect.TypeOf((*big.Int)(nil)):
		if p.deep {
			// every value once: the newest answers first, then the pool
			if n := len(p.freshI); try < n {
				return reflect.ValueOf(p.freshI[n-1-try])
			}
			return reflect.ValueOf(p.ints[(try-len(p.freshI))%len(p.ints)])
		}
		if try%3 != 2 && len(p.freshI) > 0 {
			return reflect.ValueOf(p.freshI[(try/3+try%3)%len(p.freshI)])
		}
		return reflect.ValueOf(p.ints[pick(len(p.ints))])
	case reflect.TypeOf([]byte(nil)):
		if p.deep {
			if n := len(p.freshB); try < n {
				return reflect.ValueOf(p.freshB[n-1-try])
			}
			return reflect.ValueOf(p.bytes[(try-len(p.freshB))%len(p.bytes)])
		}
		if try%3 != 2 && len(p.freshB) > 0 {
			return reflect.ValueOf(p.freshB[(try/3+try%3)%len(p.freshB)])
		}
		return reflect.ValueOf(p.bytes[pick(len(p.bytes))])
	case reflect.TypeOf(""):
		return reflect.ValueOf(p.strs[pick(len(p.strs))])
	case reflect.TypeOf((*keys.PublicKey)(nil)):
		return reflect.ValueOf(p.keys[pick(len(p.keys))])
	case reflect.TypeOf(keys.PublicKeys(nil)):
		return reflect.ValueOf(keys.PublicKeys{p.keys[pick(len(p.keys))]})
	}
	switch t.Kind() {
	case reflect.Int:
		return reflect.ValueOf(10)
	case reflect.Bool:
		return reflect.ValueOf(try%2 == 1)
	case reflect.Ptr:
		return reflect.New(t.Elem())
	case reflect.Slice:
		return reflect.MakeSlice(t, 0, 0)
	}
	return reflect.Zero(t)
}

// bindScript judges a script a generated binding method built itself. The
// generator emits such scripts for state-changing methods that answer with a
// Boolean: the call followed by ASSERT, so that a refusal answered with
// `false` fails the transaction instead of being recorded as a success.
// Returns true when a violation was reported.
func bindScript(r *Run, w *World, d *Deployed, man *manifest.Manifest, goName string, script []byte, goArgs []reflect.Value) bool {
	params := make([]any, len(goArgs))
	for i, a := range goArgs {
		params[i] = a.Interface()
	}
	recognised := false
	for _, mm := range man.ABI.Methods {
		if len(mm.Parameters) != len(params) || mm.Safe {
			continue
		}
		plain, err := smartcontract.CreateCallScript(d.Hash, mm.Name, params...)
		if err != nil {
			continue
		}
		asserted, err := smartcontract.CreateCallWithAssertScript(d.Hash, mm.Name, params...)
		if err != nil {
			continue
		}
		switch {
		case bytes.Equal(script, asserted) && mm.ReturnType == smartcontract.BoolType:
			r.Cell("C15.bindings", d.Repo+"."+goName)
			r.Count("binding_scripts_compared")
			return false
		case bytes.Equal(script, plain) && mm.ReturnType == smartcontract.BoolType:
			r.Violation("C15/binding-ignores-refusal", "", "rpc/%s.%s invokes %s (answers with a Boolean) without asserting the answer: a refused call (false) becomes a successful transaction", d.Repo, goName, mm.Name)
			return true
		case bytes.Equal(script, plain) || bytes.Equal(script, asserted):
			recognised = true
		}
	}
	if recognised {
		r.Count("binding_scripts_compared")
		return false
	}
	// another script: judged by what it does. It must invoke a method of the
	// manifest compiled from the sources on this contract (seen in the what-if
	// VM's invocation tree is more than this pass has: the callee's answer
	// decides), so only "method not found" is a verdict here
	p := w.WhatIf(script, nil, 0)
	if p.State != vmstate.Halt && (strings.Contains(p.Fault, "method not found") || strings.Contains(p.Fault, "invalid number of parameters")) {
		r.Violation("C15/binding-calls-missing-method", "", "rpc/%s.%s builds a script that faults with: %s", d.Repo, goName, p.Fault)
		return true
	}
	r.Count("binding_script_not_recognised")
	return false
}

// emptyAnswer: nothing, an empty string or an empty list.
func emptyAnswer(it stackitem.Item) bool {
	if it == nil {
		return true
	}
	switch v := it.Value().(type) {
	case []stackitem.Item:
		return len(v) == 0
	case []byte:
		return len(v) == 0
	}
	return false
}

// nestedListLen: the length of the longest array found inside a struct/array
// result (0 for a flat result).
func nestedListLen(it stackitem.Item) int {
	arr, ok := it.Value().([]stackitem.Item)
	if !ok {
		return 0
	}
	best := 0
	for _, x := range arr {
		if in, ok := x.Value().([]stackitem.Item); ok {
			if _, isStruct := x.(*stackitem.Struct); !isStruct && len(in) > best {
				best = len(in)
			}
			if n := nestedListLen(x); n > best {
				best = n
			}
		}
	}
	return best
}

var genMethods = map[string]map[string]bool{}

var reGenMethod = regexp.MustCompile(`(?m)^func \(c \*Contract(?:Reader)?\) ([A-Za-z0-9_]+)\(`)

// generatedMethod tells whether rpc/<pkg>/rpcbinding.go (the generated file)
// defines the method.
func generatedMethod(pkg, name string) bool {
	set, ok := genMethods[pkg]
	if !ok {
		set = map[string]bool{}
		raw, err := os.ReadFile(filepath.Join(RepoDir(), "rpc", pkg, "rpcbinding.go"))
		must(err)
		for _, m := range reGenMethod.FindAllStringSubmatch(string(raw), -1) {
			set[m[1]] = true
		}
		genMethods[pkg] = set
	}
	return set[name]
}

// bindingsPass drives every binding method of every repository contract of w.
func bindingsPass(r *Run, w *World) {
	var keysSorted []string
	for k, d := range w.C {
		if d.Repo != "" {
			keysSorted = append(keysSorted, k)
		}
	}
	sort.Strings(keysSorted)
	deep := Chance(r.T, "deepBindings", 35)
	for _, k := range keysSorted {
		d := w.C[k]
		ctor := bindCtors[d.Repo]
		if ctor == nil {
			r.Violation("C15/binding-missing", "", "no rpc binding package for contract %s", d.Repo)
			continue
		}
		man := CompileContract(d.Repo).Manifest
		pools := harvest(w, d)
		a := &bindActor{w: w, iters: map[uuid.UUID][]stackitem.Item{}}
		obj := reflect.ValueOf(ctor(a, d.Hash))
		typ := obj.Type()
		// twice: the second pass asks with what the first one was given
		for pass := 0; pass < 2; pass++ {
			pools.deep = deep
			for i := 0; i < typ.NumMethod(); i++ {
				m := typ.Method(i)
				bindOne(r, a, obj, m, d, man, pools)
			}
		}
	}
}

func bindOne(r *Run, a *bindActor, obj reflect.Value, m reflect.Method, d *Deployed, man *manifest.Manifest, pools *bindPools) {
	mt := m.Type
	isReader := true
	tries := 12
	halts, wantHalts := 0, 1
	if pools.deep && mt.NumIn() > 1 {
		tries = min(12+max(len(pools.freshB), len(pools.freshI)), 124)
		wantHalts = 3
	}
	for try := 0; try < tries && halts < wantHalts; try++ {
		args := []reflect.Value{obj}
		for j := 1; j < mt.NumIn(); j++ {
			if mt.IsVariadic() && j == mt.NumIn()-1 {
				continue
			}
			if pools.deep {
				// the first argument sweeps, the others step slowly
				if j == 1 {
					args = append(args, pools.value(mt.In(j), try))
				} else {
					args = append(args, pools.value(mt.In(j), try/4+j))
				}
				continue
			}
			args = append(args, pools.value(mt.In(j), try+j*7))
		}
		a.calls = a.calls[:0]
		var outs []reflect.Value
		panicked := ""
		func() {
			defer func() {
				if x := recover(); x != nil {
					if he, ok := x.(HarnessError); ok {
						// argument the script builder cannot emit: not a conformance matter
						panicked = he.Msg
						return
					}
					panicked = fmt.Sprint(x)
				}
			}()
			outs = m.Func.Call(args)
		}()
		if panicked != "" {
			r.Count("binding_calls_skipped_unemittable_argument")
			continue
		}
		var err error
		if n := len(outs); n > 0 {
			if e, ok := outs[n-1].Interface().(error); ok {
				err = e
			}
		}
		for _, c := range a.calls {
			if c.kind == "make" || c.kind == "send" || c.kind == "run" {
				isReader = false
			}
			if c.kind == "run" {
				if generatedMethod(d.Repo, m.Name) && len(a.calls) == 1 {
					if bindScript(r, a.w, d, man, m.Name, c.script, args[1:]) {
						return
					}
				}
				continue
			}
			// every Go argument of the binding method must be forwarded, in order
			// (an overloaded contract method would otherwise silently be hit with
			// fewer arguments); `…Expanded` methods carry one extra item count
			want := len(args) - 1
			if strings.HasSuffix(m.Name, "Expanded") {
				want--
			}
			if !generatedMethod(d.Repo, m.Name) {
				want = -1 // hand-written helper next to the generated code: name/arity only
			}
			if want >= 0 && c.nargs != want && len(a.calls) == 1 {
				r.Violation("C15/binding-drops-or-adds-arguments", "", "rpc/%s.%s takes %d arguments but invokes %s with %d", d.Repo, m.Name, want, c.method, c.nargs)
				return
			}
			if c.nargs == want && len(a.calls) == 1 {
				for k := 0; k < want; k++ {
					gv := args[k+1].Interface()
					if reflect.TypeOf(gv) == reflect.TypeOf(c.params[k]) && !reflect.DeepEqual(gv, c.params[k]) {
						r.Violation("C15/binding-passes-wrong-argument", "", "rpc/%s.%s: argument %d is not forwarded as given when invoking %s", d.Repo, m.Name, k, c.method)
						return
					}
				}
			}
			if man.ABI.GetMethod(c.method, c.nargs) == nil {
				r.Violation("C15/binding-calls-missing-method", "", "rpc/%s.%s invokes %s with %d arguments: no such method in the manifest compiled from the sources", d.Repo, m.Name, c.method, c.nargs)
				return
			}
			r.Cell("C15.bindings", d.Repo+"."+m.Name)
			if c.halted && c.null {
				// a nil slice/struct leaves the VM as Null; the generated decoders
				// (neo-go's generator, outside this repository) accept only the
				// non-null form: not judged, another argument is tried
				r.Count("binding_null_result_not_judged")
				continue
			}
			if c.halted {
				// (in a deep pass an empty answer does not count: the sweep goes
				// on to an argument the contract knows something about)
				if !pools.deep || !emptyAnswer(c.item) {
					halts++
				}
				if c.item != nil {
					pools.feed(c.item)
				}
				if err != nil && !generatedMethod(d.Repo, m.Name) {
					// hand-written helper (e.g. rpc/nns.ResolveFSContract documents an
					// error for a record list without an address): not a decoder
					r.Count("binding_helper_error_not_judged")
					return
				}
				if err != nil && !strings.Contains(err.Error(), "session") {
					kf := ""
					if d.Repo == "container" && m.Name == "EACL" && strings.Contains(err.Error(), "field Pub") {
						// narrow matcher: eACL of a live container that never had a table
						kf = "binding-decode:container.EACL:empty-pub"
					}
					r.ViolationOrKnown("C15/binding-cannot-decode-result", kf, "rpc/%s.%s: contract method %s HALTed but the binding returned: %v", d.Repo, m.Name, c.method, err)
					return
				}
				r.Cell("C15.bindings.decoded", d.Repo+"."+m.Name)
				// … and decoded to what the contract returned, field by field
				if c.item != nil && c.kind == "call" && len(a.calls) == 1 && len(outs) == 2 && generatedMethod(d.Repo, m.Name) {
					if nestedListLen(c.item) >= 2 {
						// (aliasing between decoded elements only shows with several)
						r.Count("probe.binding_decoded_nested_list_of_several")
					}
					same, cmp, why := sameLeaves(outs[0], c.item)
					switch {
					case !cmp:
						r.Count("binding_result_not_comparable")
					case !same:
						r.Violation("C15/binding-decodes-another-value", "", "rpc/%s.%s: %s (contract method %s)", d.Repo, m.Name, why, c.method)
						return
					default:
						r.Count("binding_results_compared_field_by_field")
					}
				}
			}
		}
		if len(a.calls) == 0 {
			// token transfer helpers build scripts instead of calls
			r.Cell("C15.bindings", d.Repo+"."+m.Name)
			return
		}
		if !isReader {
			return
		}
	}
}
