package siml

import (
	"bytes"
	"math/big"
	"reflect"

	"github.com/nspcc-dev/neo-go/pkg/crypto/keys"
	"github.com/nspcc-dev/neo-go/pkg/encoding/bigint"
	"github.com/nspcc-dev/neo-go/pkg/util"
	"github.com/nspcc-dev/neo-go/pkg/vm/stackitem"
)

// Decoded results of generated bindings are compared with what the contract
// returned by flattening both to their leaves, in order: a decoder that drops,
// repeats or mixes up fields or elements gives another leaf sequence.

type bindLeaf struct {
	isInt bool
	n     *big.Int
	b     []byte
}

func itemLeaves(it stackitem.Item, out *[]bindLeaf) bool {
	switch v := it.(type) {
	case stackitem.Null:
		*out = append(*out, bindLeaf{b: []byte{}})
	case *stackitem.Array, *stackitem.Struct:
		for _, e := range it.Value().([]stackitem.Item) {
			if !itemLeaves(e, out) {
				return false
			}
		}
	case *stackitem.Map:
		for _, e := range v.Value().([]stackitem.MapElement) {
			if !itemLeaves(e.Key, out) || !itemLeaves(e.Value, out) {
				return false
			}
		}
	case *stackitem.Interop, *stackitem.Pointer:
		return false
	default:
		b, err := it.TryBytes()
		if err != nil {
			return false
		}
		*out = append(*out, bindLeaf{b: b})
	}
	return true
}

var (
	typBigInt = reflect.TypeOf((*big.Int)(nil))
	typPub    = reflect.TypeOf((*keys.PublicKey)(nil))
	typU160   = reflect.TypeOf(util.Uint160{})
	typU256   = reflect.TypeOf(util.Uint256{})
	typItem   = reflect.TypeOf((*stackitem.Item)(nil)).Elem()
)

func goLeaves(v reflect.Value, out *[]bindLeaf) bool {
	if !v.IsValid() {
		*out = append(*out, bindLeaf{b: []byte{}})
		return true
	}
	t := v.Type()
	switch {
	case t == typBigInt:
		if v.IsNil() {
			*out = append(*out, bindLeaf{b: []byte{}})
			return true
		}
		*out = append(*out, bindLeaf{isInt: true, n: v.Interface().(*big.Int)})
		return true
	case t == typPub:
		if v.IsNil() {
			*out = append(*out, bindLeaf{b: []byte{}})
			return true
		}
		*out = append(*out, bindLeaf{b: v.Interface().(*keys.PublicKey).Bytes()})
		return true
	case t == typU160:
		*out = append(*out, bindLeaf{b: v.Interface().(util.Uint160).BytesBE()})
		return true
	case t == typU256:
		*out = append(*out, bindLeaf{b: v.Interface().(util.Uint256).BytesBE()})
		return true
	case t.Implements(typItem) && t.Kind() != reflect.Interface:
		return itemLeaves(v.Interface().(stackitem.Item), out)
	}
	switch t.Kind() {
	case reflect.Pointer, reflect.Interface:
		if v.IsNil() {
			*out = append(*out, bindLeaf{b: []byte{}})
			return true
		}
		if it, ok := v.Interface().(stackitem.Item); ok {
			return itemLeaves(it, out)
		}
		return goLeaves(v.Elem(), out)
	case reflect.Struct:
		for i := 0; i < t.NumField(); i++ {
			if !t.Field(i).IsExported() {
				return false
			}
			if !goLeaves(v.Field(i), out) {
				return false
			}
		}
		return true
	case reflect.Slice, reflect.Array:
		if t.Elem().Kind() == reflect.Uint8 {
			b := make([]byte, v.Len())
			reflect.Copy(reflect.ValueOf(b), v)
			*out = append(*out, bindLeaf{b: b})
			return true
		}
		for i := 0; i < v.Len(); i++ {
			if !goLeaves(v.Index(i), out) {
				return false
			}
		}
		return true
	case reflect.String:
		*out = append(*out, bindLeaf{b: []byte(v.String())})
		return true
	case reflect.Bool:
		n := big.NewInt(0)
		if v.Bool() {
			n = big.NewInt(1)
		}
		*out = append(*out, bindLeaf{isInt: true, n: n})
		return true
	case reflect.Int, reflect.Int8, reflect.Int16, reflect.Int32, reflect.Int64:
		*out = append(*out, bindLeaf{isInt: true, n: big.NewInt(v.Int())})
		return true
	case reflect.Uint, reflect.Uint8, reflect.Uint16, reflect.Uint32, reflect.Uint64:
		*out = append(*out, bindLeaf{isInt: true, n: new(big.Int).SetUint64(v.Uint())})
		return true
	}
	return false
}

// sameLeaves compares what a binding decoded (Go side) with what the contract
// returned (VM side). comparable=false: a type this flattening does not know.
func sameLeaves(goVal reflect.Value, raw stackitem.Item) (same, comparable bool, detail string) {
	var g, r []bindLeaf
	if !goLeaves(goVal, &g) || !itemLeaves(raw, &r) {
		return false, false, ""
	}
	if len(g) != len(r) {
		return false, true, "the decoded value has another number of fields/elements than the result"
	}
	for i := range g {
		if g[i].isInt {
			if len(r[i].b) > 32 || bigint.FromBytes(r[i].b).Cmp(g[i].n) != 0 {
				return false, true, "an integer field differs"
			}
			continue
		}
		if !bytes.Equal(g[i].b, r[i].b) {
			return false, true, "a field or element differs (or is out of place)"
		}
	}
	return true, true, ""
}
