package siml

import (
	"os"
	"testing"
)

func TestMain(m *testing.M) {
	code := m.Run()
	WriteStats()
	RemoveScratch()
	os.Exit(code)
}
