package siml

import (
	"path/filepath"

	"github.com/nspcc-dev/neo-go/pkg/core/transaction"
	"github.com/nspcc-dev/neo-go/pkg/util"
	"github.com/nspcc-dev/neo-go/pkg/vm/vmstate"
)

// FSOpts configure an FS-chain world.
type FSOpts struct {
	N         int
	Label     string
	With      []string // subset of: netmap balance neofsid container reputation audit proxy (nns is always there)
	NetmapCfg []any    // alternating key, value
	TLDs      []string // extra TLDs besides "neofs"
	// Source returns the artifact to deploy for a contract directory name;
	// default: compiled from the working tree.
	Source func(name string) *Artifact
}

// AuxDir is where the simulator's probe contracts live.
func AuxDir(name string) string {
	return filepath.Join(VerifDir(), "simL", "probes", name)
}

// NewFSWorld builds a world with NNS (ID 1) and the requested contracts,
// deployed with the arguments deploy/ uses and registered in zone "neofs".
func NewFSWorld(o FSOpts) *World {
	w := NewWorld(WorldOpts{N: o.N, Label: o.Label})
	src := o.Source
	if src == nil {
		src = CompileContract
	}
	tlds := []any{[]any{"neofs", "ops@nspcc.io"}}
	for _, t := range o.TLDs {
		tlds = append(tlds, []any{t, "ops@nspcc.io"})
	}
	w.Deploy("nns", src("nns"), []any{tlds})
	if w.C["nns"].ID != 1 {
		harnessf("NNS got ID %d", w.C["nns"].ID)
	}
	for _, name := range o.With {
		var data any
		switch name {
		case "netmap":
			cfg := o.NetmapCfg
			if cfg == nil {
				cfg = []any{}
			}
			data = []any{false, util.Uint160{}, util.Uint160{}, []any{}, cfg}
		case "container":
			data = []any{}
		default:
			data = nil
		}
		w.Deploy(name, src(name), data)
		w.RegisterFSName(name, w.C[name].Hash)
	}
	return w
}

// RegisterFSName registers <name>.neofs (committee-owned) with a TXT record
// holding the contract hash, the way deploy/ does.
func (w *World) RegisterFSName(name string, h util.Uint160) {
	nns := w.C["nns"].Hash
	tx1 := w.CallTx([]Signer{w.Committee}, -1, nns, "register", name+".neofs", w.Committee.Hash, "ops@nspcc.io", int64(3600), int64(600), int64(10*365*24*3600), int64(3600))
	tx2 := w.CallTx([]Signer{w.Committee}, -1, nns, "addRecord", name+".neofs", int64(16), h.StringLE())
	res := w.AddBlock([]*transaction.Transaction{tx1, tx2}, 1)
	for _, r := range res {
		if r.VMState != vmstate.Halt {
			harnessf("NNS registration of %s failed: %s", name, r.FaultException)
		}
	}
}
