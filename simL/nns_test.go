package siml

// NNS engine: decides C10 (ownership lifecycle + NEP-11 accounting over time),
// C11 (authorisation follows ownership; what-if signer matrix) and C12
// (records and resolution). One workload, one reference model; the workload is
// biased and the reported rules are selected by VERIF_PROP. See DESIGN.md §5.

import (
	"bytes"
	"encoding/binary"
	"encoding/hex"
	"fmt"
	"math/big"
	"sort"
	"strings"
	"testing"

	"github.com/nspcc-dev/neo-go/pkg/core/state"
	"github.com/nspcc-dev/neo-go/pkg/core/transaction"
	"github.com/nspcc-dev/neo-go/pkg/crypto/keys"
	"github.com/nspcc-dev/neo-go/pkg/encoding/bigint"
	"github.com/nspcc-dev/neo-go/pkg/util"
	"github.com/nspcc-dev/neo-go/pkg/vm/opcode"
	"github.com/nspcc-dev/neo-go/pkg/vm/stackitem"
	"github.com/nspcc-dev/neo-go/pkg/vm/vmstate"
	"pgregory.net/rapid"
)

// ---- abstract operations (drawn up-front so that rapid can delete steps) ----

type nnsSel struct {
	Mode  int // 0 path, 1 k-th registered name, 2 child of the k-th registered name, 3 TLD
	K     int
	Tld   int
	Depth int // path: 2..4
	L     [3]int
}

type nnsOp struct {
	Kind   int
	Sel    nnsSel
	Sub    int // record name relative to the selected name
	Acc    int // owner / receiver / admin
	Sig    int // signer class
	Exp    int // lifetime class (register, registerTLD) / years (renew)
	Typ    int
	Data   int
	Id     int
	GasCut int // 0 = none, else percent of the measured need
	Flush  int // 0 keep collecting, 1 close the block
	Dt     int // clock class
	DtSel  int // whose expiration a boundary jump aims at
	Mx     int // >0: run the C11 what-if matrix after the block on the Mx-th name
}

func nnsGenOp(t *rapid.T) nnsOp {
	op := nnsOp{}
	//              reg tld xfer renew adm add set del soa tick fill chain
	kw := []int{26, 5, 16, 14, 7, 8, 3, 3, 3, 12, 0, 1}
	switch Prop() {
	case "C11":
		kw = []int{22, 4, 16, 6, 14, 10, 4, 4, 4, 8, 0, 1}
	case "C12":
		kw = []int{16, 2, 4, 3, 4, 30, 11, 8, 4, 8, 3, 7}
	}
	op.Kind = Weighted(t, "kind", kw)
	op.Sel.Mode = Weighted(t, "sel", []int{30, 42, 22, 6})
	op.Sel.K = Uniform(t, "k", 60)
	op.Sel.Tld = Weighted(t, "tld", []int{40, 35, 15, 10})
	op.Sel.Depth = 2 + Weighted(t, "depth", []int{50, 35, 15})
	for i := range op.Sel.L {
		op.Sel.L[i] = Weighted(t, "label", []int{45, 35, 20})
	}
	op.Sub = Weighted(t, "sub", []int{50, 14, 10, 10, 10, 6})
	op.Acc = Weighted(t, "acc", []int{30, 25, 15, 10, 8, 8, 4})
	op.Sig = Weighted(t, "sig", []int{70, 6, 4, 4, 3, 3, 2, 3, 2, 2, 1})
	op.Exp = Weighted(t, "exp", []int{34, 12, 20, 16, 4, 14})
	op.Typ = Weighted(t, "typ", []int{40, 22, 18, 14, 6})
	op.Data = rapid.IntRange(0, 23).Draw(t, "data")
	op.Id = Weighted(t, "id", []int{50, 25, 15, 10})
	if Chance(t, "gascut?", 5) {
		op.GasCut = rapid.IntRange(5, 95).Draw(t, "gascut")
	}
	op.Flush = Weighted(t, "flush", []int{45, 55})
	op.Dt = Weighted(t, "dt", []int{74, 8, 3, 5, 5, 5})
	op.DtSel = Weighted(t, "dtsel", []int{60, 25, 15})
	mx := 2
	if Prop() == "C11" {
		mx = 10
	}
	if Chance(t, "matrix?", mx) {
		op.Mx = 1 + rapid.IntRange(0, 11).Draw(t, "mx")
	}
	return op
}

// ---- the engine -------------------------------------------------------------

type nnsActor struct {
	name   string
	hash   []byte
	signer *Signer // nil: cannot sign (contract)
}

type nnsEngine struct {
	r      *Run
	w      *World
	nns    util.Uint160
	nnsID  int32
	m      *nnsModel
	actors []nnsActor // u0..u3, committee, holder
	noPay  nnsActor   // a contract without onNEP11Payment
	strang *keys.PrivateKey
	tlds   []string
	resolv util.Uint160 // probe calling common.ResolveFSContract

	// swarm knobs
	sigFaults     bool
	gasCuts       bool
	exactInstants bool
	reentrant     bool         // C10: the run ends with a registration through the forwarder probe
	fwd           util.Uint160 // the forwarder probe
	deepSub       bool
	dupSet        bool
	maxBlock      int

	// bookkeeping
	touched     map[string]bool   // names ever mentioned (read sweep universe)
	notifOwn    map[string][]byte // fold of every Transfer notification: name → owner
	authChanged map[string]bool   // names whose owner/admin/liveness changed in this block
	lastNow     int64             // chain time after the engine's last own block
	pendingMx   int
	blockNo     int
	mxSeq       int
}

type nnsTx struct {
	op     nnsOp
	c      *nnsCall
	tx     *transaction.Transaction
	gasCut bool
	fault  string
}

var nnsLabelPool = []string{"a", "b", "xa"}

func nnsBody(r *Run) {
	e := &nnsEngine{r: r}
	e.run()
}

func init() { RegisterEngine("nns", []string{"C10", "C11", "C12"}, nnsBody) }

func TestNNS(t *testing.T) { Sim(t, nnsBody) }

func (e *nnsEngine) run() {
	t := e.r.T
	ns := []int{1, 3, 4, 7}
	if !Thorough() && Chance(t, "rareN", 12) {
		// sizes with 3k+2 members and the larger even one, now and then
		ns = []int{2, 5, 6}
	}
	if Thorough() {
		ns = []int{1, 3, 4, 7, 2, 5, 6}
	}
	n := ns[Pick(t, "n", len(ns))]
	e.sigFaults = Chance(t, "signerFaults", 75)
	e.gasCuts = Chance(t, "gasCuts", 60)
	e.deepSub = Chance(t, "deepSubNames", 50)
	// C11/C12: in half of the runs blocks may land exactly on an expiration
	// instant — C10's statement settles the side it belongs to ("available
	// again from that instant"), so a former owner has no rights then and the
	// name serves no records; the other half steps over it (see clock)
	e.exactInstants = Chance(t, "exactExpirationInstants", 50)
	e.reentrant = Chance(t, "forwardedRegistrationAtTheEnd", 50)
	e.dupSet = Chance(t, "duplicatingSetRecord", 50)
	e.maxBlock = []int{6, 1, 3}[Pick(t, "maxPerBlock", 3)]
	shortLife := []int64{2 * 365 * 24 * 3600, 3600, 365 * 24 * 3600}[Pick(t, "shortTLDLife", 3)]
	popOn := make([]bool, nnsPopulationSize)
	for i := range popOn {
		popOn[i] = Chance(t, "populate", 65)
	}
	maxOps := 40
	if Thorough() {
		maxOps = 60
	}
	ops := OpsSlice(t, rapid.Custom(nnsGenOp), maxOps)

	w := e.r.Own(NewFSWorld(FSOpts{N: n, Label: "nns", TLDs: []string{"lng"}}))
	e.w = w
	e.nns, e.nnsID = w.C["nns"].Hash, w.C["nns"].ID
	holder := w.Deploy("holder", CompileContract(AuxDir("holder")), nil).Hash
	e.resolv = w.Deploy("nnsresolver", CompileContract(AuxDir("nnsresolver")), nil).Hash
	if e.r.Prop == "C10" && e.reentrant {
		e.fwd = w.Deploy("forwarder", CompileContract(AuxDir("forwarder")), nil).Hash
	}
	e.m = &nnsModel{names: map[string]*nnsName{}}
	e.touched = map[string]bool{}
	e.authChanged = map[string]bool{}
	e.notifOwn = map[string][]byte{}
	for i := 0; i < 4; i++ {
		k := DetKey(fmt.Sprintf("nns/user/%d", i))
		s := Single(fmt.Sprintf("u%d", i), k)
		e.actors = append(e.actors, nnsActor{name: s.Name, hash: s.Hash.BytesBE(), signer: &s})
	}
	cm := w.Committee
	e.actors = append(e.actors, nnsActor{name: "committee", hash: cm.Hash.BytesBE(), signer: &cm})
	e.actors = append(e.actors, nnsActor{name: "holder", hash: holder.BytesBE()})
	e.noPay = nnsActor{name: "nopay", hash: e.nns.BytesBE()}
	e.strang = DetKey("nns/stranger")
	e.tlds = []string{"lng", "sht", "neofs", "new"}
	// what deployment registered (the deploy data of NewFSWorld: ten-year TLDs)
	t0 := int64(w.Now())
	for _, tld := range []string{"neofs", "lng"} {
		e.m.names[tld] = &nnsName{name: tld, level: 1, exp: t0 + 10*nnsYearMs, vars: []nnsRecSet{{}},
			soa: nnsSOA{email: "ops@nspcc.io", refresh: 3600, retry: 600, expire: 10 * 365 * 24 * 3600, ttl: 3600, serial: t0, serialAlt: -1}}
	}
	e.calibrateTLDs()
	e.lastNow = int64(w.Now())
	e.r.Sweep = e.apiSweep
	e.r.Tracef("world n=%d committee=%d-of-%d sigFaults=%v gasCuts=%v deepSub=%v dupSet=%v maxPerBlock=%d shortTLD=%ds",
		n, n/2+1, n, e.sigFaults, e.gasCuts, e.deepSub, e.dupSet, e.maxBlock, shortLife)

	// the short-lived TLD: an ordinary committee registration, part of the history
	first := &nnsTx{c: &nnsCall{kind: nnsOpRegisterTLD, name: "sht", signers: []Signer{w.Committee},
		soa: nnsSOA{email: "ops@nspcc.io", refresh: 3600, retry: 600, expire: shortLife, ttl: 3600}}}
	e.finishTx(first)
	e.block([]*nnsTx{first}, 1)

	// initial population (part of the history: ordinary calls by the right signers)
	var b1, b2 []*nnsTx
	popDep := []int{-1, -1, -1, -1, 0, 0, 0, 0, 0, 0, 3} // what each population call builds on
	for i, pc := range e.population() {
		if !popOn[i] || popDep[i] >= 0 && !popOn[popDep[i]] {
			continue
		}
		pc := pc
		pc.signers, _ = e.signersFor(&pc, 0, int64(w.Now())+1)
		bt := &nnsTx{c: &pc}
		e.finishTx(bt)
		if pc.kind == nnsOpRegister && nnsLevel(pc.name) == 2 {
			b1 = append(b1, bt)
		} else {
			b2 = append(b2, bt)
		}
	}
	if len(b1) > 0 {
		e.block(b1, 1)
	}
	if len(b2) > 0 {
		// signers of the second wave depend on the first: rebuild against the model
		for _, bt := range b2 {
			bt.c.signers, _ = e.signersFor(bt.c, 0, int64(w.Now())+1)
			bt.tx = e.w.Tx(bt.c.script(e.nns), bt.c.signers, -1)
		}
		e.block(b2, 1)
	}

	var pending []*nnsTx
	for _, op := range ops {
		if op.Mx > 0 {
			e.pendingMx = op.Mx
		}
		pending = append(pending, e.build(op)...)
		if op.Flush > 0 || len(pending) >= e.maxBlock || op.Kind == nnsOpTick {
			e.block(pending, e.clock(op))
			pending = nil
		}
	}
	if len(pending) > 0 {
		e.block(pending, 1)
	}
	e.finalSweep()
	if e.r.Prop == "C10" && e.reentrant {
		e.forwardedRegistration()
	}
}

// forwardedRegistration closes a C10 run with one more registration, made by
// a registrar contract that hands the name on from inside the payment
// callback (NNS is called back while still inside register). The model is not
// consulted: what C10 says about one registration followed by one transfer is
// checked directly on the read API.
func (e *nnsEngine) forwardedRegistration() {
	w, r := e.w, e.r
	name := "fwd-last.lng"
	av, err := w.Read(e.nns, "isAvailable", name)
	if b, _ := av.TryBool(); err != nil || !b {
		return // the TLD has run out in this history (or holds the name already)
	}
	target := e.actors[1]
	fw := e.fwd.BytesBE()
	intOf := func(m string, args ...any) int64 {
		it, err := w.Read(e.nns, m, args...)
		if err != nil {
			r.Violation("C10/forwarded-registration-mismatch", "", "%s%v FAULTs: %v", m, args, err)
			return -1
		}
		v, _ := it.TryInteger()
		return v.Int64()
	}
	tokens := func(o []byte) []string {
		p := w.WhatIf(CallScript(e.nns, "tokensOf", o), nil, 1)
		var out []string
		for _, l := range p.RawIters {
			for _, it := range l {
				out = append(out, string(ItemBytes(it)))
			}
		}
		sort.Strings(out)
		return out
	}
	sup0, balT0, balF0 := intOf("totalSupply"), intOf("balanceOf", target.hash), intOf("balanceOf", fw)
	tx := w.CallTx(nil, -1, e.fwd, "register", e.nns, name, target.hash)
	aer := w.AddBlock([]*transaction.Transaction{tx}, 1)[0]
	r.AddBlock(1, 1)
	r.Tracef("h=%d forwarder.register(%s → %s) %s %s", w.Height(), name, target.name, aer.VMState, clipStr(aer.FaultException, 80))
	if aer.VMState != vmstate.Halt {
		r.Count("outcome.forwardedRegister.refused")
		return // the statement does not promise that such a registrar is served
	}
	r.Count("outcome.forwardedRegister.ok")
	r.Count("probe.name_handed_on_inside_the_payment_callback")
	bad := func(format string, a ...any) {
		r.Violation("C10/forwarded-registration-mismatch", "", "after forwarder.register(%s → %s): %s", name, target.name, fmt.Sprintf(format, a...))
	}
	if own, err := w.Read(e.nns, "ownerOf", name); err != nil || !bytes.Equal(ItemBytes(own), target.hash) {
		bad("ownerOf = %v (%v), expected %x", own, err, target.hash)
	}
	if v := intOf("totalSupply"); v != sup0+1 {
		bad("totalSupply %d → %d", sup0, v)
	}
	if v := intOf("balanceOf", target.hash); v != balT0+1 {
		bad("balanceOf(%s) %d → %d", target.name, balT0, v)
	}
	if v := intOf("balanceOf", fw); v != balF0 {
		bad("balanceOf(forwarder) %d → %d", balF0, v)
	}
	for _, n := range tokens(fw) {
		if n == name {
			bad("tokensOf(forwarder) lists the name it handed on")
		}
	}
	found := false
	for _, n := range tokens(target.hash) {
		found = found || n == name
	}
	if !found {
		bad("tokensOf(%s) does not list the name", target.name)
	}
	var moves []string
	for _, ev := range aer.Events {
		if ev.Name == "Transfer" && ev.ScriptHash == e.nns {
			a := ev.Item.Value().([]stackitem.Item)
			if len(a) == 4 && string(ItemBytes(a[3])) == name {
				moves = append(moves, fmt.Sprintf("%x>%x", ItemBytes(a[0]), ItemBytes(a[1])))
			}
		}
	}
	if want := []string{fmt.Sprintf("%x>%x", []byte(nil), fw), fmt.Sprintf("%x>%x", fw, target.hash)}; strings.Join(moves, " ") != strings.Join(want, " ") {
		bad("Transfer notifications %v, expected %v", moves, want)
	}
}

// calibrateTLDs dates the deploy-time TLDs: they live ten years from the block
// that deployed NNS (inside NewFSWorld).
func (e *nnsEngine) calibrateTLDs() {
	// NewWorld: block 1 funds the payer; NewFSWorld: block 2 deploys NNS
	hdr, err := e.w.BC.GetHeader(e.w.BC.GetHeaderHash(2))
	must(err)
	for _, n := range e.m.names {
		n.exp = int64(hdr.Timestamp) + 10*nnsYearMs
		n.soa.serial = int64(hdr.Timestamp)
	}
}

const nnsPopulationSize = 11

// population: the calls a run may start with (each switched by its own draw).
func (e *nnsEngine) population() []nnsCall {
	u := func(i int) ([]byte, string) { return e.actors[i].hash, e.actors[i].name }
	reg := func(name string, owner int, life int64) nnsCall {
		h, n := u(owner)
		return nnsCall{kind: nnsOpRegister, name: name, acc: h, accName: n,
			soa: nnsSOA{email: "a@x.io", refresh: 100, retry: 600, expire: life, ttl: 3600}}
	}
	const y = 365 * 24 * 3600
	h1, n1 := u(1)
	l := []nnsCall{
		reg("a.lng", 0, y),
		reg("b.lng", 1, 2*y),
		reg("a.sht", 2, 10*y), // outlives a short TLD
		reg("a.neofs", 3, y),
		reg("a.a.lng", 0, 3600),
		reg("b.a.lng", 1, y),
		{kind: nnsOpSetAdmin, name: "a.lng", acc: h1, accName: n1},
		{kind: nnsOpAddRec, name: "a.lng", typ: nnsTypTXT, data: "v0"},
		{kind: nnsOpAddRec, name: "x.a.lng", typ: nnsTypA, data: "1.2.3.4"},
		{kind: nnsOpAddRec, name: "a.lng", typ: nnsTypCNAME, data: "b.lng"},
		{kind: nnsOpAddRec, name: "a.neofs", typ: nnsTypTXT, data: e.actors[0].signer.Hash.StringLE()},
	}
	if len(l) != nnsPopulationSize {
		harnessf("nns: population size")
	}
	return l
}

// buildChain: CNAME records node0 → node1 → … (1..5 links, optionally closed
// into a cycle) over names around the selected one, plus a TXT record at the
// end of the chain; each call signed by the right owner.
func (e *nnsEngine) buildChain(op nnsOp, base string, now int64) []*nnsTx {
	if e.m.token(base, now) == nil {
		return nil // nothing to hang records on
	}
	cand := []string{base, "x." + base, "xa." + base, "a." + base}
	for _, nm := range e.registered() {
		if nm != base {
			cand = append(cand, nm)
		}
	}
	links := 1 + (op.Id+op.Exp)%5
	var nodes []string
	for i := 0; i <= links; i++ {
		nodes = append(nodes, cand[(op.Data+i)%len(cand)])
	}
	if op.Typ == 1 { // a cycle
		nodes[links] = nodes[0]
	}
	var out []*nnsTx
	emit := func(name string, typ int64, data string) {
		c := &nnsCall{kind: nnsOpAddRec, name: name, typ: typ, data: data}
		c.signers, _ = e.signersFor(c, 0, now)
		bt := &nnsTx{op: op, c: c}
		bt.op.GasCut = 0
		e.finishTx(bt)
		out = append(out, bt)
	}
	for i := 0; i < links; i++ {
		emit(nodes[i], nnsTypCNAME, nodes[i+1])
	}
	emit(nodes[links], nnsTypTXT, nnsTxtPool[op.Data%len(nnsTxtPool)])
	emit(nodes[0], nnsTypTXT, nnsTxtPool[(op.Data+1)%len(nnsTxtPool)])
	return out
}

// apiSweep is the engine's complete read-API view of the world as sorted
// "nns.method(args)=value" lines (Run.Sweep; C16 compares it right before and
// right after an accepted upgrade). The blocks an upgrade inserts advance the
// clock by a few milliseconds, so everything that depends on a name whose
// expiration lies within 12 ms after the engine's last own block is left out
// (the same set before and after: it is taken relative to that block, not to
// the moving chain time).
func (e *nnsEngine) apiSweep() []string {
	m := e.m
	unstable := func(x string) bool {
		for s := x; s != ""; s = nnsParent(s) {
			if n := m.get(s); n != nil && n.exp > e.lastNow && n.exp <= e.lastNow+12 {
				return true
			}
		}
		return false
	}
	anyUnstable := false
	for _, nm := range m.sortedNames() {
		if unstable(nm) {
			anyUnstable = true
		}
	}
	set := map[string]bool{}
	for _, x := range e.universe() {
		set[x] = true
	}
	for _, tld := range e.tlds {
		for _, l := range nnsLabelPool {
			set[l+"."+tld] = true
		}
	}
	var names []string
	for x := range set {
		names = append(names, x)
	}
	sort.Strings(names)
	type line struct {
		label string
		rd    *nnsRead
	}
	var lines []line
	q := &nnsReads{e: e}
	add := func(label, method string, args ...any) {
		lines = append(lines, line{label, q.add(method, args...)})
	}
	for _, mth := range []string{"totalSupply", "getPrice", "roots", "tokens", "version", "symbol", "decimals"} {
		add("nns."+mth+"()", mth)
	}
	accs := append(append([]nnsActor{}, e.actors...), e.noPay, nnsActor{name: "stranger", hash: e.strang.GetScriptHash().BytesBE()})
	for _, a := range accs {
		u, _ := util.Uint160DecodeBytesBE(a.hash)
		add("nns.balanceOf("+a.name+")", "balanceOf", u)
		add("nns.tokensOf("+a.name+")", "tokensOf", u)
	}
	for _, tld := range e.tlds {
		if !unstable(tld) {
			add("nns.isAvailable("+tld+")", "isAvailable", tld)
		}
	}
	types := []int64{nnsTypA, nnsTypCNAME, nnsTypSOA, nnsTypTXT, nnsTypAAAA}
	for _, x := range names {
		if unstable(x) {
			continue
		}
		add("nns.isAvailable("+x+")", "isAvailable", x)
		add("nns.ownerOf("+x+")", "ownerOf", []byte(x))
		add("nns.properties("+x+")", "properties", []byte(x))
		add("nns.getAllRecords("+x+")", "getAllRecords", x)
		for _, ty := range types {
			add(fmt.Sprintf("nns.getRecords(%s,%s)", x, nnsTypName(ty)), "getRecords", x, ty)
			if !anyUnstable { // a chain may lead through any name
				add(fmt.Sprintf("nns.resolve(%s,%s)", x, nnsTypName(ty)), "resolve", x, ty)
			}
		}
	}
	var fs []line
	if !anyUnstable {
		for _, l := range nnsLabelPool {
			rd := &nnsRead{Method: "resolve", Args: []any{l}}
			q.fs = append(q.fs, rd)
			fs = append(fs, line{"nnsresolver.resolve(" + l + ")", rd})
		}
	}
	q.run()
	var out []string
	for _, ln := range append(lines, fs...) {
		var sb strings.Builder
		if ln.rd.Item == nil {
			sb.WriteString("FAULT")
		} else {
			itemRepr(&sb, ln.rd.Item, 0)
		}
		out = append(out, ln.label+"="+sb.String())
	}
	sort.Strings(out)
	return out
}

// signerOf returns the signer of an account, if it can sign at all.
func (e *nnsEngine) signerOf(h []byte) (Signer, bool) {
	for _, a := range e.actors {
		if string(a.hash) == string(h) && a.signer != nil {
			return *a.signer, true
		}
	}
	return Signer{}, false
}

func (e *nnsEngine) actorName(h []byte) string {
	if h == nil {
		return "null"
	}
	for _, a := range e.actors {
		if string(a.hash) == string(h) {
			return a.name
		}
	}
	if string(h) == string(e.noPay.hash) {
		return e.noPay.name
	}
	if string(h) == string(e.strang.GetScriptHash().BytesBE()) {
		return "stranger"
	}
	return fmt.Sprintf("%.4x", h)
}

func (e *nnsEngine) registered() []string {
	var l []string
	for _, n := range e.m.sortedNames() {
		if e.m.names[n].level > 1 {
			l = append(l, n)
		}
	}
	return l
}

// target resolves the name an operation acts on. Everything but register
// prefers names that exist; register prefers expired names, children of
// registered names and fresh second-level names.
func (e *nnsEngine) target(op nnsOp, now int64) string {
	s := op.Sel
	reg := e.registered()
	if len(reg) == 0 {
		return e.resolveSel(s)
	}
	if op.Kind == nnsOpRegister {
		if s.K%4 == 1 {
			// names whose registration the parent's records stand in the way of
			// (true sub-name records, records of the very name, #13 look-alikes)
			var blocked []string
			for _, nm := range reg {
				tok := e.m.names[nm]
				if !e.m.ownAlive(tok, now) || tok.level >= 4 {
					continue
				}
				for _, rs := range tok.vars {
					for _, rn := range rs.names() {
						l := nnsLabels(rn)
						if d := len(l) - tok.level; d >= 1 {
							blocked = append(blocked, strings.Join(l[d-1:], "."))
							if d == 1 && len(l[0]) > 1 {
								blocked = append(blocked, l[0][1:]+"."+nm)
							}
						}
					}
				}
			}
			if len(blocked) > 0 {
				return blocked[s.K/4%len(blocked)]
			}
		}
		if s.Mode == 1 {
			var expired []string
			for _, nm := range reg {
				if !e.m.ownAlive(e.m.names[nm], now) {
					expired = append(expired, nm)
				}
			}
			if len(expired) > 0 && s.K%4 != 3 {
				return expired[s.K%len(expired)]
			}
			if s.K%2 == 0 {
				s.Mode = 2 // nothing has expired: rather a child than a certain refusal
			}
		}
		if s.Mode == 0 && s.Depth > 2 && s.K%4 != 0 {
			if p := nnsParent(e.resolveSel(s)); !e.m.ownAlive(e.m.get(p), now) {
				s.Mode = 2 // the drawn path has no enclosing name
			}
		}
		if s.Mode == 2 && s.K%6 != 5 {
			// a child of a name that can have children right now
			var parents []string
			for _, nm := range reg {
				if n := e.m.names[nm]; n.level < 4 && e.m.ownAlive(n, now) && e.m.chainAlive(nm, now) {
					parents = append(parents, nm)
				}
			}
			if len(parents) > 0 {
				return nnsLabelPool[s.L[0]] + "." + parents[s.K/6%len(parents)]
			}
		}
		return e.resolveSel(s)
	}
	if s.Mode == 0 && s.K%3 != 0 || op.Kind == nnsOpChain || op.Kind == nnsOpFill {
		s.Mode = 1
	}
	switch op.Kind {
	case nnsOpTransfer, nnsOpRenew, nnsOpSetAdmin, nnsOpUpdateSOA:
		if s.Mode == 2 && s.K%4 != 0 {
			s.Mode = 1 // these act on registered names only
		}
	}
	if (s.Mode == 1 || s.Mode == 2) && s.K%6 != 5 {
		// mostly names that are running right now (or, for record operations,
		// sub-names of such)
		var alive []string
		for _, nm := range reg {
			if e.m.ownAlive(e.m.names[nm], now) && e.m.chainAlive(nm, now) {
				alive = append(alive, nm)
			}
		}
		if len(alive) > 0 {
			base := alive[s.K/6%len(alive)]
			if s.Mode == 2 {
				return nnsLabelPool[s.L[0]] + "." + base
			}
			return base
		}
	}
	return e.resolveSel(s)
}

func (e *nnsEngine) resolveSel(s nnsSel) string {
	path := func() string {
		name := e.tlds[s.Tld%len(e.tlds)]
		for i := 0; i < s.Depth-1; i++ {
			name = nnsLabelPool[s.L[i]] + "." + name
		}
		return name
	}
	reg := e.registered()
	switch s.Mode {
	case 1:
		if len(reg) > 0 {
			return reg[s.K%len(reg)]
		}
	case 2:
		if len(reg) > 0 {
			base := reg[s.K%len(reg)]
			if nnsLevel(base) >= 4 {
				return base
			}
			return nnsLabelPool[s.L[0]] + "." + base
		}
	case 3:
		return e.tlds[s.Tld%len(e.tlds)]
	}
	return path()
}

var (
	nnsLifetimes = []int64{365 * 24 * 3600, 3600, 2 * 365 * 24 * 3600, 10 * 365 * 24 * 3600, 1, 5 * 365 * 24 * 3600}
	nnsEmails    = []string{"a@x.io", "b@y.io"}
	nnsTxtPool   = []string{"v0", "v1", "v2", "v3", "v4", "v5", "v6", "v7", "v8", "v9", "v10", "v11", "v12", "v13", "v14", "v15", "v16", "v17"}
	nnsAPool     = []string{"1.2.3.4", "5.6.7.8", "166.15.14.13", "8.8.8.8"}
	nnsAAAAPool  = []string{"2001:4860:4860::8888", "2a00:1450:4010:c0a::8b", "2606:4700::1111"}
)

// recordName derives the record name of a record operation from the selected name.
func (e *nnsEngine) recordName(base string, sub int) (string, bool) {
	switch sub {
	case 1:
		return "x." + base, false
	case 2:
		return "xa." + base, false
	case 3:
		return "a." + base, false
	case 4:
		if e.deepSub {
			return "x.a." + base, false
		}
		return "x." + base, false
	case 5:
		return base + ".", true // trailing dot: only `resolve` accepts it
	}
	return base, false
}

// cnameTargets: names worth pointing a CNAME at (deterministic order).
func (e *nnsEngine) cnameTargets(self string) []string {
	l := []string{self, "a.lng", "b.lng", "a.sht", "gone.lng"}
	l = append(l, e.registered()...)
	for _, n := range e.registered() {
		for _, rs := range e.m.names[n].vars {
			l = append(l, rs.names()...)
		}
	}
	return l
}

func (e *nnsEngine) recordData(typ int64, name string, op nnsOp, cur []string) (string, bool) {
	d := op.Data
	switch typ {
	case nnsTypA:
		if d == 23 {
			return "1.2.3", true
		}
		return nnsAPool[d%len(nnsAPool)], false
	case nnsTypAAAA:
		if d == 23 {
			return "1.2.3.4", true
		}
		return nnsAAAAPool[d%len(nnsAAAAPool)], false
	case nnsTypCNAME:
		if d == 23 {
			return "bad name.lng", true
		}
		t := e.cnameTargets(name)
		return t[d%len(t)], false
	case nnsTypSOA:
		return "x a@x.io 1 2 3 4 5", false
	}
	switch {
	case d == 23:
		return nnsLong256(), true
	case d >= 20:
		// a contract hash the way deploy/ stores it (for ResolveFSContract)
		return e.actors[d%4].signer.Hash.StringLE(), false
	}
	return nnsTxtPool[d%len(nnsTxtPool)], false
}

// nnsFreshValue picks a pool value of the type that is not in cur (or dflt).
func nnsFreshValue(typ int64, cur []string, dflt string) string {
	pool := nnsTxtPool
	switch typ {
	case nnsTypA:
		pool = nnsAPool
	case nnsTypAAAA:
		pool = nnsAAAAPool
	case nnsTypCNAME:
		return dflt
	}
	for _, v := range pool {
		if !nnsContains(cur, v) {
			return v
		}
	}
	return dflt
}

func nnsLong256() string {
	b := make([]byte, 256)
	for i := range b {
		b[i] = 'q'
	}
	return string(b)
}

// build turns an abstract operation into signed transactions, resolving it
// against the model as it is now.
func (e *nnsEngine) build(op nnsOp) []*nnsTx {
	w := e.w
	now := int64(w.Now()) + 1
	name := e.target(op, now)
	c := &nnsCall{kind: op.Kind, name: name}
	c.soa = nnsSOA{email: nnsEmails[op.Data%2], refresh: int64(100 + op.Data), retry: 600, expire: nnsLifetimes[op.Exp], ttl: 3600}
	acc := e.actors[op.Acc%len(e.actors)]
	switch op.Kind {
	case nnsOpTick:
		return nil
	case nnsOpRegister:
		if nnsLevel(name) == 1 { // register() is not for TLDs: make it a second-level name
			name = nnsLabelPool[op.Sel.L[0]] + "." + name
			c.name = name
		}
		if op.Acc == 6 {
			acc = e.actors[0]
		}
		c.acc, c.accName = acc.hash, acc.name
	case nnsOpRegisterTLD:
		c.name = e.tlds[op.Sel.Tld%len(e.tlds)]
		if op.Exp == 4 {
			c.soa.expire = 3600
		}
	case nnsOpTransfer:
		if op.Acc == 6 {
			acc = e.noPay
			c.noPay = true
		}
		c.acc, c.accName = acc.hash, acc.name
	case nnsOpRenew:
		c.years = int64(op.Exp*2 + 1) // 1,3,5,7,9,11
		if op.Data%3 == 0 {
			c.years = int64(1 + op.Data%10)
		}
		if op.Id == 3 {
			c.short, c.years = true, 1
		}
	case nnsOpSetAdmin:
		if op.Acc >= 5 {
			c.acc, c.accName = nil, "null"
		} else {
			c.acc, c.accName = acc.hash, acc.name
		}
	case nnsOpChain:
		return e.buildChain(op, name, now)
	case nnsOpAddRec, nnsOpSetRec, nnsOpDelRec, nnsOpFill:
		c.name, c.badName = e.recordName(name, op.Sub)
		c.typ = []int64{nnsTypTXT, nnsTypA, nnsTypCNAME, nnsTypAAAA, nnsTypSOA}[op.Typ]
		var cur []string
		if !c.badName && (op.Kind == nnsOpSetRec && op.Data%6 != 5 || op.Kind == nnsOpDelRec && op.Data%2 == 0) {
			// mostly aim at something that exists: the records of the selected
			// name's enclosing registration, else of any running registration
			type pair struct {
				n string
				t int64
			}
			var pairs []pair
			collect := func(tok *nnsName) {
				for _, rn := range tok.vars[0].names() {
					for _, ty := range nnsRecTypes {
						if len(tok.vars[0].list(rn, ty)) > 0 && e.m.token(rn, now) == tok {
							pairs = append(pairs, pair{rn, ty})
						}
					}
				}
			}
			if tok := e.m.token(c.name, now); tok != nil {
				collect(tok)
			}
			if len(pairs) == 0 {
				for _, nm := range e.registered() {
					if tok := e.m.names[nm]; e.m.ownAlive(tok, now) && e.m.chainAlive(nm, now) {
						collect(tok)
					}
				}
			}
			if len(pairs) > 0 {
				pr := pairs[op.Data%len(pairs)]
				c.name, c.typ = pr.n, pr.t
			}
		}
		if tok := e.m.token(c.name, now); tok != nil && !c.badName {
			cur = tok.vars[0].list(c.name, c.typ)
		}
		c.data, c.badData = e.recordData(c.typ, c.name, op, cur)
		if op.Kind == nnsOpDelRec {
			c.data, c.badData = "", false
		}
		if op.Kind == nnsOpSetRec {
			c.id = int64(op.Id)
			if len(cur) > 0 {
				// every existing index is a target, the last one often (the 16th
				// slot is the boundary of the list); Id 3 aims past the end
				switch op.Id {
				case 0:
					c.id = int64(op.Data % len(cur))
				case 1:
					c.id = int64(len(cur) - 1)
				case 2:
					c.id = int64(op.Data % 3 % len(cur))
				default:
					c.id = int64(len(cur) + op.Data%2*(nnsMaxRec-len(cur)))
				}
			}
			if c.id < int64(len(cur)) && !c.badData {
				dup := false
				for j, d := range cur {
					if int64(j) != c.id && d == c.data {
						dup = true
					}
				}
				switch {
				case op.Exp == 1:
					c.data = cur[c.id] // replace a value by itself
				case op.Exp >= 2 && op.Exp <= 3 && e.dupSet && len(cur) > 1:
					c.data = cur[(c.id+1)%int64(len(cur))] // the value of another index
				case dup && !e.dupSet:
					c.data = nnsFreshValue(c.typ, cur, cur[c.id]) // keep the list distinct in this run
				}
			}
		}
	case nnsOpUpdateSOA:
	}
	if op.Kind == nnsOpFill && e.m.token(c.name, now) == nil {
		return nil
	}
	if op.Kind == nnsOpFill {
		// a burst that fills (name, TXT) up to and beyond the limit, one block
		var out []*nnsTx
		c.typ = nnsTypTXT
		for i := 0; i < 17; i++ {
			ci := *c
			ci.kind, ci.data, ci.badData = nnsOpAddRec, nnsTxtPool[i], false
			ci.signers, _ = e.signersFor(&ci, 0, now)
			bt := &nnsTx{op: op, c: &ci}
			bt.op.GasCut = 0
			e.finishTx(bt)
			out = append(out, bt)
		}
		return out
	}
	sig := op.Sig
	if !e.sigFaults {
		sig = 0
	}
	bt := &nnsTx{op: op, c: c}
	c.signers, bt.fault = e.signersFor(c, sig, now)
	if c.badName || c.badData {
		bt.fault = orStr(bt.fault, "arg.malformed")
	}
	e.finishTx(bt)
	return []*nnsTx{bt}
}

// principals: the accounts whose witnesses the statement asks for, as far as
// the model knows them right now.
func (e *nnsEngine) principals(c *nnsCall, now int64) (owner []byte, extra [][]byte, n *nnsName) {
	m := e.m
	switch c.kind {
	case nnsOpRegisterTLD, nnsOpSetPrice:
		return e.w.Committee.Hash.BytesBE(), nil, nil
	case nnsOpRegister:
		if p := m.get(nnsParent(c.name)); p != nil && p.level > 1 {
			return c.acc, [][]byte{p.owner}, p
		}
		return c.acc, nil, nil
	case nnsOpAddRec, nnsOpSetRec, nnsOpDelRec:
		if !c.badName && nnsLevel(c.name) >= 2 {
			n = m.token(c.name, now)
		}
		if n == nil {
			n = m.get(nnsParent(c.name))
		}
	default:
		n = m.get(c.name)
	}
	if n == nil {
		return nil, nil, nil
	}
	owner = n.owner
	if owner == nil {
		owner = e.w.Committee.Hash.BytesBE()
	}
	if c.kind == nnsOpSetAdmin && c.acc != nil {
		extra = [][]byte{c.acc}
	}
	return owner, extra, n
}

// signersFor builds the signer list of class `class` (see the C11 statement's
// signer sets) and names the fault kind it stands for ("" if the set is, per
// the model, authorised).
func (e *nnsEngine) signersFor(c *nnsCall, class int, now int64) ([]Signer, string) {
	w := e.w
	owner, extra, n := e.principals(c, now)
	var right []Signer
	add := func(l []Signer, h []byte) []Signer {
		if s, ok := e.signerOf(h); ok {
			return append(l, s)
		}
		return l
	}
	right = add(right, owner)
	for _, x := range extra {
		right = add(right, x)
	}
	stranger := Single("stranger", e.strang)
	var out []Signer
	fault := ""
	withExtra := func(l []Signer) []Signer { // keep the co-signers (new admin, new owner) honest
		if c.kind == nnsOpSetAdmin && c.acc != nil {
			return add(l, c.acc)
		}
		if c.kind == nnsOpRegister && class != 7 {
			return add(l, c.acc)
		}
		return l
	}
	switch class {
	case 0:
		out = right
	case 1:
		if n != nil && n.admin != nil {
			out, fault = withExtra(add(nil, n.admin)), "wit.other_key"
		} else {
			out = right
		}
	case 2:
		out, fault = []Signer{stranger}, "wit.missing"
	case 3:
		if n != nil && len(n.exOwners) > 0 {
			out, fault = withExtra(add(nil, n.exOwners[0])), "wit.other_key"
		} else {
			out, fault = []Signer{stranger}, "wit.missing"
		}
	case 4:
		out, fault = withExtra([]Signer{w.Committee}), "wit.other_key"
	case 5:
		for _, s := range right {
			out = append(out, s.WithScope(transaction.None))
		}
		fault = "wit.scope"
	case 6:
		fault = "wit.missing"
	case 7:
		if n != nil {
			if p := e.m.get(nnsParent(n.name)); p != nil && p.owner != nil {
				out = add(nil, p.owner)
			}
		}
		if out == nil {
			out = []Signer{stranger}
		}
		fault = "wit.other_key"
	case 8:
		for _, s := range right {
			out = append(out, s.WithScope(transaction.CalledByEntry))
		}
	case 9:
		out, fault = withExtra([]Signer{Single("member0", w.Privs[0])}), "wit.single"
	default:
		short, okShort := OneShort(w, w.Committee)
		if okShort && owner != nil && bytes.Equal(owner, w.Committee.Hash.BytesBE()) && now%2 == 0 {
			// the committee's keys, one signature short of the majority
			out, fault = withExtra([]Signer{short}), "wit.one_short"
		} else if c.kind == nnsOpRegisterTLD && w.Alphabet.Hash != w.Committee.Hash {
			out, fault = []Signer{w.Alphabet}, "wit.swap_threshold"
		} else if n != nil && len(n.exAdmins) > 0 {
			out, fault = withExtra(add(nil, n.exAdmins[0])), "wit.other_key"
		} else {
			out = right
		}
	}
	out = nnsUniqueSigners(out)
	cc := *c
	cc.signers = out
	if e.predict(&cc, now).auth == nnsAuthYes {
		fault = ""
	}
	return out, fault
}

func (e *nnsEngine) finishTx(bt *nnsTx) {
	script := bt.c.script(e.nns)
	sysFee := int64(-1)
	if bt.op.GasCut > 0 && e.gasCuts {
		p := e.w.WhatIf(script, bt.c.signers, 1)
		if p.State == vmstate.Halt && p.GAS > 0 {
			sysFee = p.GAS * int64(bt.op.GasCut) / 100
			bt.gasCut = true
			e.r.Inject("gas.cut")
		}
	}
	bt.tx = e.w.Tx(script, bt.c.signers, sysFee)
	if bt.fault != "" {
		e.r.Inject(bt.fault)
	}
	e.touch(bt.c.name)
}

func (e *nnsEngine) touch(name string) {
	if name == "" || name[len(name)-1] == '.' || len(name) < 3 {
		return
	}
	e.touched[name] = true
}

// clock resolves the Δt class of the operation that closes a block. Landing
// exactly on an expiration instant is C10's boundary ("available again from
// that instant"): when C11 or C12 is decided the block time steps over it, so
// that their rules never hinge on which side the instant itself belongs to.
func (e *nnsEngine) clock(op nnsOp) uint64 {
	dt := e.clockRaw(op)
	if p := e.r.Prop; (p == "C11" || p == "C12") && !e.exactInstants {
		now := int64(e.w.Now())
		for again := true; again; {
			again = false
			for _, n := range e.m.names {
				// (reads are evaluated one millisecond after the block)
				if n.exp == now+int64(dt) || n.exp == now+int64(dt)+1 {
					dt++
					again = true
				}
			}
		}
	}
	return dt
}

func (e *nnsEngine) clockRaw(op nnsOp) uint64 {
	now := int64(e.w.Now())
	switch op.Dt {
	case 1:
		e.r.Inject("clock.jump")
		return uint64(nnsHourMs)
	case 2:
		e.r.Inject("clock.jump")
		return uint64(nnsYearMs)
	case 3, 4, 5:
		// land exactly on exp−1, exp, exp+1 of some name that is still running
		// (one of the three nearest: a far jump would end every other lifetime too)
		var cand []int64
		for _, nm := range e.m.sortedNames() {
			if x := e.m.names[nm].exp; x-1 > now {
				cand = append(cand, x)
			}
		}
		if len(cand) == 0 {
			return 1
		}
		sort.Slice(cand, func(i, j int) bool { return cand[i] < cand[j] })
		if len(cand) > 3 {
			cand = cand[:3]
		}
		target := cand[op.DtSel%len(cand)] + int64(op.Dt-4)
		if target <= now {
			return 1
		}
		e.r.Inject("clock.boundary")
		return uint64(target - now)
	}
	return 1
}

// ===========================================================================
// NNS engine, part: reference model. Written from the statements of C10, C11,
// C12 (properties.jsonl), the package/method comments of contracts/nns and the
// expectations spelled out in tests/nns_test.go — not from the storage layout.

const (
	nnsTypA     = int64(1)
	nnsTypCNAME = int64(5)
	nnsTypSOA   = int64(6)
	nnsTypTXT   = int64(16)
	nnsTypAAAA  = int64(28)

	nnsHourMs = int64(3600 * 1000)
	nnsYearMs = int64(365 * 24 * 3600 * 1000) // "year" as the contract documents it
	nnsMaxRec = 16
)

var nnsRecTypes = []int64{nnsTypA, nnsTypCNAME, nnsTypTXT, nnsTypAAAA}

func nnsTypName(t int64) string {
	switch t {
	case nnsTypA:
		return "A"
	case nnsTypCNAME:
		return "CNAME"
	case nnsTypSOA:
		return "SOA"
	case nnsTypTXT:
		return "TXT"
	case nnsTypAAAA:
		return "AAAA"
	}
	return fmt.Sprintf("T%d", t)
}

// nnsRecSet is one alternative of the records held by a registered name
// (token): record name → type → ordered values. SOA is kept apart.
type nnsRecSet map[string]map[int64][]string

func (s nnsRecSet) clone() nnsRecSet {
	o := nnsRecSet{}
	for n, m := range s {
		om := map[int64][]string{}
		for t, l := range m {
			om[t] = append([]string(nil), l...)
		}
		o[n] = om
	}
	return o
}

func (s nnsRecSet) list(name string, typ int64) []string { return s[name][typ] }

func (s nnsRecSet) set(name string, typ int64, l []string) {
	if len(l) == 0 {
		if m := s[name]; m != nil {
			delete(m, typ)
			if len(m) == 0 {
				delete(s, name)
			}
		}
		return
	}
	if s[name] == nil {
		s[name] = map[int64][]string{}
	}
	s[name][typ] = l
}

func (s nnsRecSet) names() []string {
	var l []string
	for n := range s {
		l = append(l, n)
	}
	sort.Strings(l)
	return l
}

func (s nnsRecSet) String() string {
	var sb strings.Builder
	for _, n := range s.names() {
		var ts []int64
		for t := range s[n] {
			ts = append(ts, t)
		}
		sort.Slice(ts, func(i, j int) bool { return ts[i] < ts[j] })
		for _, t := range ts {
			fmt.Fprintf(&sb, "%s/%s=%q ", n, nnsTypName(t), s[n][t])
		}
	}
	return "{" + strings.TrimSpace(sb.String()) + "}"
}

func (s nnsRecSet) equal(o nnsRecSet) bool { return s.String() == o.String() }

type nnsSOA struct {
	email                       string
	refresh, retry, expire, ttl int64
	serial                      int64
	// serialAlt ≥ 0: the serial may also be this value (deleteRecords of an
	// already empty type: the statement does not say whether deleting nothing is
	// a "mutation")
	serialAlt int64
}

func (s nnsSOA) data(name string, serial int64) string {
	return fmt.Sprintf("%s %s %d %d %d %d %d", name, s.email, serial, s.refresh, s.retry, s.expire, s.ttl)
}

// nnsName is what the model knows about a name that was registered at least once.
type nnsName struct {
	name  string
	level int    // 1 = TLD
	owner []byte // nil: committee-owned (TLDs)
	admin []byte
	// adminAlt: the admin may also have been cleared (self-transfer of a name with
	// an admin: "transfer clears the admin" vs. "nothing changed hands" — the
	// statement leaves it open; resolved at the next readable `properties`)
	adminAlt bool
	exp      int64
	exOwners [][]byte // most recent first
	exAdmins [][]byte
	// the admin was last cleared by a re-registration (not by a transfer): what
	// `properties` shows as admin is then C11's business, not C10's
	adminByRegistration bool
	soa                 nnsSOA
	// vars: alternatives of the record set (one, or two after an expired name was
	// re-registered while it still held records: DON'T-CARE zone #11)
	vars []nnsRecSet
}

type nnsModel struct {
	names  map[string]*nnsName
	supply int64
}

func nnsLabels(name string) []string { return strings.Split(name, ".") }
func nnsLevel(name string) int       { return strings.Count(name, ".") + 1 }

func nnsParent(name string) string {
	i := strings.IndexByte(name, '.')
	if i < 0 {
		return ""
	}
	return name[i+1:]
}

func nnsTLDOf(name string) string {
	return name[strings.LastIndexByte(name, '.')+1:]
}

func (m *nnsModel) get(name string) *nnsName { return m.names[name] }

func (m *nnsModel) ownAlive(n *nnsName, t int64) bool { return n != nil && t < n.exp }

// chainAlive: every proper ancestor (TLD included) is registered and unexpired.
func (m *nnsModel) chainAlive(name string, t int64) bool {
	for p := nnsParent(name); p != ""; p = nnsParent(p) {
		if !m.ownAlive(m.get(p), t) {
			return false
		}
	}
	return true
}

// token is the longest registered, unexpired non-TLD name enclosing `name`
// (the name itself included).
func (m *nnsModel) token(name string, t int64) *nnsName {
	for s := name; nnsLevel(s) >= 2; s = nnsParent(s) {
		if n := m.get(s); m.ownAlive(n, t) {
			return n
		}
	}
	return nil
}

func (m *nnsModel) sortedNames() []string {
	var l []string
	for n := range m.names {
		l = append(l, n)
	}
	sort.Strings(l)
	return l
}

// conflict classes between the records a parent holds and a name to register
const (
	nnsNoConflict = iota
	nnsExactOnly  // parent holds records for exactly this name (statement silent)
	nnsFuzzy      // a record name merely ends with the name, no dot boundary (#13)
	nnsTrueSub    // records of true sub-names: registration must be refused
)

func nnsConflict(rs nnsRecSet, name string) int {
	c := nnsNoConflict
	for rn := range rs {
		switch {
		case strings.HasSuffix(rn, "."+name):
			return nnsTrueSub
		case rn == name:
			if c < nnsExactOnly {
				c = nnsExactOnly
			}
		case strings.HasSuffix(rn, name):
			if c < nnsFuzzy {
				c = nnsFuzzy
			}
		}
	}
	return c
}

func nnsPush(l [][]byte, x []byte) [][]byte {
	if x == nil {
		return l
	}
	out := [][]byte{x}
	for _, y := range l {
		if !bytes.Equal(x, y) && len(out) < 4 {
			out = append(out, y)
		}
	}
	return out
}

func nnsContains(l []string, v string) bool {
	for _, x := range l {
		if x == v {
			return true
		}
	}
	return false
}

// ===========================================================================
// NNS engine, part: concrete calls and the total prediction function.

const (
	nnsOpRegister = iota
	nnsOpRegisterTLD
	nnsOpTransfer
	nnsOpRenew
	nnsOpSetAdmin
	nnsOpAddRec
	nnsOpSetRec
	nnsOpDelRec
	nnsOpUpdateSOA
	nnsOpTick  // no transaction: only clock / block boundary
	nnsOpFill  // a burst of addRecord calls on one (name, type): reaches the 16 limit
	nnsOpChain // a burst of CNAME records forming a chain (or a cycle) of 1..5 links
	nnsOpSetPrice
	nnsOpKinds
)

var nnsOpKindName = []string{"register", "registerTLD", "transfer", "renew", "setAdmin", "addRecord", "setRecord", "deleteRecords", "updateSOA", "tick", "fill", "chain", "setPrice"}

// nnsCall is one concrete invocation (committed or what-if).
type nnsCall struct {
	kind    int
	name    string
	acc     []byte // register: owner; transfer: receiver; setAdmin: admin (nil = Null)
	accName string
	soa     nnsSOA // register / registerTLD / updateSOA arguments
	years   int64
	short   bool // renew/1 overload ("renewDefault")
	typ, id int64
	data    string
	price   int64
	badName bool // one of the few fixed malformed names / record data: must be refused
	badData bool
	noPay   bool // transfer receiver is a contract without onNEP11Payment
	signers []Signer
}

func nnsHashArg(b []byte) any {
	if b == nil {
		return nil
	}
	if len(b) == 20 {
		u, _ := util.Uint160DecodeBytesBE(b)
		return u
	}
	return b
}

func (c *nnsCall) script(h util.Uint160) []byte {
	s := c.soa
	switch c.kind {
	case nnsOpRegister:
		return CallScript(h, "register", c.name, nnsHashArg(c.acc), s.email, s.refresh, s.retry, s.expire, s.ttl)
	case nnsOpRegisterTLD:
		return CallScript(h, "registerTLD", c.name, s.email, s.refresh, s.retry, s.expire, s.ttl)
	case nnsOpTransfer:
		return CallScript(h, "transfer", nnsHashArg(c.acc), []byte(c.name), nil)
	case nnsOpRenew:
		if c.short {
			return CallScript(h, "renew", c.name)
		}
		return CallScript(h, "renew", c.name, c.years)
	case nnsOpSetAdmin:
		return CallScript(h, "setAdmin", c.name, nnsHashArg(c.acc))
	case nnsOpAddRec:
		return CallScript(h, "addRecord", c.name, c.typ, c.data)
	case nnsOpSetRec:
		return CallScript(h, "setRecord", c.name, c.typ, c.id, c.data)
	case nnsOpDelRec:
		return CallScript(h, "deleteRecords", c.name, c.typ)
	case nnsOpUpdateSOA:
		return CallScript(h, "updateSOA", c.name, s.email, s.refresh, s.retry, s.expire, s.ttl)
	case nnsOpSetPrice:
		return CallScript(h, "setPrice", c.price)
	}
	harnessf("nns: no script for kind %d", c.kind)
	return nil
}

func (c *nnsCall) desc() string {
	switch c.kind {
	case nnsOpRegister:
		return fmt.Sprintf("register(%s, owner=%s, expire=%ds)", c.name, c.accName, c.soa.expire)
	case nnsOpRegisterTLD:
		return fmt.Sprintf("registerTLD(%s, expire=%ds)", c.name, c.soa.expire)
	case nnsOpTransfer:
		return fmt.Sprintf("transfer(%s → %s)", c.name, c.accName)
	case nnsOpRenew:
		if c.short {
			return fmt.Sprintf("renew(%s)", c.name)
		}
		return fmt.Sprintf("renew(%s, %d)", c.name, c.years)
	case nnsOpSetAdmin:
		return fmt.Sprintf("setAdmin(%s, %s)", c.name, c.accName)
	case nnsOpAddRec:
		return fmt.Sprintf("addRecord(%s, %s, %q)", c.name, nnsTypName(c.typ), clipStr(c.data, 44))
	case nnsOpSetRec:
		return fmt.Sprintf("setRecord(%s, %s, #%d, %q)", c.name, nnsTypName(c.typ), c.id, clipStr(c.data, 44))
	case nnsOpDelRec:
		return fmt.Sprintf("deleteRecords(%s, %s)", c.name, nnsTypName(c.typ))
	case nnsOpUpdateSOA:
		return fmt.Sprintf("updateSOA(%s, %s, %d)", c.name, c.soa.email, c.soa.refresh)
	case nnsOpSetPrice:
		return fmt.Sprintf("setPrice(%d)", c.price)
	}
	return "?"
}

const (
	nnsAuthNo = iota
	nnsAuthYes
	nnsAuthDC
)

// nnsVerdict is what the statements say about one call in one state.
type nnsVerdict struct {
	exp    expect
	rule   string // rule broken if exp == mustRefuse and the call took effect
	kf     string // known-finding key proposed for that rule ("" = none)
	auth   int
	why    string
	evAlts [][]string // acceptable NNS notification sequences if it takes effect
	ret    any        // expected return value if it takes effect (nil: not checked)
	apply  func()     // model effects common to all record-set alternatives
	// per alternative of tok's record set (nil: the call does not depend on it)
	tok    *nnsName
	vexp   []expect
	vapply []func()
}

func nnsEvTransfer(from, to []byte, name string) string {
	return fmt.Sprintf("Transfer|%x|%x|1|%s", from, to, name)
}
func nnsEvRenew(name string, o, n int64) string { return fmt.Sprintf("Renew|%s|%d|%d", name, o, n) }
func nnsEvSetAdmin(name string, o, n []byte) string {
	return fmt.Sprintf("SetAdmin|%s|%x|%x", name, o, n)
}

func (e *nnsEngine) committeeWit(signers []Signer) bool {
	return Witness(signers, e.w.Committee.Hash.BytesBE(), 0)
}

// isO: "owner or admin of the name (the committee for TLDs and committee-owned
// names)".
func (e *nnsEngine) isO(n *nnsName, signers []Signer) int {
	if n.owner == nil {
		if e.committeeWit(signers) {
			return nnsAuthYes
		}
		return nnsAuthNo
	}
	if Witness(signers, n.owner, 0) {
		return nnsAuthYes
	}
	if n.admin != nil && Witness(signers, n.admin, 0) {
		if n.adminAlt {
			return nnsAuthDC
		}
		return nnsAuthYes
	}
	return nnsAuthNo
}

// deadNameRule names the rule broken when a call about a name without a live
// enclosing registration takes effect. If the signers hold the witnesses of an
// expired registration of it, what failed is the end of the lifetime (C10:
// rights end at the expiration instant), not the witness check (C11).
func (e *nnsEngine) deadNameRule(name string, signers []Signer) string {
	for s := name; nnsLevel(s) >= 2; s = nnsParent(s) {
		if n := e.m.get(s); n != nil && e.isO(n, signers) != nnsAuthNo {
			if e.r.Prop == "C11" {
				// whoever held an expired registration is not the owner or admin
				// of anything: the attempt is unauthorised and took effect
				return "C11/expired-rights-accepted"
			}
			return "C10/rights-outlive-expiration"
		}
	}
	return nnsRuleUnauth
}

func nnsRefuse(rule, why string, auth int) *nnsVerdict {
	return &nnsVerdict{exp: mustRefuse, rule: rule, why: why, auth: auth}
}

const nnsRuleUnauth = "C11/unauthorised-accepted"

// predict is total: any call, any state, any signer set.
func (e *nnsEngine) predict(c *nnsCall, now int64) *nnsVerdict {
	m := e.m
	n := m.get(c.name)
	lvl := nnsLevel(c.name)
	switch c.kind {
	case nnsOpSetPrice:
		if !e.committeeWit(c.signers) {
			return nnsRefuse(nnsRuleUnauth, "no committee witness", nnsAuthNo)
		}
		// never committed by this engine: no model effect needed
		return &nnsVerdict{exp: mustSucceed, auth: nnsAuthYes, apply: func() {}}

	case nnsOpRegisterTLD:
		if !e.committeeWit(c.signers) {
			return nnsRefuse(nnsRuleUnauth, "no committee witness", nnsAuthNo)
		}
		if c.badName || lvl != 1 {
			return nnsRefuse("C10/malformed-accepted", "not a TLD name", nnsAuthYes)
		}
		v := &nnsVerdict{exp: mustSucceed, auth: nnsAuthYes}
		if n != nil {
			if m.ownAlive(n, now) {
				return nnsRefuse("C10/registered-twice", "TLD is registered", nnsAuthYes)
			}
			// DON'T CARE: re-registration of an *expired* TLD. The statement only
			// says who may register TLDs; tests/nns_test.go expects it to work.
			v.exp, v.why = dontCare, "expired TLD again"
		}
		v.apply = func() {
			t := n
			if t == nil {
				t = &nnsName{name: c.name, level: 1, vars: []nnsRecSet{{}}}
				m.names[c.name] = t
			}
			t.exp = now + c.soa.expire*1000
			t.soa = c.soa
			t.soa.serial, t.soa.serialAlt = now, -1
		}
		return v

	case nnsOpRegister:
		return e.predictRegister(c, now)

	case nnsOpTransfer:
		if c.badName || lvl == 1 || n == nil || n.owner == nil {
			return nnsRefuse("C10/transfer-of-nothing", "no such non-TLD name", nnsAuthNo)
		}
		if !Witness(c.signers, n.owner, 0) {
			return nnsRefuse(nnsRuleUnauth, "no owner witness", nnsAuthNo)
		}
		v := &nnsVerdict{exp: mustSucceed, auth: nnsAuthYes, ret: true}
		switch {
		case !m.ownAlive(n, now):
			// DON'T CARE: transfer of an expired, not yet re-registered name by its
			// recorded owner (statement silent; effects are checked if accepted)
			v.exp, v.why = dontCare, "name expired"
		case !m.chainAlive(c.name, now):
			// DON'T CARE: ancestors expired
			v.exp, v.why = dontCare, "parent chain expired"
		case c.noPay:
			// DON'T CARE: receiver is a contract without onNEP11Payment
			v.exp, v.why = dontCare, "receiver cannot accept"
		}
		from, to := n.owner, c.acc
		if bytes.Equal(from, to) {
			// self-transfer: no change of ownership. DON'T CARE whether it is
			// announced and whether the admin survives.
			v.evAlts = [][]string{{nnsEvTransfer(from, to, c.name)}, {}}
			v.apply = func() {
				if n.admin != nil {
					n.adminAlt = true
				}
			}
			return v
		}
		v.evAlts = [][]string{{nnsEvTransfer(from, to, c.name)}}
		v.apply = func() {
			n.exOwners = nnsPush(n.exOwners, n.owner)
			n.exAdmins = nnsPush(n.exAdmins, n.admin)
			n.owner, n.admin, n.adminAlt = to, nil, false
			n.adminByRegistration = false
		}
		return v

	case nnsOpRenew:
		if c.badName || n == nil {
			return nnsRefuse("C10/renewed-unregistered-name", "no such name", nnsAuthNo)
		}
		auth := e.isO(n, c.signers)
		if auth == nnsAuthNo {
			return nnsRefuse(nnsRuleUnauth, "no owner/admin witness", auth)
		}
		if c.years < 1 || c.years > 10 {
			return nnsRefuse("C10/renew-bounds", "years outside 1..10", auth)
		}
		if !m.ownAlive(n, now) {
			return nnsRefuse("C10/renewed-expired-name", "name expired (available again)", auth)
		}
		newExp := n.exp + c.years*nnsYearMs
		if lvl > 1 && newExp > now+10*nnsYearMs {
			return nnsRefuse("C10/renew-bounds", "beyond ten years ahead", auth)
		}
		v := &nnsVerdict{exp: mustSucceed, auth: auth, ret: newExp}
		if auth == nnsAuthDC {
			v.exp, v.why = dontCare, "admin possibly cleared"
		}
		if !m.chainAlive(c.name, now) {
			// DON'T CARE: renewal below an expired ancestor
			v.exp, v.why = dontCare, "parent chain expired"
		}
		old := n.exp
		v.evAlts = [][]string{{nnsEvRenew(c.name, old, newExp)}}
		v.apply = func() { n.exp = newExp }
		return v

	case nnsOpSetAdmin:
		if c.badName || lvl == 1 || n == nil || n.owner == nil {
			return nnsRefuse("C11/admin-of-nothing", "no such non-TLD name", nnsAuthNo)
		}
		if !Witness(c.signers, n.owner, 0) || (c.acc != nil && !Witness(c.signers, c.acc, 0)) {
			return nnsRefuse(nnsRuleUnauth, "needs owner and new admin", nnsAuthNo)
		}
		v := &nnsVerdict{exp: mustSucceed, auth: nnsAuthYes}
		if !m.ownAlive(n, now) || !m.chainAlive(c.name, now) {
			// DON'T CARE: the recorded owner of an expired name (or below an expired
			// ancestor) appoints an admin
			v.exp, v.why = dontCare, "name or chain expired"
		}
		v.evAlts = [][]string{{nnsEvSetAdmin(c.name, n.admin, c.acc)}}
		if n.adminAlt {
			v.evAlts = append(v.evAlts, []string{nnsEvSetAdmin(c.name, nil, c.acc)})
		}
		v.apply = func() {
			n.exAdmins = nnsPush(n.exAdmins, n.admin)
			n.admin, n.adminAlt = c.acc, false
			n.adminByRegistration = false
		}
		return v

	case nnsOpUpdateSOA:
		if c.badName || n == nil {
			return nnsRefuse("C12/soa-of-unregistered-name", "not a registered name: nobody owns it", nnsAuthNo)
		}
		auth := e.isO(n, c.signers)
		if auth == nnsAuthNo {
			return nnsRefuse(nnsRuleUnauth, "no owner/admin witness", auth)
		}
		v := &nnsVerdict{exp: mustSucceed, auth: auth}
		if auth == nnsAuthDC {
			v.exp, v.why = dontCare, "admin possibly cleared"
		}
		if !m.ownAlive(n, now) || !m.chainAlive(c.name, now) {
			// DON'T CARE: SOA of an expired name (or below an expired ancestor)
			v.exp, v.why = dontCare, "name or chain expired"
		}
		v.evAlts = [][]string{{}}
		v.apply = func() {
			n.soa = c.soa
			n.soa.serial, n.soa.serialAlt = now, -1
		}
		return v

	case nnsOpAddRec, nnsOpSetRec, nnsOpDelRec:
		return e.predictRecord(c, now)
	}
	harnessf("nns: predict kind %d", c.kind)
	return nil
}

func (e *nnsEngine) predictRegister(c *nnsCall, now int64) *nnsVerdict {
	m := e.m
	lvl := nnsLevel(c.name)
	if c.badName || lvl == 1 {
		return nnsRefuse("C10/malformed-accepted", "not a registrable name", nnsAuthNo)
	}
	ownerWit := len(c.acc) == 20 && Witness(c.signers, c.acc, 0)
	parent := m.get(nnsParent(c.name))
	auth := nnsAuthNo
	if lvl == 2 {
		// "second-level names by anyone on behalf of an owner who witnesses"
		if ownerWit {
			auth = nnsAuthYes
		}
		if parent == nil {
			return nnsRefuse("C10/registered-without-tld", "TLD was never registered", auth)
		}
	} else {
		// "only by the owner/admin of the directly enclosing name"
		if !m.ownAlive(parent, now) {
			return nnsRefuse(e.deadNameRule(nnsParent(c.name), c.signers), "enclosing name not registered/expired: nobody may", nnsAuthNo)
		}
		auth = e.isO(parent, c.signers)
	}
	if auth == nnsAuthNo {
		return nnsRefuse(nnsRuleUnauth, "register without the required witnesses", auth)
	}
	if len(c.acc) != 20 {
		return nnsRefuse("C10/malformed-accepted", "invalid owner", auth)
	}
	cur := m.get(c.name)
	if m.ownAlive(cur, now) {
		return nnsRefuse("C10/registered-twice", "name is registered and unexpired", auth)
	}
	v := &nnsVerdict{exp: mustSucceed, auth: auth, ret: true}
	if auth == nnsAuthDC {
		v.exp, v.why = dontCare, "admin possibly cleared"
	}
	if lvl > 2 && !ownerWit {
		// DON'T CARE: the statement asks third+ level registrations only for the
		// enclosing name's owner/admin; whether the new owner must witness as
		// well is not said (the implementation demands it).
		v.exp, v.why = dontCare, "new owner does not witness"
	}
	if !m.chainAlive(c.name, now) {
		// DON'T CARE: some ancestor (the TLD for level 2) has expired
		v.exp, v.why = dontCare, "parent chain expired"
	}
	if c.soa.expire <= 0 {
		v.exp, v.why = dontCare, "non-positive lifetime"
	}
	from := []byte(nil)
	if cur != nil {
		from = cur.owner
	}
	v.evAlts = [][]string{{nnsEvTransfer(from, c.acc, c.name)}}
	v.apply = func() {
		nn := cur
		if nn == nil {
			nn = &nnsName{name: c.name, level: lvl, vars: []nnsRecSet{{}}}
			m.names[c.name] = nn
			m.supply++
		} else {
			nn.exOwners = nnsPush(nn.exOwners, nn.owner)
			nn.exAdmins = nnsPush(nn.exAdmins, nn.admin)
			// DON'T CARE (#11): whether the records the expired registration held
			// are dropped on take-over or served again. Both alternatives are
			// carried until a read decides.
			var vars []nnsRecSet
			hasEmpty := false
			for _, rs := range nn.vars {
				if len(rs) == 0 {
					hasEmpty = true
				}
				vars = append(vars, rs)
			}
			if !hasEmpty {
				vars = append(vars, nnsRecSet{})
				e.r.Count("probe.takeover_with_old_records")
			}
			nn.vars = vars
		}
		nn.owner, nn.admin, nn.adminAlt = c.acc, nil, false
		nn.adminByRegistration = true
		nn.exp = now + c.soa.expire*1000
		nn.soa = c.soa
		nn.soa.serial, nn.soa.serialAlt = now, -1
	}
	// "a name cannot be registered while its parent holds records for sub-names
	// of it" — depends on the alternatives of the parent's record set
	if lvl > 2 {
		v.tok = parent
		base := v.exp
		for _, rs := range parent.vars {
			x := base
			switch nnsConflict(rs, c.name) {
			case nnsTrueSub:
				x = mustRefuse
			case nnsFuzzy:
				// DON'T CARE (#13): a record name that merely ends with the new name
				// without a dot boundary (xa.b.tld vs a.b.tld). Logged, not judged.
				x = dontCare
				v.why = "#13 suffix without dot boundary"
			case nnsExactOnly:
				// DON'T CARE: the parent holds records for exactly the new name (not
				// a sub-name of it); they get shadowed by the registration.
				x = dontCare
				v.why = "parent holds records of the very name"
			}
			v.vexp = append(v.vexp, x)
			v.vapply = append(v.vapply, func() {})
		}
		v.exp = nnsCombine(v.vexp)
		if v.exp == mustRefuse {
			v.rule, v.why = "C12/registered-despite-subname-records", "parent holds records of sub-names"
		}
	}
	return v
}

func nnsCombine(l []expect) expect {
	x := l[0]
	for _, y := range l[1:] {
		if y != x {
			return dontCare
		}
	}
	return x
}

func (e *nnsEngine) predictRecord(c *nnsCall, now int64) *nnsVerdict {
	m := e.m
	if c.badName {
		return nnsRefuse("C12/malformed-accepted", "malformed name", nnsAuthNo)
	}
	var tok *nnsName
	if nnsLevel(c.name) >= 2 {
		tok = m.token(c.name, now)
	}
	if tok == nil {
		return nnsRefuse(e.deadNameRule(c.name, c.signers), "no registered unexpired enclosing name: nobody may", nnsAuthNo)
	}
	auth := e.isO(tok, c.signers)
	if auth == nnsAuthNo {
		return nnsRefuse(nnsRuleUnauth, "no owner/admin witness of the enclosing name", auth)
	}
	if c.typ == nnsTypSOA {
		return nnsRefuse("C12/soa-mutated", "SOA is not a client-writable type", auth)
	}
	if c.badData && c.kind != nnsOpDelRec {
		return nnsRefuse("C12/malformed-accepted", "malformed record data", auth)
	}
	base := mustSucceed
	why := ""
	if auth == nnsAuthDC {
		base, why = dontCare, "admin possibly cleared"
	}
	if !m.chainAlive(tok.name, now) {
		// DON'T CARE: record mutation below an expired ancestor
		base, why = dontCare, "parent chain expired"
	}
	v := &nnsVerdict{auth: auth, why: why, tok: tok, evAlts: [][]string{{}}}
	emptyDelete := true
	for _, rs := range tok.vars {
		rs := rs
		l := rs.list(c.name, c.typ)
		x := base
		var ap func()
		switch c.kind {
		case nnsOpAddRec:
			switch {
			case nnsContains(l, c.data):
				x, v.rule, v.why = mustRefuse, "C12/duplicate-value-accepted", "value already present"
			case len(l) >= nnsMaxRec:
				x, v.rule, v.why = mustRefuse, "C12/limit-exceeded", "16 values already"
			case c.typ == nnsTypCNAME && len(l) >= 1:
				x, v.rule, v.why = mustRefuse, "C12/second-cname", "one CNAME at most"
			}
			ap = func() { rs.set(c.name, c.typ, append(append([]string(nil), l...), c.data)) }
		case nnsOpSetRec:
			switch {
			case c.id < 0 || c.id >= int64(len(l)):
				x, v.rule, v.why = mustRefuse, "C12/set-of-missing-index", "no such index"
			default:
				for j, d := range l {
					if int64(j) != c.id && d == c.data {
						// "an ordered list of … distinct values"
						x, v.rule, v.why = mustRefuse, "C12/duplicate-value-accepted", "value present at another index"
					}
				}
			}
			ap = func() {
				nl := append([]string(nil), l...)
				nl[c.id] = c.data
				rs.set(c.name, c.typ, nl)
			}
		case nnsOpDelRec:
			if len(l) > 0 {
				emptyDelete = false
			}
			ap = func() { rs.set(c.name, c.typ, nil) }
		}
		v.vexp = append(v.vexp, x)
		v.vapply = append(v.vapply, ap)
	}
	v.exp = nnsCombine(v.vexp)
	if v.exp != mustRefuse {
		v.rule, v.kf = "", ""
	}
	v.apply = func() {
		old, oldAlt := tok.soa.serial, tok.soa.serialAlt
		tok.soa.serial, tok.soa.serialAlt = now, -1
		if c.kind == nnsOpDelRec && emptyDelete && old != now {
			// DON'T CARE: deleting an already empty type — "mutation" or not
			tok.soa.serialAlt = old
			if oldAlt >= 0 {
				tok.soa.serialAlt = oldAlt
			}
		}
	}
	return v
}

// ===========================================================================
// NNS engine, part: block execution, step refinement and the per-block oracles.

// nnsEvents normalises the NNS notifications of an application log.
func (e *nnsEngine) nnsEvents(evs []state.NotificationEvent) []string {
	var out []string
	for _, ev := range evs {
		if ev.ScriptHash != e.nns {
			continue
		}
		it := ev.Item.Value().([]stackitem.Item)
		switch ev.Name {
		case "Transfer":
			out = append(out, fmt.Sprintf("Transfer|%x|%x|%s|%s", ItemBytes(it[0]), ItemBytes(it[1]), ItemInt(it[2]), ItemBytes(it[3])))
		case "Renew":
			out = append(out, nnsEvRenew(string(ItemBytes(it[0])), ItemInt(it[1]).Int64(), ItemInt(it[2]).Int64()))
		case "SetAdmin":
			out = append(out, nnsEvSetAdmin(string(ItemBytes(it[0])), ItemBytes(it[1]), ItemBytes(it[2])))
		default:
			out = append(out, "?"+ev.Name)
		}
	}
	return out
}

func nnsSameStrings(a, b []string) bool {
	if len(a) != len(b) {
		return false
	}
	for i := range a {
		if a[i] != b[i] {
			return false
		}
	}
	return true
}

// block executes the pending transactions as one block dt after the previous
// one and runs all oracles.
func (e *nnsEngine) block(pending []*nnsTx, dt uint64) {
	r, w, m := e.r, e.w, e.m
	prev := int64(w.Now())
	txs := make([]*transaction.Transaction, len(pending))
	for i, bt := range pending {
		txs[i] = bt.tx
	}
	aers := w.AddBlock(txs, dt)
	r.AddBlock(len(txs), dt)
	e.blockNo++
	// the time the block really got: hooks of other checks (C16 upgrades) may
	// have put blocks of their own in front of it
	now := int64(w.Now())
	e.lastNow = now
	hot := map[string]bool{}
	flipped := 0
	for _, nm := range m.sortedNames() {
		if x := m.names[nm].exp; prev < x && x <= now {
			flipped++
			hot[nm] = true
			if m.names[nm].level > 1 {
				e.authChanged[nm] = true // its owner's authority ends here
			}
		}
	}
	if len(pending) > 1 {
		r.Inject("sched.pack")
		r.Fired("sched.pack")
	}
	if dt > 1 {
		kind := "clock.boundary"
		if dt == uint64(nnsHourMs) || dt == uint64(nnsYearMs) {
			kind = "clock.jump"
		}
		if flipped > 0 {
			// a time-dependent predicate (some name's "unexpired") changed value
			r.Fired(kind)
			r.Count("probe.block_crossed_an_expiration")
			r.Tok("clock", kind, "crossed")
		} else {
			r.Tok("clock", kind, "quiet")
		}
	}
	r.Tracef("block h=%d dt=%dms t=%d txs=%d", w.Height(), dt, now, len(pending))
	for i, bt := range pending {
		e.step(bt, aers[i], now, i, hot)
		r.Checkpoint()
	}
	// C11 what-ifs first: a foreign rule noticed by the sweep must not pre-empt them
	if r.Prop == "C11" {
		var l []string
		for nm := range e.authChanged {
			l = append(l, nm)
		}
		sort.Strings(l)
		if len(l) > 3 {
			l = l[:3]
		}
		for _, nm := range l {
			e.matrixOn(nm, true)
		}
	}
	e.authChanged = map[string]bool{}
	if e.pendingMx > 0 {
		e.matrix(e.pendingMx - 1)
		e.pendingMx = 0
	}
	e.sweep(now, hot, false)
	r.Checkpoint()
}

func (e *nnsEngine) step(bt *nnsTx, aer *state.AppExecResult, now int64, idx int, hot map[string]bool) {
	r, m := e.r, e.m
	c := bt.c
	v := e.predict(c, now)
	halted := aer.VMState == vmstate.Halt
	took := halted
	if halted && (c.kind == nnsOpRegister || c.kind == nnsOpTransfer) {
		// the documented refusal of these two is the value false
		if len(aer.Stack) != 1 {
			r.Violation("C10/result-shape", "", "%s: stack %d", c.desc(), len(aer.Stack))
		} else if b, err := aer.Stack[0].TryBool(); err != nil || !b {
			took = false
		}
	}
	gasFault := !halted && GasFault(aer.FaultException)
	outcome := "refused"
	if took {
		outcome = "ok"
	}
	if bt.gasCut && gasFault {
		r.Fired("gas.cut")
		outcome = "gasfault"
	}
	fault := bt.fault
	if strings.HasPrefix(fault, "wit.") && v.auth == nnsAuthYes {
		fault = "" // by the time it executed the signer set had become a valid one
	}
	if fault != "" {
		r.Fired(fault) // executed and reached the contract
	}
	kind := nnsOpKindName[c.kind]
	r.Tok(kind, orStr(fault, map[bool]string{true: "gas.cut", false: ""}[bt.gasCut]), outcome)
	r.Count("outcome." + kind + "." + outcome)
	r.Tracef("  tx%d %s signers=%s fault=%s expect=%s(%s) → %s %s", idx, c.desc(), signerNames(c.signers), fault,
		[]string{"refuse", "succeed", "dontcare"}[v.exp], v.why, outcome, clipStr(aer.FaultException, 70))
	got := e.nnsEvents(aer.Events)
	if !halted {
		got = nil // the ledger discards what a FAULTed transaction announced
	}
	hot[c.name] = true
	if p := nnsParent(c.name); p != "" {
		hot[p] = true
	}
	if v.tok != nil {
		hot[v.tok.name] = true
	}
	softRefusal := false
	switch {
	case v.exp == mustRefuse && took:
		r.Violation(orStr(v.rule, nnsRuleUnauth), v.kf, "%s by %s took effect although: %s", c.desc(), signerNames(c.signers), v.why)
		return
	case v.exp == mustSucceed && !took && !gasFault:
		rule := "C10/valid-call-refused"
		switch c.kind {
		case nnsOpSetAdmin:
			rule = "C11/authorised-call-refused"
		case nnsOpAddRec, nnsOpSetRec, nnsOpDelRec, nnsOpUpdateSOA:
			rule = "C12/valid-call-refused"
		}
		if strings.SplitN(rule, "/", 2)[0] == r.Prop && !r.shadow {
			r.Violation(rule, "", "%s by %s refused: %s %s", c.desc(), signerNames(c.signers), aer.VMState, aer.FaultException)
			return
		}
		// Another property's rule, and a refusal changes nothing (checked below
		// like for every refused call): the model stays in sync and the run
		// goes on, so that this property's own rules see the rest of the history.
		r.Count("foreign_refusal_not_judged." + rule)
		softRefusal = true
	}
	if !took {
		r.Count("why." + kind + "." + v.why)
	}
	if v.exp == dontCare {
		r.Count("dontcare." + kind + "." + outcome)
		if strings.HasPrefix(v.why, "#13") {
			// candidate #13: logged, not judged
			r.Count("probe.c13_register_blocked_by_suffix_without_dot_boundary." + outcome)
			r.Tracef("  note #13: %s while the parent holds a record whose name merely ends with it → %s", c.desc(), outcome)
		}
	}
	if n := m.get(c.name); n != nil && now-n.exp >= -1 && now-n.exp <= 1 {
		r.Cell("C10.boundary", fmt.Sprintf("%s/exp%+d/%s", kind, now-n.exp, outcome))
	}
	if !took {
		if len(got) != 0 {
			r.Violation("C10/refused-call-notified", "", "%s: refused but announced %v", c.desc(), got)
		}
		if v.tok != nil && !gasFault && !softRefusal {
			e.prune(v, false)
		}
		return
	}
	// took effect: notifications, returned value, model effects
	okEv := v.evAlts == nil && len(got) == 0 // nil: nothing to announce
	for _, alt := range v.evAlts {
		if nnsSameStrings(alt, got) {
			okEv = true
		}
	}
	if !okEv {
		r.Violation("C10/notification-mismatch", "", "%s: announced %v, expected one of %v", c.desc(), got, v.evAlts)
	}
	switch want := v.ret.(type) {
	case int64:
		if len(aer.Stack) != 1 || ItemInt(aer.Stack[0]).Int64() != want {
			r.Violation("C10/renew-result", "", "%s returned %v, expected %d", c.desc(), aer.Stack, want)
		}
	}
	for _, ev := range got {
		f := strings.Split(ev, "|")
		if f[0] == "Transfer" && len(f) == 5 {
			to := []byte(nil)
			fmt.Sscanf(f[2], "%x", &to)
			e.notifOwn[f[4]] = to
		}
	}
	if v.tok != nil {
		e.prune(v, true)
	}
	v.apply()
	r.Changed()
	switch c.kind {
	case nnsOpRegister, nnsOpTransfer, nnsOpSetAdmin:
		e.authChanged[c.name] = true
	}
	if c.kind == nnsOpRegister {
		r.Count("probe.registered_level_" + fmt.Sprint(nnsLevel(c.name)))
		if n := m.get(c.name); n != nil && len(n.exOwners) > 0 {
			r.Count("probe.reregistered_expired_name")
		}
	}
}

// prune drops the record-set alternatives an observed outcome contradicts and
// applies the per-alternative effects of a call that took effect.
func (e *nnsEngine) prune(v *nnsVerdict, took bool) {
	var keep []nnsRecSet
	for i, rs := range v.tok.vars {
		if i >= len(v.vexp) {
			keep = append(keep, rs)
			continue
		}
		if took && v.vexp[i] == mustRefuse || !took && v.vexp[i] == mustSucceed {
			continue
		}
		if took {
			v.vapply[i]()
		}
		keep = append(keep, rs)
	}
	if len(keep) == 0 {
		harnessf("nns: no alternative left for %s", v.tok.name)
	}
	v.tok.vars = nnsDedupe(keep)
}

func nnsDedupe(l []nnsRecSet) []nnsRecSet {
	var out []nnsRecSet
	for _, x := range l {
		dup := false
		for _, y := range out {
			if x.equal(y) {
				dup = true
			}
		}
		if !dup {
			out = append(out, x)
		}
	}
	return out
}

// ---- reading back ------------------------------------------------------------

type nnsReads struct {
	e    *nnsEngine
	list []*nnsRead
	fs   []*nnsRead // through the resolver probe
}

func (q *nnsReads) add(method string, args ...any) *nnsRead {
	rd := &nnsRead{Method: method, Args: args}
	q.list = append(q.list, rd)
	return rd
}

func (q *nnsReads) run() {
	nnsBatchRead(q.e.w, q.e.nns, q.list)
	nnsBatchRead(q.e.w, q.e.resolv, q.fs)
}

// nnsObserved is what getAllRecords answered for one name.
type nnsObserved struct {
	recs map[int64][]string // by type, ordered by id (SOA included)
	bad  string
}

func nnsParseAll(it stackitem.Item, name string) nnsObserved {
	o := nnsObserved{recs: map[int64][]string{}}
	type rec struct {
		typ, id int64
		data    string
	}
	var l []rec
	for _, x := range ItemArr(it) {
		f := ItemArr(x)
		if len(f) != 4 {
			o.bad = "record shape"
			return o
		}
		if string(ItemBytes(f[0])) != name {
			o.bad = fmt.Sprintf("record of %q listed under %q", ItemBytes(f[0]), name)
		}
		l = append(l, rec{ItemInt(f[1]).Int64(), ItemInt(f[3]).Int64(), string(ItemBytes(f[2]))})
	}
	sort.SliceStable(l, func(i, j int) bool {
		if l[i].typ != l[j].typ {
			return l[i].typ < l[j].typ
		}
		return l[i].id < l[j].id
	})
	for _, x := range l {
		if int64(len(o.recs[x.typ])) != x.id {
			o.bad = fmt.Sprintf("ids of type %s are not 0..k-1", nnsTypName(x.typ))
		}
		o.recs[x.typ] = append(o.recs[x.typ], x.data)
	}
	return o
}

func nnsItemStrings(it stackitem.Item) []string {
	var l []string
	for _, x := range ItemArr(it) {
		l = append(l, string(ItemBytes(x)))
	}
	return l
}

// expectedRecs: what alternative rs of token tok holds for record name x,
// SOA included when x is the token itself.
func nnsExpectedRecs(tok *nnsName, rs nnsRecSet, x string, serial int64) map[int64][]string {
	out := map[int64][]string{}
	for t, l := range rs[x] {
		out[t] = l
	}
	if x == tok.name {
		out[nnsTypSOA] = []string{tok.soa.data(tok.name, serial)}
	}
	return out
}

func nnsSameRecs(a, b map[int64][]string) bool {
	if len(a) != len(b) {
		return false
	}
	for t, l := range a {
		if !nnsSameStrings(l, b[t]) {
			return false
		}
	}
	return true
}

func nnsRecsStr(m map[int64][]string) string {
	var ts []int64
	for t := range m {
		ts = append(ts, t)
	}
	sort.Slice(ts, func(i, j int) bool { return ts[i] < ts[j] })
	s := ""
	for _, t := range ts {
		s += fmt.Sprintf("%s=%q ", nnsTypName(t), m[t])
	}
	return "{" + strings.TrimSpace(s) + "}"
}

// universe: every name the sweeps may look at, sorted.
func (e *nnsEngine) universe() []string {
	set := map[string]bool{}
	for n := range e.touched {
		set[n] = true
	}
	for nm, n := range e.m.names {
		if n.level > 1 {
			set[nm] = true
		}
		for _, rs := range n.vars {
			for rn := range rs {
				set[rn] = true
			}
		}
	}
	var l []string
	for n := range set {
		if nnsLevel(n) >= 2 {
			l = append(l, n)
		}
	}
	sort.Strings(l)
	return l
}

// settle resolves the model's open alternatives (#11 record sets, SOA serial
// after an empty delete, admin after a self-transfer) from what is readable.
func (e *nnsEngine) settle(t int64) {
	r, m := e.r, e.m
	q := &nnsReads{e: e}
	type job struct {
		n     *nnsName
		names []string
		all   []*nnsRead
		prop  *nnsRead
	}
	var jobs []*job
	for _, nm := range m.sortedNames() {
		n := m.names[nm]
		if n.level == 1 || !m.ownAlive(n, t) || !m.chainAlive(nm, t) {
			continue
		}
		if len(n.vars) < 2 && n.soa.serialAlt < 0 && !n.adminAlt {
			continue
		}
		j := &job{n: n}
		if len(n.vars) > 1 || n.soa.serialAlt >= 0 {
			set := map[string]bool{nm: true}
			for _, rs := range n.vars {
				for rn := range rs {
					// only names that still belong to this token
					if m.token(rn, t) == n {
						set[rn] = true
					}
				}
			}
			for rn := range set {
				j.names = append(j.names, rn)
			}
			sort.Strings(j.names)
			for _, rn := range j.names {
				j.all = append(j.all, q.add("getAllRecords", rn))
			}
		}
		if n.adminAlt {
			j.prop = q.add("properties", nm)
		}
		jobs = append(jobs, j)
	}
	if len(jobs) == 0 {
		return
	}
	q.run()
	for _, j := range jobs {
		n := j.n
		if j.prop != nil && j.prop.Item != nil {
			adm := nnsMapGet(j.prop.Item, "admin")
			switch {
			case adm == nil:
				n.admin, n.adminAlt = nil, false
				r.Count("probe.self_transfer_cleared_admin")
			case bytes.Equal(adm, n.admin):
				n.adminAlt = false
				r.Count("probe.self_transfer_kept_admin")
			}
		}
		if len(j.all) == 0 {
			continue
		}
		obs := map[string]nnsObserved{}
		readable := true
		for i, rn := range j.names {
			if j.all[i].Item == nil {
				readable = false
				break
			}
			obs[rn] = nnsParseAll(j.all[i].Item, rn)
		}
		if !readable {
			continue // the strict sweep will report it
		}
		// SOA serial first
		if n.soa.serialAlt >= 0 {
			if l := obs[n.name].recs[nnsTypSOA]; len(l) == 1 {
				switch l[0] {
				case n.soa.data(n.name, n.soa.serial):
					n.soa.serialAlt = -1
					r.Count("probe.empty_delete_refreshed_serial")
				case n.soa.data(n.name, n.soa.serialAlt):
					n.soa.serial, n.soa.serialAlt = n.soa.serialAlt, -1
					r.Count("probe.empty_delete_kept_serial")
				}
			}
		}
		if len(n.vars) > 1 {
			var keep []nnsRecSet
			for _, rs := range n.vars {
				ok := true
				for _, rn := range j.names {
					if !nnsSameRecs(nnsExpectedRecs(n, rs, rn, n.soa.serial), obs[rn].recs) {
						ok = false
					}
				}
				if ok {
					keep = append(keep, rs)
				}
			}
			if len(keep) == 0 {
				r.Violation("C12/records-mismatch", "", "%s after take-over: observed %s matches none of the alternatives %v", n.name, nnsRecsStr(obs[n.name].recs), n.vars)
				keep = n.vars[:1]
			}
			if len(keep) == 1 {
				if len(keep[0]) == 0 {
					r.Count("probe.takeover_records_dropped")
				} else {
					// candidate #11: the previous registration's records are served
					// again to the new owner
					r.Count("probe.takeover_old_records_served")
					r.Tracef("  note #11: %s was re-registered and serves the previous registration's records %v", n.name, keep[0])
				}
			}
			n.vars = keep
		}
	}
}

func nnsMapGet(it stackitem.Item, key string) []byte {
	m, ok := it.Value().([]stackitem.MapElement)
	if !ok {
		harnessf("nns: properties is %s", it.Type())
	}
	for _, el := range m {
		if string(ItemBytes(el.Key)) == key {
			return ItemBytes(el.Value)
		}
	}
	return nil
}

func nnsMapInt(it stackitem.Item, key string) int64 {
	for _, el := range it.Value().([]stackitem.MapElement) {
		if string(ItemBytes(el.Key)) == key {
			return ItemInt(el.Value).Int64()
		}
	}
	return -1
}

// ===========================================================================
// NNS engine, part: the read-API sweep after every block (layer 3) and the
// accounting invariants (layer 2).

type nnsNameReads struct {
	x                string
	avail, own, prop *nnsRead
	all              *nnsRead
	gr               map[int64]*nnsRead
	rs               map[int64]*nnsRead
	dotted           *nnsRead // resolve(x+".", TXT)
	fs               *nnsRead
}

func (e *nnsEngine) sweep(now int64, hot map[string]bool, full bool) {
	r, m := e.r, e.m
	t := now + 1 // getters run in a test VM one millisecond after the top block
	e.settle(t)
	r.Checkpoint()
	uni := e.universe()
	pick := map[string]bool{}
	for i, x := range uni {
		switch {
		case full, hot[x]:
			pick[x] = true
		case len(uni) > 0 && (i == (2*e.blockNo)%len(uni) || i == (2*e.blockNo+1)%len(uni)):
			pick[x] = true // rotating sample of everything else
		default:
			for p := nnsParent(x); p != ""; p = nnsParent(p) {
				if hot[p] {
					pick[x] = true // its chain or its enclosing registered name changed
				}
			}
		}
	}
	// names whose resolution passes through a picked name
	for _, x := range uni {
		if pick[x] {
			continue
		}
		if tok := m.token(x, t); tok != nil {
			for _, rs := range tok.vars {
				if len(rs.list(x, nnsTypCNAME)) > 0 {
					pick[x] = true
				}
			}
		}
	}
	rot := nnsRecTypes[e.blockNo%len(nnsRecTypes)]
	q := &nnsReads{e: e}
	var reads []*nnsNameReads
	for _, x := range uni {
		if !pick[x] {
			continue
		}
		nr := &nnsNameReads{x: x, gr: map[int64]*nnsRead{}, rs: map[int64]*nnsRead{}}
		nr.avail = q.add("isAvailable", x)
		nr.own = q.add("ownerOf", []byte(x))
		nr.prop = q.add("properties", []byte(x))
		tok := m.token(x, t)
		nr.all = q.add("getAllRecords", x)
		types := map[int64]bool{rot: true}
		if tok != nil {
			for _, rs := range tok.vars {
				for ty := range rs[x] {
					types[ty] = true
				}
			}
			if tok.name == x && (full || hot[x]) {
				types[nnsTypSOA] = true
			}
		}
		for _, ty := range []int64{nnsTypA, nnsTypCNAME, nnsTypSOA, nnsTypTXT, nnsTypAAAA} {
			if types[ty] {
				nr.gr[ty] = q.add("getRecords", x, ty)
				if ty != nnsTypSOA {
					nr.rs[ty] = q.add("resolve", x, ty)
				}
			}
		}
		if nr.rs[nnsTypTXT] == nil {
			nr.rs[nnsTypTXT] = q.add("resolve", x, nnsTypTXT)
		}
		if full || (e.blockNo+len(x))%3 == 0 {
			nr.dotted = q.add("resolve", x+".", nnsTypTXT)
		}
		if nnsLevel(x) == 2 && nnsTLDOf(x) == "neofs" {
			nr.fs = &nnsRead{Method: "resolve", Args: []any{x[:strings.IndexByte(x, '.')]}}
			q.fs = append(q.fs, nr.fs)
		}
		reads = append(reads, nr)
	}
	// TLDs
	tldAvail := map[string]*nnsRead{}
	for _, tld := range e.tlds {
		if full || hot[tld] || e.blockNo%4 == 0 {
			tldAvail[tld] = q.add("isAvailable", tld)
		}
	}
	// accounts
	var supply *nnsRead
	type accReads struct {
		a        nnsActor
		bal, tok *nnsRead
	}
	var accs []accReads
	if full || r.Prop == "C10" || e.blockNo%3 == 0 {
		supply = q.add("totalSupply")
		all := append(append([]nnsActor{}, e.actors...), e.noPay, nnsActor{name: "stranger", hash: e.strang.GetScriptHash().BytesBE()})
		for _, a := range all {
			u, _ := util.Uint160DecodeBytesBE(a.hash)
			accs = append(accs, accReads{a: a, bal: q.add("balanceOf", u), tok: q.add("tokensOf", u)})
		}
	}
	q.run()
	r.CountN("reads", int64(len(q.list)+len(q.fs)))

	for _, nr := range reads {
		e.checkLifecycle(nr, t)
		e.checkRecords(nr, t)
		for _, ty := range []int64{nnsTypA, nnsTypCNAME, nnsTypTXT, nnsTypAAAA} {
			if rd := nr.rs[ty]; rd != nil {
				e.checkResolve(nr.x, ty, rd, t, "")
			}
		}
		if nr.dotted != nil {
			e.checkResolve(nr.x, nnsTypTXT, nr.dotted, t, ".")
		}
		if nr.fs != nil {
			e.checkFS(nr, t)
		}
	}
	for _, tld := range e.tlds {
		rd := tldAvail[tld]
		if rd == nil {
			continue
		}
		n := m.get(tld)
		switch {
		case n == nil:
			if rd.Item == nil || !nnsBool(rd) {
				r.Violation("C10/available-mismatch", "", "isAvailable(%s): unregistered TLD not available (%s)", tld, rd.Fault)
			}
		case m.ownAlive(n, t):
			if rd.Item == nil || nnsBool(rd) {
				r.Violation("C10/available-mismatch", "", "isAvailable(%s): registered unexpired TLD reported available (%s)", tld, rd.Fault)
			}
		default:
			// DON'T CARE (#12): isAvailable of an *expired* TLD — the statement
			// speaks about names below TLDs. Logged.
			if rd.Item == nil {
				r.Count("probe.isavailable_expired_tld_faults")
			} else {
				r.Count("probe.isavailable_expired_tld_answers")
			}
		}
	}
	if supply != nil {
		if supply.Item == nil || ItemInt(supply.Item).Int64() != m.supply {
			r.Violation("C10/supply-mismatch", "", "totalSupply %s, %d non-TLD names were ever registered", nnsIntStr(supply), m.supply)
		}
		sum := int64(0)
		for _, ar := range accs {
			var want []string
			for _, nm := range m.sortedNames() {
				if n := m.names[nm]; n.level > 1 && bytes.Equal(n.owner, ar.a.hash) {
					want = append(want, nm)
				}
			}
			if ar.bal.Item == nil || ItemInt(ar.bal.Item).Int64() != int64(len(want)) {
				r.Violation("C10/balance-mismatch", "", "balanceOf(%s) = %s (%s), model records %d names %v", ar.a.name, nnsIntStr(ar.bal), ar.bal.Fault, len(want), want)
			} else {
				sum += int64(len(want))
			}
			var got []string
			if ar.tok.Item != nil {
				got = nnsItemStrings(ar.tok.Item)
				sort.Strings(got)
			}
			if ar.tok.Item == nil || !nnsSameStrings(got, want) {
				r.Violation("C10/tokensOf-mismatch", "", "tokensOf(%s) = %v, model %v", ar.a.name, got, want)
			}
		}
		// Σ balanceOf over *all* owners: the balances in raw storage (anchor:
		// prefix 0x01) must add up to totalSupply, not only those of known actors
		raw := new(big.Int)
		for _, kv := range e.w.Scan(e.nnsID, []byte{0x01}) {
			raw.Add(raw, bigint.FromBytes(kv.V))
		}
		if raw.Sign() == 0 && m.supply > 0 && sum == m.supply {
			// nothing under the documented prefix although tokens exist and the
			// read API accounts for all of them: another layout is in use, the
			// raw total does not apply
			r.Count("raw_layout_unrecognised.nns-balances")
			raw.SetInt64(m.supply)
		}
		if raw.Int64() != m.supply || sum != m.supply {
			r.Violation("C10/supply-mismatch", "", "Σ balanceOf: storage %s, known owners %d, totalSupply/model %d", raw, sum, m.supply)
		}
		for _, nm := range m.sortedNames() {
			if n := m.names[nm]; n.level > 1 && !bytes.Equal(e.notifOwn[nm], n.owner) {
				r.Violation("C10/transfer-replay-mismatch", "", "%s: replay of Transfer notifications gives owner %x, model %x", nm, e.notifOwn[nm], n.owner)
			}
		}
	}
}

func nnsReverse(b []byte) []byte {
	o := make([]byte, len(b))
	for i := range b {
		o[len(b)-1-i] = b[i]
	}
	return o
}

func nnsBool(rd *nnsRead) bool {
	b, err := rd.Item.TryBool()
	if err != nil {
		harnessf("nns: %s did not return a boolean", rd.Method)
	}
	return b
}

func (e *nnsEngine) finalSweep() {
	hot := map[string]bool{}
	e.sweep(int64(e.w.Now()), hot, true)
	e.r.Checkpoint()
}

// checkLifecycle: isAvailable, ownerOf, properties of one name (C10).
func (e *nnsEngine) checkLifecycle(nr *nnsNameReads, t int64) {
	r, m := e.r, e.m
	x := nr.x
	n := m.get(x)
	lvl := nnsLevel(x)
	chain := m.chainAlive(x, t)
	// --- isAvailable
	switch {
	case m.get(nnsTLDOf(x)) == nil:
		// DON'T CARE: names under a TLD that never existed
	case !chain:
		// DON'T CARE: isAvailable below a missing/expired ancestor. The statement
		// can be read both ways ("until its expiration time" of the name itself vs.
		// the effective end of the registration); register refuses in this zone.
		if nr.avail.Item != nil && nnsBool(nr.avail) {
			if m.ownAlive(n, t) {
				r.Count("probe.isavailable_true_for_running_name_below_expired_ancestor")
			} else {
				r.Count("probe.isavailable_true_but_unregistrable")
			}
		}
	default:
		yes, no := false, false
		conflictOnly := false
		if m.ownAlive(n, t) {
			no = true
		} else if lvl == 2 {
			yes = true
		} else {
			for _, rs := range m.get(nnsParent(x)).vars {
				switch nnsConflict(rs, x) {
				case nnsTrueSub:
					no = true
					conflictOnly = true
				case nnsNoConflict:
					yes = true
				default:
					// DON'T CARE: #13 (suffix without dot boundary) and records of the
					// very name held by the parent
					yes, no = true, true
					r.Count("probe.isavailable_in_soft_conflict_zone")
				}
			}
		}
		if nr.avail.Item == nil {
			r.Violation("C10/available-mismatch", "", "isAvailable(%s) refused at t=%d: %s", x, t, nr.avail.Fault)
		} else if got := nnsBool(nr.avail); got && !yes || !got && !no {
			exp := int64(-1)
			if n != nil {
				exp = n.exp
			}
			rule := "C10/available-mismatch"
			if got && !yes && conflictOnly {
				// unavailable only because the parent holds records of sub-names
				// of it: that clause is C12's
				rule = "C12/available-despite-subname-records"
			}
			r.Violation(rule, "", "isAvailable(%s) = %v at t=%d (model: expiration %d)", x, got, t, exp)
		}
	}
	if n != nil && t-n.exp >= -1 && t-n.exp <= 2 && nr.avail.Item != nil {
		r.Cell("C10.boundary", fmt.Sprintf("isAvailable/exp%+d/%v", t-n.exp, nnsBool(nr.avail)))
	}
	// --- ownerOf / properties answer ⇔ registered, unexpired, whole chain unexpired
	answers := n != nil && m.ownAlive(n, t) && chain
	if !answers {
		if nr.own.Item != nil || nr.prop.Item != nil {
			r.Violation("C10/answered-for-dead-name", "", "ownerOf/properties(%s) answered at t=%d although the name or its chain is unregistered/expired", x, t)
		}
		return
	}
	if nr.own.Item == nil || !bytes.Equal(ItemBytes(nr.own.Item), n.owner) {
		r.Violation("C10/ownerOf-mismatch", "", "ownerOf(%s) = %v (%s), model %s", x, nr.own.Item, nr.own.Fault, e.actorName(n.owner))
	}
	if nr.prop.Item == nil {
		r.Violation("C10/properties-mismatch", "", "properties(%s) refused: %s", x, nr.prop.Fault)
		return
	}
	adm := nnsMapGet(nr.prop.Item, "admin")
	admOK := bytes.Equal(adm, n.admin) || (n.adminAlt && adm == nil)
	if string(nnsMapGet(nr.prop.Item, "name")) != x || nnsMapInt(nr.prop.Item, "expiration") != n.exp || !admOK {
		rule := "C10/properties-mismatch"
		if string(nnsMapGet(nr.prop.Item, "name")) == x && nnsMapInt(nr.prop.Item, "expiration") == n.exp && n.adminByRegistration {
			// only the admin differs and no transfer is involved ("transfer …
			// clears the admin" is C10's clause; who is admin otherwise is C11's)
			rule = "C11/admin-of-nothing"
		}
		r.Violation(rule, "", "properties(%s) = name %q expiration %d admin %x, model expiration %d admin %x",
			x, nnsMapGet(nr.prop.Item, "name"), nnsMapInt(nr.prop.Item, "expiration"), adm, n.exp, n.admin)
	}
}

// checkRecords: getAllRecords and getRecords of one name (C12).
func (e *nnsEngine) checkRecords(nr *nnsNameReads, t int64) {
	r, m := e.r, e.m
	x := nr.x
	tok := m.token(x, t)
	if tok == nil {
		// "records become unreachable when the name expires": refusal or nothing
		if nr.all.Item != nil && len(ItemArr(nr.all.Item)) > 0 {
			r.Violation("C12/records-of-dead-name-reachable", "", "getAllRecords(%s) = %d records, no registered unexpired name encloses it", x, len(ItemArr(nr.all.Item)))
		}
		for _, ty := range []int64{nnsTypA, nnsTypCNAME, nnsTypSOA, nnsTypTXT, nnsTypAAAA} {
			rd := nr.gr[ty]
			if rd != nil && rd.Item != nil && len(ItemArr(rd.Item)) > 0 {
				r.Violation("C12/records-of-dead-name-reachable", "", "getRecords(%s, %s) = %v", x, nnsTypName(ty), nnsItemStrings(rd.Item))
			}
		}
		return
	}
	chainDead := !m.chainAlive(tok.name, t)
	var expected []map[int64][]string
	for _, rs := range tok.vars {
		expected = append(expected, nnsExpectedRecs(tok, rs, x, tok.soa.serial))
		if tok.soa.serialAlt >= 0 {
			expected = append(expected, nnsExpectedRecs(tok, rs, x, tok.soa.serialAlt))
		}
	}
	anyRecs := false
	for _, ex := range expected {
		if len(ex) > 0 {
			anyRecs = true
		}
	}
	if nr.all.Item == nil {
		// DON'T CARE: reads below an expired ancestor may refuse; a name that has
		// no records at all may be answered by a refusal instead of an empty list
		if !chainDead && anyRecs {
			r.Violation("C12/records-mismatch", "", "getAllRecords(%s) refused (%s); it belongs to %s which holds %s", x, nr.all.Fault, tok.name, nnsRecsStr(expected[0]))
		}
	} else {
		obs := nnsParseAll(nr.all.Item, x)
		ok := obs.bad == ""
		if ok {
			ok = false
			for _, ex := range expected {
				if nnsSameRecs(ex, obs.recs) {
					ok = true
				}
			}
		}
		if !ok {
			rule := "C12/records-mismatch"
			if obs.bad == "" && x == tok.name && nnsOnlySOADiffers(expected, obs.recs) {
				rule = "C12/soa-mismatch"
			}
			r.Violation(rule, "", "getAllRecords(%s) = %s %s, model %s (held by %s)", x, nnsRecsStr(obs.recs), obs.bad, nnsRecsStr(expected[0]), tok.name)
		}
	}
	var types []int64
	for ty := range nr.gr {
		types = append(types, ty)
	}
	sort.Slice(types, func(i, j int) bool { return types[i] < types[j] })
	for _, ty := range types {
		rd := nr.gr[ty]
		if rd.Item == nil {
			wanted := false
			for _, ex := range expected {
				if len(ex[ty]) > 0 {
					wanted = true
				}
			}
			if !chainDead && wanted {
				r.Violation("C12/records-mismatch", "", "getRecords(%s, %s) refused (%s); model %q (held by %s)", x, nnsTypName(ty), rd.Fault, expected[0][ty], tok.name)
			}
			continue
		}
		got := nnsItemStrings(rd.Item)
		ok := false
		for _, ex := range expected {
			if nnsSameStrings(ex[ty], got) {
				ok = true
			}
		}
		if !ok {
			rule := "C12/records-mismatch"
			if ty == nnsTypSOA {
				rule = "C12/soa-mismatch"
			}
			r.Violation(rule, "", "getRecords(%s, %s) = %q, model %q (held by %s)", x, nnsTypName(ty), got, expected[0][ty], tok.name)
		}
	}
}

func nnsOnlySOADiffers(expected []map[int64][]string, obs map[int64][]string) bool {
	for _, ex := range expected {
		a, b := map[int64][]string{}, map[int64][]string{}
		for t, l := range ex {
			if t != nnsTypSOA {
				a[t] = l
			}
		}
		for t, l := range obs {
			if t != nnsTypSOA {
				b[t] = l
			}
		}
		if nnsSameRecs(a, b) {
			return true
		}
	}
	return false
}

// nnsWalk is the model's view of resolve(x, typ) under record-set alternative vi.
type nnsWalk struct {
	res      []string // typ-records along the chain, in order
	first    []string // typ-records of x alone
	links    int      // links followed until a name without CNAME; 99 = four or more (or a cycle)
	dangling int      // index of the first unreachable node (-1 none; 0 = x itself)
	chainBad bool     // x's enclosing name lies below an expired ancestor
	// the walk ended at a name whose own registration runs but whose ancestor
	// chain has expired: what becomes of records there is C10's clause about
	// parent chains, C12 is silent
	deadChain bool
	ambig     int // tokens on the path with open alternatives
}

func (e *nnsEngine) walk(x string, typ int64, t int64, vi int) nnsWalk {
	m := e.m
	wk := nnsWalk{dangling: -1}
	cur := x
	seen := map[*nnsName]bool{}
	for node := 0; ; node++ {
		tok := m.token(cur, t)
		if tok == nil || !m.chainAlive(tok.name, t) {
			wk.dangling = node
			wk.chainBad = tok != nil && node == 0
			wk.deadChain = tok != nil
			wk.links = node
			return wk
		}
		if len(tok.vars) > 1 && !seen[tok] {
			seen[tok] = true
			wk.ambig++
		}
		rs := tok.vars[0]
		if vi < len(tok.vars) {
			rs = tok.vars[vi]
		}
		l := rs.list(cur, typ)
		wk.res = append(wk.res, l...)
		if node == 0 {
			wk.first = append([]string(nil), l...)
		}
		cn := rs.list(cur, nnsTypCNAME)
		if len(cn) == 0 {
			wk.links = node
			return wk
		}
		if node == 4 {
			wk.links = 99
			return wk
		}
		cur = cn[0]
	}
}

// checkResolve: "the T-records of the name followed by those reached through a
// CNAME chain of up to two links; fails on chains of four or more".
func (e *nnsEngine) checkResolve(x string, typ int64, rd *nnsRead, t int64, suffix string) {
	r := e.r
	var got []string
	if rd.Item != nil {
		got = nnsItemStrings(rd.Item)
	}
	what := fmt.Sprintf("resolve(%s%s, %s)", x, suffix, nnsTypName(typ))
	reasons := ""
	for vi := 0; vi < 2; vi++ {
		wk := e.walk(x, typ, t, vi)
		ok := false
		switch {
		case wk.dangling == 0 && wk.chainBad:
			// DON'T CARE: below an expired ancestor
			ok = true
		case wk.dangling == 0:
			// unreachable: refusal or nothing
			ok = rd.Item == nil || len(got) == 0
			reasons = "no registered unexpired enclosing name"
		case typ == nnsTypCNAME:
			// DON'T CARE: whether CNAME records themselves are followed (the tests
			// expect the name's own CNAME only; the statement's wording would also
			// allow the chain's)
			ok = rd.Item != nil && (nnsSameStrings(got, wk.first) || (wk.dangling < 0 && wk.links <= 2 && nnsSameStrings(got, wk.res)))
			reasons = fmt.Sprintf("own CNAME %q", wk.first)
		case wk.links >= 4:
			ok = rd.Item == nil
			reasons = "chain of four or more links must fail"
			r.Count("probe.resolve_chain_4plus")
		case wk.dangling > 0:
			// DON'T CARE: a CNAME pointing at a name nobody holds — refusal or what
			// was gathered so far
			ok = rd.Item == nil || nnsSameStrings(got, wk.res) || wk.deadChain
			reasons = fmt.Sprintf("dangling after %d links, gathered %q", wk.dangling, wk.res)
			r.Count("probe.resolve_dangling_cname")
		case wk.links == 3:
			// DON'T CARE: exactly three links (≤2 succeed, ≥4 fail)
			ok = rd.Item == nil || nnsSameStrings(got, wk.res)
			reasons = fmt.Sprintf("three links, %q", wk.res)
			r.Count("probe.resolve_chain_3")
		default:
			ok = rd.Item != nil && nnsSameStrings(got, wk.res)
			reasons = fmt.Sprintf("%d links, %q", wk.links, wk.res)
			if wk.links > 0 {
				r.Count(fmt.Sprintf("probe.resolve_chain_%d", wk.links))
			}
		}
		if ok {
			cls := fmt.Sprint(wk.links)
			switch {
			case wk.dangling == 0:
				cls = "unreachable"
			case wk.dangling > 0:
				cls = "dangling"
			case wk.links >= 4:
				cls = "4+"
			}
			r.Cell("C12.resolve", fmt.Sprintf("%s/links=%s/%s", nnsTypName(typ), cls, map[bool]string{true: "answered", false: "refused"}[rd.Item != nil]))
			return
		}
		if wk.ambig == 0 {
			break
		}
		if wk.ambig > 1 {
			r.Count("skipped.resolve_with_several_open_alternatives")
			return
		}
	}
	r.Violation("C12/resolve-mismatch", "", "%s = %q (%s), model: %s", what, got, rd.Fault, reasons)
}

// checkFS: common.ResolveFSContract as other contracts use it agrees with the
// model of "<label>.neofs" TXT.
func (e *nnsEngine) checkFS(nr *nnsNameReads, t int64) {
	r := e.r
	wk := e.walk(nr.x, nnsTypTXT, t, 0)
	if wk.ambig > 0 || wk.chainBad || wk.links == 3 || wk.dangling > 0 {
		return // DON'T CARE zones of resolve carry over
	}
	mustFail := wk.dangling == 0 || wk.links >= 4 || len(wk.res) == 0
	if mustFail {
		if nr.fs.Item != nil {
			r.Violation("C12/fs-resolve-mismatch", "", "ResolveFSContract(%s) = %x, model: nothing to resolve", nr.x, ItemBytes(nr.fs.Item))
		}
		return
	}
	raw, err := hex.DecodeString(wk.res[0])
	if err != nil || len(raw) != 20 {
		return // DON'T CARE: first TXT record is not a contract hash
	}
	want := nnsReverse(raw)
	if nr.fs.Item == nil || !bytes.Equal(ItemBytes(nr.fs.Item), want) {
		r.Violation("C12/fs-resolve-mismatch", "", "ResolveFSContract(%s) = %v (%s), first TXT record is %s", nr.x, nr.fs.Item, nr.fs.Fault, wk.res[0])
	} else {
		r.Count("probe.fs_resolve_agrees")
	}
}

func nnsIntStr(rd *nnsRead) string {
	if rd.Item == nil {
		return "refused"
	}
	return ItemInt(rd.Item).String()
}

// ===========================================================================
// NNS engine, part: C11 what-if matrix — every mutating method × signer class
// against the state the history has reached; nothing is committed.

type nnsClass struct {
	name    string
	signers []Signer
	who     []byte // the account the class stands for (owner argument of register)
	fault   string
}

// classes builds the signer classes of the C11 statement relative to name x.
func (e *nnsEngine) classes(x string) []nnsClass {
	w, m := e.w, e.m
	n := m.get(x)
	var out []nnsClass
	seen := map[string]bool{}
	cmt := string(w.Committee.Hash.BytesBE())
	// one class per account, named after the strongest role the account holds
	// (owner > admin > parent owner > parent admin > former owner > former admin)
	add := func(name string, h []byte, fault string) bool {
		if h == nil || seen[string(h)] {
			return false
		}
		s, ok := e.signerOf(h)
		if !ok {
			return false
		}
		seen[string(h)] = true
		if string(h) == cmt {
			name += "=committee"
		}
		out = append(out, nnsClass{name: name, signers: []Signer{s}, who: h, fault: fault})
		return true
	}
	if n != nil {
		if n.owner != nil && add("owner", n.owner, "") {
			s, _ := e.signerOf(n.owner)
			out = append(out, nnsClass{name: "owner:None", signers: []Signer{s.WithScope(transaction.None)}, who: n.owner, fault: "wit.scope"})
			out = append(out, nnsClass{name: "owner:CBE", signers: []Signer{s.WithScope(transaction.CalledByEntry)}, who: n.owner})
		}
		if !n.adminAlt {
			add("admin", n.admin, "")
		}
	}
	if p := m.get(nnsParent(x)); p != nil && p.level > 1 {
		add("parent-owner", p.owner, "wit.other_key")
		if !p.adminAlt {
			add("parent-admin", p.admin, "wit.other_key")
		}
	}
	if n != nil && !n.adminAlt {
		for _, h := range n.exOwners {
			if add("ex-owner", h, "wit.other_key") {
				break
			}
		}
		for _, h := range n.exAdmins {
			if add("ex-admin", h, "wit.other_key") {
				break
			}
		}
	}
	sk := e.strang.GetScriptHash().BytesBE()
	out = append(out, nnsClass{name: "stranger", signers: []Signer{Single("stranger", e.strang)}, who: sk, fault: "wit.missing"})
	if !seen[cmt] {
		out = append(out, nnsClass{name: "committee", signers: []Signer{w.Committee}, who: w.Committee.Hash.BytesBE()})
	}
	if w.N > 1 {
		out = append(out, nnsClass{name: "member0", signers: []Signer{Single("member0", w.Privs[0])}, who: w.Privs[0].GetScriptHash().BytesBE(), fault: "wit.single"})
	}
	if w.Alphabet.Hash != w.Committee.Hash {
		out = append(out, nnsClass{name: "alphabet", signers: []Signer{w.Alphabet}, who: w.Alphabet.Hash.BytesBE(), fault: "wit.swap_threshold"})
	}
	out = append(out, nnsClass{name: "nobody", who: sk, fault: "wit.missing"})
	return out
}

// matrix runs every mutating method under every signer class on the k-th name
// of the universe (TLDs included).
func (e *nnsEngine) matrix(k int) {
	m := e.m
	names := append(append([]string{}, e.tlds...), e.registered()...)
	// prefer names with a history: put those with ex-owners/admins first
	var rich, rest []string
	for _, nm := range names {
		if n := m.get(nm); n != nil && (len(n.exOwners) > 0 || n.admin != nil) {
			rich = append(rich, nm)
		} else {
			rest = append(rest, nm)
		}
	}
	names = append(rich, rest...)
	e.matrixOn(names[k%len(names)], false)
}

// matrixOn: the what-if matrix on name x; mini = only the methods by which a
// former owner/admin could still exercise authority (run after every change
// of ownership, admin or liveness when C11 is being decided).
func (e *nnsEngine) matrixOn(x string, mini bool) {
	r, w := e.r, e.w
	now := int64(w.Now()) + 1
	e.mxSeq++
	soa := nnsSOA{email: "m@x.io", refresh: 7, retry: 8, expire: 3600, ttl: 9}
	u := e.actors[e.mxSeq%4] // receiver / new admin: somebody without a role on x
	for i := 0; i < 4; i++ {
		cand := e.actors[(e.mxSeq+i)%4]
		clean := true
		for _, nm := range []string{x, nnsParent(x)} {
			if n := e.m.get(nm); n != nil && (string(n.owner) == string(cand.hash) || string(n.admin) == string(cand.hash)) {
				clean = false
			}
		}
		if clean {
			u = cand
			break
		}
	}
	type tmpl struct {
		label string
		c     nnsCall
		// ownerIsClass: the account argument is the acting class itself
		ownerIsClass bool
		// coSign: the new admin signs along (the class stands for the owner part)
		coSign bool
	}
	var ts []tmpl
	ts = append(ts, tmpl{label: "registerTLD", c: nnsCall{kind: nnsOpRegisterTLD, name: map[bool]string{true: x, false: "zzz"}[nnsLevel(x) == 1], soa: soa}})
	ts = append(ts, tmpl{label: "setPrice", c: nnsCall{kind: nnsOpSetPrice, price: 5_0000_0000}})
	ts = append(ts, tmpl{label: "renew", c: nnsCall{kind: nnsOpRenew, name: x, years: 1}})
	ts = append(ts, tmpl{label: "updateSOA", c: nnsCall{kind: nnsOpUpdateSOA, name: x, soa: soa}})
	if nnsLevel(x) >= 2 {
		ts = append(ts, tmpl{label: fmt.Sprintf("register.l%d", nnsLevel(x)), c: nnsCall{kind: nnsOpRegister, name: x, soa: soa}, ownerIsClass: true})
		if nnsLevel(x) < 4 {
			ts = append(ts, tmpl{label: "register.child", c: nnsCall{kind: nnsOpRegister, name: "b." + x, soa: soa}, ownerIsClass: true})
		}
		ts = append(ts, tmpl{label: "transfer", c: nnsCall{kind: nnsOpTransfer, name: x, acc: u.hash, accName: u.name}})
		ts = append(ts, tmpl{label: "setAdmin", c: nnsCall{kind: nnsOpSetAdmin, name: x, acc: u.hash, accName: u.name}, coSign: true})
		ts = append(ts, tmpl{label: "setAdmin.alone", c: nnsCall{kind: nnsOpSetAdmin, name: x, acc: u.hash, accName: u.name}})
		ts = append(ts, tmpl{label: "setAdmin.null", c: nnsCall{kind: nnsOpSetAdmin, name: x, accName: "null"}})
		ts = append(ts, tmpl{label: "addRecord", c: nnsCall{kind: nnsOpAddRec, name: x, typ: nnsTypTXT, data: fmt.Sprintf("mx-%d", e.mxSeq)}})
		ts = append(ts, tmpl{label: "addRecord.sub", c: nnsCall{kind: nnsOpAddRec, name: "x." + x, typ: nnsTypA, data: "9.9.9.9"}})
		ts = append(ts, tmpl{label: "setRecord", c: nnsCall{kind: nnsOpSetRec, name: x, typ: nnsTypTXT, id: 0, data: fmt.Sprintf("mx-set-%d", e.mxSeq)}})
		ts = append(ts, tmpl{label: "deleteRecords", c: nnsCall{kind: nnsOpDelRec, name: x, typ: nnsTypTXT}})
	}
	if mini {
		var sel []tmpl
		for _, tp := range ts {
			switch tp.label {
			case "renew", "transfer", "setAdmin.null", "addRecord", "register.child":
				sel = append(sel, tp)
			}
		}
		ts = sel
	}
	classes := e.classes(x)
	r.Tracef("  matrix on %s (%d methods × %d signer classes) at t=%d", x, len(ts), len(classes), now)
	for _, tp := range ts {
		for _, cl := range classes {
			c := tp.c
			c.signers = cl.signers
			if tp.ownerIsClass {
				c.acc, c.accName = cl.who, cl.name
			}
			if tp.coSign {
				c.signers = append(append([]Signer{}, cl.signers...), *u.signer)
			}
			c.signers = nnsUniqueSigners(c.signers)
			v := e.predict(&c, now)
			p := w.WhatIf(c.script(e.nns), c.signers, 1)
			r.Count("whatif")
			halted := p.State == vmstate.Halt
			took := halted
			if halted && (c.kind == nnsOpRegister || c.kind == nnsOpTransfer) {
				if len(p.Stack) != 1 {
					took = false
				} else if b, err := p.Stack[0].TryBool(); err != nil || !b {
					took = false
				}
			}
			nnsOps, nnsEvs := 0, 0
			for _, op := range p.Ops {
				if op.ID == e.nnsID {
					nnsOps++
				}
			}
			if halted {
				nnsEvs = len(e.nnsEvents(p.Events))
			}
			if cl.fault != "" && v.auth != nnsAuthYes {
				r.Inject(cl.fault)
				r.Fired(cl.fault)
			}
			verdict := ""
			switch {
			case v.exp == mustRefuse && took:
				r.Violation(orStr(v.rule, nnsRuleUnauth), v.kf, "what-if %s by %s on %s HALTed with effect although: %s", c.desc(), cl.name, x, v.why)
				verdict = "VIOLATION"
			case v.exp == mustRefuse && (nnsOps > 0 || nnsEvs > 0):
				// C11 speaks of *unauthorised* attempts; a call refused for another
				// reason (name taken, malformed, …) that leaves a trace is C10's
				rule := "C11/refusal-changed-state"
				if v.auth != nnsAuthNo {
					rule = "C10/refused-call-changed-state"
				}
				r.Violation(rule, "", "what-if %s by %s refused (%s) but left %d NNS storage changes and %d notifications", c.desc(), cl.name, p.State, nnsOps, nnsEvs)
				verdict = "VIOLATION"
			case v.exp == mustSucceed && !took && !GasFault(p.Fault):
				r.Violation("C11/authorised-call-refused", "", "what-if %s by %s on %s refused: %s %s", c.desc(), cl.name, x, p.State, p.Fault)
				verdict = "VIOLATION"
			case v.exp == mustRefuse && v.auth == nnsAuthNo && halted:
				verdict = "unauthorised-false"
			case v.exp == mustRefuse && v.auth == nnsAuthNo:
				verdict = "unauthorised-fault"
			case v.exp == mustRefuse:
				verdict = "authorised-but-invalid-refused"
			case v.exp == mustSucceed:
				verdict = "authorised-halt"
			case took:
				verdict = "dontcare-halt"
			default:
				verdict = "dontcare-refused"
			}
			r.Cell("C11.matrix", tp.label+"/"+cl.name+"/"+verdict)
		}
	}
}

// nnsUniqueSigners drops repeated accounts (the first entry wins, as in
// World.Tx: a ledger refuses duplicated signers).
func nnsUniqueSigners(l []Signer) []Signer {
	var out []Signer
	for _, s := range l {
		dup := false
		for _, o := range out {
			if o.Hash == s.Hash {
				dup = true
			}
		}
		if !dup {
			out = append(out, s)
		}
	}
	return out
}

// ===========================================================================
// Batched reads for the NNS engine: many getter invocations in ONE throw-away
// VM, each wrapped into TRY/CATCH so that a refusal (THROW) of one getter
// becomes a marker item instead of killing the whole script. Hard VM faults
// (which no TRY catches) make the batch fall back to one VM per call.

// nnsRead is one getter invocation and, after nnsBatchRead, its result.
type nnsRead struct {
	Method string
	Args   []any
	Item   stackitem.Item // nil if the call was refused
	Fault  string         // "" if it answered
}

const nnsFaultMarker = "\xff\xfeNNS-REFUSED"

func nnsTryWrap(body []byte) []byte {
	// TRY_L catch finally(0) | body | ENDTRY_L →end | catch: DROP PUSHDATA1 marker ENDTRY_L →end | end
	marker := []byte(nnsFaultMarker)
	catch := []byte{byte(opcode.DROP), byte(opcode.PUSHDATA1), byte(len(marker))}
	catch = append(catch, marker...)
	const tryLen, endLen = 9, 5
	out := make([]byte, 0, tryLen+len(body)+2*endLen+len(catch))
	out = append(out, byte(opcode.TRYL))
	out = binary.LittleEndian.AppendUint32(out, uint32(tryLen+len(body)+endLen))
	out = binary.LittleEndian.AppendUint32(out, 0)
	out = append(out, body...)
	out = append(out, byte(opcode.ENDTRYL))
	out = binary.LittleEndian.AppendUint32(out, uint32(endLen+len(catch)+endLen))
	out = append(out, catch...)
	out = append(out, byte(opcode.ENDTRYL))
	out = binary.LittleEndian.AppendUint32(out, uint32(endLen))
	return out
}

// nnsBatchRead executes the getters against the current state (block time
// now+1 ms, like World.Read) and fills in Item/Fault.
func nnsBatchRead(w *World, h util.Uint160, reads []*nnsRead) {
	const chunk = 48
	for lo := 0; lo < len(reads); lo += chunk {
		hi := lo + chunk
		if hi > len(reads) {
			hi = len(reads)
		}
		part := reads[lo:hi]
		var script []byte
		for _, rd := range part {
			script = append(script, nnsTryWrap(CallScript(h, rd.Method, rd.Args...))...)
		}
		script = append(script, byte(opcode.NOP)) // landing pad of the last ENDTRY
		p := w.WhatIf(script, nil, 0)
		if p.State == vmstate.Halt && len(p.Stack) == len(part) {
			for i, rd := range part {
				it := p.Stack[i]
				if b, ok := it.Value().([]byte); ok && string(b) == nnsFaultMarker {
					rd.Item, rd.Fault = nil, "refused"
				} else {
					rd.Item, rd.Fault = it, ""
				}
			}
			continue
		}
		// some getter died in a way TRY cannot catch: one VM per call
		for _, rd := range part {
			it, err := w.Read(h, rd.Method, rd.Args...)
			if err != nil {
				rd.Item, rd.Fault = nil, err.Error()
			} else {
				rd.Item, rd.Fault = it, ""
			}
		}
	}
}
