package siml

// Main-chain engine: decides C17 (vote-collected actions of the NeoFS contract
// running without Notary) and C19 (GAS accounting of NeoFS / Processing on the
// main chain and of Alphabet / Proxy on the FS chain). See DESIGN.md §5.
//
// Every top-level identifier of this file starts with "mc".
//
// Don't-care zones (each is repeated where it is implemented):
//   - C17: a key voting again after its ballot fired opens a fresh ballot
//     ("exactly once" is judged per threshold crossing).
//   - C17: a repeated vote does not prolong a ballot (interpretation of
//     "repeated votes count once" + "gap between consecutive votes").
//   - C17: ballots that are open while the Alphabet list changes — never
//     produced: the scheduler lets every ballot expire after a list change.
//   - C17: one decision id voted with different arguments or through different
//     methods, and one invocation carrying several stored keys' witnesses —
//     never produced by the generator.
//   - C17/C19: a cheque beyond the funds of NeoFS (follows the application log).
//   - C19: which account is "the Alphabet" of a NeoFS contract running WITH
//     Notary (stored keys' or chain committee's 2n/3+1 account): both ⇒ must be
//     accepted, neither ⇒ must be refused, exactly one ⇒ follows the log.
//   - C19: GAS or a foreign token sent to NeoFS with the contract's "ignore"
//     marker as data (follows the log; received GAS enters the balance identity).
//   - C19: registering an existing candidate again; a witness with scope
//     CalledByEntry for withdraw / candidate registration (valid for NeoFS, not
//     for the nested fee transfer); a requested withdraw amount outside 1..9000;
//     the amount field of the Withdraw notification.
//   - C19: emit with g < 2 (nothing to halve) or with an empty Inner Ring.
//   - GAS-cut transactions: whether the cut sufficed is taken from the log.

import (
	"bytes"
	"crypto/elliptic"
	"encoding/json"
	"fmt"
	"github.com/nspcc-dev/neo-go/pkg/core/native/noderoles"
	"math/big"
	"sort"
	"strings"
	"testing"

	"github.com/nspcc-dev/neo-go/pkg/core/state"
	"github.com/nspcc-dev/neo-go/pkg/core/transaction"
	"github.com/nspcc-dev/neo-go/pkg/crypto/hash"
	"github.com/nspcc-dev/neo-go/pkg/crypto/keys"
	"github.com/nspcc-dev/neo-go/pkg/encoding/bigint"
	"github.com/nspcc-dev/neo-go/pkg/smartcontract/trigger"
	"github.com/nspcc-dev/neo-go/pkg/util"
	"github.com/nspcc-dev/neo-go/pkg/vm/stackitem"
	"github.com/nspcc-dev/neo-go/pkg/vm/vmstate"
	"pgregory.net/rapid"
)

// ---------------------------------------------------------------------------
// World builder

// mcOpts configure a main-chain world.
type mcOpts struct {
	N              int                // size of the chain committee
	Label          string             // key derivation label of the chain committee
	NotaryDisabled bool               // NeoFS collects one invocation per Alphabet key
	AlphaKeys      []*keys.PrivateKey // Alphabet keys stored in NeoFS, in this order
	Config         []any              // alternating key ([]byte), value
}

// mcWorld is a main chain with Processing and NeoFS deployed.
type mcWorld struct {
	*World
	NeoFS, Proc *Deployed
	// Stored is the 2n/3+1 multi-signature account of the keys stored in NeoFS
	// at deployment (what `alphabetAddress` returns).
	Stored Signer
}

// mcNewWorld builds a main chain: Processing and NeoFS are deployed with the
// argument layout tests/neofs_test.go and tests/processing_test.go use. The
// two contracts refer to each other; tests/ deploy NeoFS with a zero Processing
// hash (so the fee of `withdraw` goes nowhere useful there). Here the hash of
// Processing is computed before it exists (sender, NEF checksum, manifest
// name), NeoFS is deployed with it, then Processing with the real NeoFS hash.
func mcNewWorld(o mcOpts) *mcWorld {
	if len(o.AlphaKeys) == 0 {
		harnessf("mcNewWorld: no Alphabet keys")
	}
	w := NewWorld(WorldOpts{N: o.N, Label: o.Label})
	// neofs.update and processing.update are authorised by the majority of the
	// keys holding the NeoFSAlphabet role (the chain's committee designates
	// them). Here the role holds the chain committee's own keys, so that
	// account is w.Committee — which is what the upgrade check (C16) signs with.
	rolePubs := make([]any, len(w.Pubs))
	for i, p := range w.Pubs {
		rolePubs[i] = p.Bytes()
	}
	if aer := w.AddBlock([]*transaction.Transaction{w.CallTx([]Signer{w.Committee}, -1, w.Roles, "designateAsRole", int64(16), rolePubs)}, 1)[0]; aer.VMState != vmstate.Halt {
		harnessf("designating the NeoFSAlphabet role: %s", aer.FaultException)
	}
	pa, na := CompileContract("processing"), CompileContract("neofs")
	procHash := state.CreateContractHash(w.Payer.Hash, pa.NEF.Checksum, pa.Manifest.Name)
	pubs := make([]any, len(o.AlphaKeys))
	for i, k := range o.AlphaKeys {
		pubs[i] = k.PublicKey().Bytes()
	}
	cfg := o.Config
	if cfg == nil {
		cfg = []any{}
	}
	mw := &mcWorld{World: w}
	mw.NeoFS = w.Deploy("neofs", na, []any{o.NotaryDisabled, procHash, pubs, cfg})
	mw.Proc = w.Deploy("processing", pa, []any{mw.NeoFS.Hash})
	if mw.Proc.Hash != procHash {
		harnessf("Processing hash %s was predicted as %s", mw.Proc.Hash.StringLE(), procHash.StringLE())
	}
	mw.Stored = Multi("stored-alphabet", len(o.AlphaKeys)*2/3+1, o.AlphaKeys)
	return mw
}

// mcSweepAdder returns a function appending one "contract.method(args)=value"
// line of a read-API sweep (FAULT → "FAULT").
func mcSweepAdder(w *World, out *[]string) func(h util.Uint160, c, m string, args ...any) {
	return func(h util.Uint160, c, m string, args ...any) {
		it, err := w.Read(h, m, args...)
		var sb strings.Builder
		if err != nil {
			sb.WriteString("FAULT")
		} else {
			itemRepr(&sb, it, 0)
		}
		*out = append(*out, fmt.Sprintf("%s.%s(%x)=%s", c, m, args, sb.String()))
	}
}

// mcRenamed returns a copy of an artifact under another manifest name, so that
// one sender can deploy several instances (production deploys each Alphabet
// contract from another committee member's account instead).
//
// The copy is marked as a probe: checks that replay a history against the
// shipped artifacts or upgrade repository contracts key on the artifact's
// directory name and would give all instances one hash.
func mcRenamed(a *Artifact, name string) *Artifact {
	m := *a.Manifest
	m.Name = name
	mb, err := json.Marshal(&m)
	must(err)
	return &Artifact{Probe: true, Name: a.Name, NEF: a.NEF, Manifest: &m, NEFBytes: a.NEFBytes, ManBytes: mb}
}

// ---------------------------------------------------------------------------
// GAS ledger shared by both sides

// mcMove is one GAS movement; a nil side is the native contract itself (mint /
// burn).
type mcMove struct {
	from, to       util.Uint160
	fromNil, toNil bool
	amount         *big.Int
}

// mcLedger is the expected native GAS balance of every tracked party. The fee
// payer (w.Payer) and the genesis holder (w.Validator) are never tracked.
type mcLedger struct {
	w     *World
	seen  uint32 // last block whose OnPersist / PostPersist logs are booked
	order []util.Uint160
	name  map[util.Uint160]string
	gas   map[util.Uint160]*big.Int
}

func mcNewLedger(w *World) *mcLedger {
	return &mcLedger{w: w, seen: w.Height(), name: map[util.Uint160]string{}, gas: map[util.Uint160]*big.Int{}}
}

// track starts the book of a party from its present balance.
func (l *mcLedger) track(name string, a util.Uint160) {
	if _, ok := l.gas[a]; ok {
		return
	}
	l.order = append(l.order, a)
	l.name[a] = name
	l.gas[a] = new(big.Int).Set(l.w.GASOf(a))
}

func (l *mcLedger) get(a util.Uint160) *big.Int {
	if v, ok := l.gas[a]; ok {
		return v
	}
	return new(big.Int)
}

func (l *mcLedger) add(a util.Uint160, d *big.Int) {
	if v, ok := l.gas[a]; ok {
		l.gas[a] = new(big.Int).Add(v, d)
	}
}

func (l *mcLedger) apply(mv mcMove) {
	if !mv.fromNil {
		l.add(mv.from, new(big.Int).Neg(mv.amount))
	}
	if !mv.toNil {
		l.add(mv.to, mv.amount)
	}
}

func (l *mcLedger) who(a util.Uint160) string {
	if n, ok := l.name[a]; ok {
		return n
	}
	return a.StringLE()[:8]
}

// mcGasEvents splits the native GAS Transfer notifications of an execution
// into movements between accounts and mints/burns.
func mcGasEvents(w *World, aer *state.AppExecResult) (moves, mints []mcMove) {
	for _, ev := range aer.Events {
		if ev.ScriptHash != w.GAS || ev.Name != "Transfer" {
			continue
		}
		it := ItemArr(ev.Item)
		mv := mcMove{amount: ItemInt(it[2])}
		if f := ItemBytes(it[0]); f == nil {
			mv.fromNil = true
		} else {
			mv.from, _ = util.Uint160DecodeBytesBE(f)
		}
		if t := ItemBytes(it[1]); t == nil {
			mv.toNil = true
		} else {
			mv.to, _ = util.Uint160DecodeBytesBE(t)
		}
		if mv.fromNil || mv.toNil {
			mints = append(mints, mv)
		} else {
			moves = append(moves, mv)
		}
	}
	return
}

// system books what the ledger itself mints to / burns from tracked parties
// in the blocks outside any transaction (network fees to the primary, committee
// and voter rewards): environment input, read from the block's OnPersist /
// PostPersist application logs.
func (l *mcLedger) system() {
	// every block since the last look: another check may have slipped blocks
	// of its own (contract upgrades) in front of the engine's
	for l.seen < l.w.Height() {
		l.seen++
		aers, err := l.w.BC.GetAppExecResults(l.w.BC.GetHeaderHash(l.seen), trigger.OnPersist|trigger.PostPersist)
		must(err)
		for i := range aers {
			moves, mints := mcGasEvents(l.w, &aers[i])
			for _, mv := range append(moves, mints...) {
				l.apply(mv)
			}
		}
	}
}

// mismatch returns the first tracked party whose balance differs.
func (l *mcLedger) mismatch(skip func(util.Uint160) bool) (util.Uint160, *big.Int, *big.Int, bool) {
	for _, a := range l.order {
		if skip != nil && skip(a) {
			continue
		}
		have := l.w.GASOf(a)
		if have.Cmp(l.gas[a]) != 0 {
			return a, have, l.gas[a], true
		}
	}
	return util.Uint160{}, nil, nil, false
}

func (l *mcLedger) moveStr(mv mcMove) string {
	f, t := "mint", "burn"
	if !mv.fromNil {
		f = l.who(mv.from)
	}
	if !mv.toNil {
		t = l.who(mv.to)
	}
	return fmt.Sprintf("%s→%s:%s", f, t, mv.amount)
}

// sameMoves compares two multisets of movements; zero amounts are ignored (a
// zero fee may or may not be announced as a transfer of 0).
func (l *mcLedger) sameMoves(exp, got []mcMove) (bool, string) {
	canon := func(ms []mcMove) []string {
		var out []string
		for _, mv := range ms {
			if mv.amount.Sign() == 0 {
				continue
			}
			out = append(out, l.moveStr(mv))
		}
		sort.Strings(out)
		return out
	}
	a, b := canon(exp), canon(got)
	return strings.Join(a, " ") == strings.Join(b, " "), fmt.Sprintf("expected [%s] got [%s]", strings.Join(a, " "), strings.Join(b, " "))
}

func mcSameStrings(exp, got []string) bool {
	a := append([]string{}, exp...)
	b := append([]string{}, got...)
	sort.Strings(a)
	sort.Strings(b)
	return strings.Join(a, "\n") == strings.Join(b, "\n")
}

func mcBig(v int64) *big.Int { return big.NewInt(v) }

const mcGAS = int64(1_0000_0000) // one GAS in its smallest unit (8 decimals)

var mcMarker = []byte("\x57\x0b") // the "do not report this transfer" marker of NeoFS

// ---------------------------------------------------------------------------
// Main chain: abstract operations (drawn up-front so that rapid can delete steps)

const (
	mcCheque = iota
	mcAlphaUpd
	mcSetCfg
	mcCandRemove
	mcCandAdd
	mcDeposit
	mcWithdraw
	mcPay
	mcKinds
)

var mcKindName = []string{"cheque", "alphabetUpdate", "setConfig", "candidateRemove", "candidateAdd", "deposit", "withdraw", "pay"}

// voter classes of a vote-collected invocation (Notary disabled)
const (
	mcVFresh       = iota // next stored key that has not voted for this id yet
	mcVIndex              // stored key number VIdx (may repeat)
	mcVRepeat             // the key that voted last for this id
	mcVStranger           // a key that never was in the list
	mcVScopeNone          // a stored key whose witness has scope None
	mcVStoredMulti        // the 2n/3+1 account of the stored keys (what Notary mode wants)
	mcVPool               // a key of the replacement pool (member only after an update)
	mcVCBE                // a stored key with scope CalledByEntry (valid: NeoFS is called from the entry script)
	mcVSelf               // candidate removal: the candidate itself
	mcVChainAlpha         // the 2n/3+1 account of the chain committee
)

// number of empty blocks between the previous block and the one carrying the
// operation: differences of 1, 2, 20, 21, 22 and 41 blocks between votes
var mcGaps = []int{0, 1, 19, 20, 21, 40}

type mcOp struct {
	Kind   int
	ID     int // one of two competing decisions
	Arg    int // argument class (part of the decision id)
	LArg   int // the same for alphabetUpdate (list class)
	Voter  int // voter class (Notary disabled)
	VIdx   int
	Sig    int // signer class (everything that is not a vote)
	To     int // user / candidate index
	Amt    int // amount class
	Data   int // data class of a payment
	Tok    int // pay: 0 probe token, 1 NEO, 2 GAS
	Tgt    int // pay: 0 NeoFS, 1 Processing
	Gap    int // index into mcGaps
	Burst  int // extra votes by further fresh keys in the same block
	GasCut int
	Flush  int
	Dt     int
}

func mcGenOp(t *rapid.T) mcOp {
	c19 := Prop() == "C19"
	op := mcOp{}
	kw := []int{26, 14, 24, 16, 8, 6, 3, 3}
	aw := []int{88, 4, 4, 4}
	gw := []int{84, 5, 5, 2, 2, 2}
	bw := []int{66, 12, 9, 6, 4, 2, 1}
	vw := []int{48, 12, 8, 9, 3, 3, 5, 3, 6, 3}
	if c19 {
		kw = []int{20, 3, 12, 6, 10, 22, 16, 11}
		aw = []int{45, 25, 20, 10}
		gw = []int{94, 2, 1, 1, 1, 1}
		bw = []int{20, 10, 15, 10, 25, 10, 10}
		vw = []int{70, 8, 4, 3, 2, 2, 3, 3, 3, 2}
	}
	op.Kind = Weighted(t, "kind", kw)
	op.ID = Pick(t, "id", 2)
	op.Arg = Weighted(t, "arg", aw)
	op.LArg = Weighted(t, "larg", []int{40, 30, 15, 15})
	op.Voter = Weighted(t, "voter", vw)
	op.VIdx = Pick(t, "vidx", 7)
	op.Sig = Weighted(t, "sig", []int{62, 6, 6, 5, 6, 5, 5, 5})
	op.To = Pick(t, "to", 4)
	op.Amt = Weighted(t, "amt", []int{30, 10, 8, 10, 12, 12, 6, 6, 6})
	op.Data = Weighted(t, "data", []int{30, 25, 10, 8, 8, 12, 7, 6, 4})
	op.Tok = Pick(t, "tok", 3)
	op.Tgt = Pick(t, "tgt", 2)
	op.Gap = Weighted(t, "gap", gw)
	op.Burst = Weighted(t, "burst", bw)
	if Chance(t, "gascut?", 6) {
		op.GasCut = rapid.IntRange(5, 95).Draw(t, "gascut")
	}
	op.Flush = Weighted(t, "flush", []int{45, 55})
	op.Dt = rapid.IntRange(1, 3).Draw(t, "dt")
	return op
}

// ---------------------------------------------------------------------------
// Main chain: reference model (written from the statements of C17 and C19)

type mcBallot struct {
	voters []string // distinct stored keys that voted, in voting order
	last   uint32   // block of the last counted vote
}

type mcCfgVal struct {
	val []byte // value as bytes (integers in their VM byte form)
}

type mcModel struct {
	alpha   []string             // stored Alphabet keys (compressed, as strings), in list order
	ballots map[string]*mcBallot // decision id → open ballot
	config  map[string]mcCfgVal
	cands   map[string]bool
	tokens  map[string]*big.Int // "<token>/<party>" → foreign tokens a party was allowed to keep (don't-care zone only)
}

func (m *mcModel) isMember(pub string) bool {
	for _, a := range m.alpha {
		if a == pub {
			return true
		}
	}
	return false
}

func (m *mcModel) threshold() int { return len(m.alpha)*2/3 + 1 }

// live tells whether the ballot still collects votes in block h: no gap of
// more than 20 blocks since the last counted vote.
func (b *mcBallot) live(h uint32) bool { return b != nil && h-b.last <= 20 }

// vote computes what the vote of a stored key for decision id does in block h
// without changing the model: the number of distinct keys afterwards, whether
// the key was new, whether a stale ballot was restarted.
//
// Interpretation (statement: "repeated votes by one key count once", "no gap
// of more than 20 blocks between consecutive votes"): a repeated vote is not a
// vote that counts, so it does not prolong the ballot either.
func (m *mcModel) vote(id, pub string, h uint32) (count int, added, restarted bool) {
	b := m.ballots[id]
	if b != nil && !b.live(h) {
		b, restarted = nil, true
	}
	if b == nil {
		return 1, true, restarted
	}
	for _, v := range b.voters {
		if v == pub {
			return len(b.voters), false, false
		}
	}
	return len(b.voters) + 1, true, false
}

// commit records a counted vote. A ballot that fired is deleted, so a key that
// votes for the same id afterwards opens a fresh ballot (documented don't-care
// zone of the design: the contract cannot remember executed ids; "exactly
// once" is judged per threshold crossing).
func (m *mcModel) commit(id, pub string, h uint32) {
	b := m.ballots[id]
	if b == nil || !b.live(h) {
		b = &mcBallot{}
		m.ballots[id] = b
	}
	for _, v := range b.voters {
		if v == pub {
			return
		}
	}
	b.voters = append(b.voters, pub)
	b.last = h
}

func (m *mcModel) fee(key string) *big.Int {
	c, ok := m.config[key]
	if !ok {
		return new(big.Int)
	}
	return bigint.FromBytes(c.val)
}

const (
	mcWithdrawFeeKey  = "WithdrawFee"
	mcCandidateFeeKey = "InnerRingCandidateFee"
)

// ---------------------------------------------------------------------------
// Main chain: the run

type mcActor struct {
	name string
	key  *keys.PrivateKey
	acc  util.Uint160
}

func mcNewActor(name, label string) mcActor {
	k := DetKey(label)
	return mcActor{name: name, key: k, acc: k.GetScriptHash()}
}

type mcEngine struct {
	r         *Run
	w         *mcWorld
	m         *mcModel
	led       *mcLedger
	notaryOff bool
	sameKeys  bool
	init      []string                    // the list NeoFS was deployed with
	extra     []string                    // replacement pool
	byPub     map[string]*keys.PrivateKey // every key that may ever be in the list
	nameOf    map[string]string
	accOf     map[string]util.Uint160
	users     []mcActor
	cands     []mcActor
	strangers []mcActor
	token     util.Uint160
	pend      map[string][]string // decision id → keys voting in the block being assembled
	settle    bool                // a set-changing alphabetUpdate fired in the last block
	seq       int
}

type mcTx struct {
	op         mcOp
	kind       int
	desc       string
	script     []byte
	signers    []Signer
	tx         *transaction.Transaction
	fault      string
	gasCut     bool
	flushAfter bool
	// arguments
	id     string
	user   mcActor
	amount *big.Int
	lock   []byte
	key    string
	val    []byte
	list   []string
	cand   mcActor
	data   []byte // nil: no data
	token  int
	target util.Uint160
}

// mcPred is what the statements say a transaction must do in the current
// model state.
type mcPred struct {
	exp       expect
	moves     []mcMove
	events    []string // notifications of NeoFS (canonical form)
	anyEvents bool     // don't-care zone: notifications are not judged
	apply     func()
	vote      bool // a vote-collected invocation (Notary disabled)
	member    bool // ... by a stored key
	self      bool // candidate removal requested by the candidate
	fire      bool // ... that brings the ballot to the threshold
	partial   bool
	dup       bool
	stale     bool
	why       string // for the trace
	zone      string // name of the don't-care zone, if any
}

// mcVotesBody decides C17: NeoFS on the main chain without Notary.
func mcVotesBody(r *Run) {
	e := &mcEngine{r: r}
	e.run(true)
}

// mcGasBody decides C19: either the main chain (NeoFS with or without Notary,
// Processing) or the FS chain (Alphabet contracts, Proxy).
func mcGasBody(r *Run) {
	if Weighted(r.T, "side", []int{60, 40}) == 0 {
		e := &mcEngine{r: r}
		e.run(!Chance(r.T, "notary", 50))
	} else {
		e := &mcFsEngine{r: r}
		e.run()
	}
}

func init() {
	RegisterEngine("votes", []string{"C17"}, mcVotesBody)
	RegisterEngine("gas", []string{"C19"}, mcGasBody)
}

func TestVotes(t *testing.T) { Sim(t, mcVotesBody) }

func TestGas(t *testing.T) { Sim(t, mcGasBody) }

func (e *mcEngine) run(notaryOff bool) {
	t := e.r.T
	e.notaryOff = notaryOff
	nAlpha := 1 + Pick(t, "nAlpha", 7)
	e.sameKeys = Chance(t, "sameKeys", 20)
	ns := []int{1, 3, 4, 7}
	if !Thorough() && Chance(t, "rareN", 12) {
		// sizes with 3k+2 members and the larger even one, now and then
		ns = []int{2, 5, 6}
	}
	if Thorough() {
		ns = []int{1, 3, 4, 7, 2, 5, 6}
	}
	chainN := ns[Pick(t, "chainN", len(ns))]
	if e.sameKeys {
		chainN = nAlpha
	}
	fees := []int64{1 * mcGAS, 0, 1, 7*mcGAS + 3}
	wFee := fees[Pick(t, "withdrawFee", len(fees))]
	cFee := fees[Pick(t, "candidateFee", len(fees))]
	poor := Pick(t, "poor", 3)
	nOps := 40
	if Prop() == "C19" {
		nOps = 50
	}
	ops := OpsSlice(t, rapid.Custom(mcGenOp), nOps)

	// keys: the stored list is independent of the chain committee unless sameKeys
	e.byPub, e.nameOf, e.accOf = map[string]*keys.PrivateKey{}, map[string]string{}, map[string]util.Uint160{}
	reg := func(name string, k *keys.PrivateKey) string {
		p := string(k.PublicKey().Bytes())
		e.byPub[p], e.nameOf[p], e.accOf[p] = k, name, k.GetScriptHash()
		return p
	}
	var alphaKeys []*keys.PrivateKey
	committee := mcWorldKeys("mc", chainN)
	for i := 0; i < nAlpha; i++ {
		k := DetKey(fmt.Sprintf("mc/alpha/%d", i))
		if e.sameKeys {
			k = committee[i]
		}
		alphaKeys = append(alphaKeys, k)
		e.init = append(e.init, reg(fmt.Sprintf("a%d", i), k))
	}
	for i := 0; i < 3; i++ {
		e.extra = append(e.extra, reg(fmt.Sprintf("x%d", i), DetKey(fmt.Sprintf("mc/extra/%d", i))))
	}
	w := mcNewWorld(mcOpts{N: chainN, Label: "mc", NotaryDisabled: notaryOff, AlphaKeys: alphaKeys,
		Config: []any{[]byte(mcWithdrawFeeKey), wFee, []byte(mcCandidateFeeKey), cFee}})
	e.w = w
	e.r.Own(w.World)
	e.token = w.Deploy("token", CompileContract(AuxDir("token")), nil).Hash
	e.m = &mcModel{alpha: append([]string{}, e.init...), ballots: map[string]*mcBallot{}, config: map[string]mcCfgVal{}, cands: map[string]bool{}, tokens: map[string]*big.Int{}}
	e.m.config[mcWithdrawFeeKey] = mcCfgVal{bigint.ToBytes(mcBig(wFee))}
	e.m.config[mcCandidateFeeKey] = mcCfgVal{bigint.ToBytes(mcBig(cFee))}
	e.pend = map[string][]string{}
	// the complete read API the model knows, plus the raw vote state: what a
	// contract upgrade has to preserve
	e.r.Sweep = func() []string {
		var out []string
		add := mcSweepAdder(w.World, &out)
		var ks []string
		for k := range e.m.config {
			ks = append(ks, k)
		}
		ks = append(ks, "mc.k", "mc.k2")
		sort.Strings(ks)
		for i, k := range ks {
			if i == 0 || ks[i-1] != k {
				add(w.NeoFS.Hash, "neofs", "config", []byte(k))
			}
		}
		for _, m := range []string{"listConfig", "alphabetList", "alphabetAddress", "innerRingCandidates", "version"} {
			add(w.NeoFS.Hash, "neofs", m)
		}
		out = append(out, fmt.Sprintf("neofs.storage[ballots]=%x", w.BC.GetStorageItem(w.NeoFS.ID, []byte("ballots"))))
		add(w.Proc.Hash, "processing", "version")
		return out
	}
	for i := 0; i < 4; i++ {
		e.users = append(e.users, mcNewActor(fmt.Sprintf("u%d", i), fmt.Sprintf("mc/user/%d", i)))
	}
	e.cands = []mcActor{mcNewActor("c0", "mc/cand/0"), mcNewActor("c1", "mc/cand/1"),
		{name: "c2=a0", key: alphaKeys[0], acc: alphaKeys[0].GetScriptHash()}, mcNewActor("c3", "mc/cand/3")}
	e.strangers = []mcActor{mcNewActor("s0", "mc/stranger/0"), mcNewActor("s1", "mc/stranger/1")}
	e.r.Tracef("main chain: committee=%d stored Alphabet keys=%d (threshold %d) sameKeys=%v notaryDisabled=%v withdrawFee=%d candidateFee=%d",
		chainN, nAlpha, nAlpha*2/3+1, e.sameKeys, notaryOff, wFee, cFee)

	// funding (harness set-up, not part of the judged history): GAS, NEO and
	// probe tokens from the genesis holder
	v := []Signer{w.Validator}
	var setup []*transaction.Transaction
	give := func(token util.Uint160, to util.Uint160, amt int64) {
		setup = append(setup, w.CallTx(v, -1, token, "transfer", w.Validator.Hash, to, amt, nil))
	}
	give(w.GAS, e.users[0].acc, 40000*mcGAS)
	give(w.GAS, e.users[1].acc, 20000*mcGAS)
	give(w.GAS, e.users[2].acc, 12*mcGAS)
	switch poor { // u3: the user who cannot pay every per-key fee
	case 1:
		give(w.GAS, e.users[3].acc, wFee*2+wFee/2)
	case 2:
		give(w.GAS, e.users[3].acc, wFee*int64(nAlpha)-1+1*mcBoolInt(wFee == 0))
	}
	for i := 0; i < 3; i++ {
		give(w.GAS, e.cands[i].acc, 30*mcGAS)
	}
	give(w.NEO, e.users[0].acc, 50)
	give(w.NEO, e.users[1].acc, 50)
	setup = append(setup, w.CallTx(nil, -1, e.token, "mint", e.users[0].acc, int64(1000000)))
	setup = append(setup, w.CallTx(nil, -1, e.token, "mint", e.users[1].acc, int64(1000000)))
	for i, aer := range w.AddBlock(setup, 1) {
		if aer.VMState != vmstate.Halt {
			harnessf("main chain set-up tx %d: %s", i, aer.FaultException)
		}
	}
	e.r.AddBlock(len(setup), 1)

	e.led = mcNewLedger(w.World)
	e.led.track("NeoFS", w.NeoFS.Hash)
	e.led.track("Processing", w.Proc.Hash)
	for _, u := range e.users {
		e.led.track(u.name, u.acc)
	}
	for _, c := range e.cands {
		e.led.track(c.name, c.acc)
	}
	for _, p := range append(append([]string{}, e.init...), e.extra...) {
		e.led.track(e.nameOf[p], e.accOf[p])
	}
	for _, s := range e.strangers {
		e.led.track(s.name, s.acc)
	}

	// the opening deposit and candidates are ordinary, judged operations
	first := []*mcTx{
		e.build(mcOp{Kind: mcDeposit, To: 0, Amt: 4, Data: 0})[0],
		e.build(mcOp{Kind: mcCandAdd, To: 0})[0],
		e.build(mcOp{Kind: mcCandAdd, To: 2})[0],
	}
	e.block(first, 1)

	var pending []*mcTx
	flush := func(dt int) {
		if len(pending) == 0 {
			return
		}
		e.block(pending, uint64(dt))
		pending = nil
		if e.settle {
			// Don't-care zone avoided by the scheduler: the statement speaks of a
			// fixed list of n keys, so what becomes of ballots that are open while
			// the list changes is not defined. After a list change every open
			// ballot is let expire (21 empty blocks) before anybody votes again.
			e.settle = false
			e.empty(21)
		}
	}
	for _, op := range ops {
		if g := mcGaps[op.Gap]; g > 0 {
			flush(1)
			e.empty(g)
			e.r.Inject("height.gap")
		}
		txs := e.build(op)
		pending = append(pending, txs...)
		force := false
		for _, mt := range txs {
			force = force || mt.flushAfter
		}
		if op.Flush > 0 || len(pending) >= 7 || force {
			flush(op.Dt)
		}
	}
	flush(1)
	if e.notaryOff && e.r.Prop == "C19" {
		e.reentrantCheque()
	}
}

// reentrantCheque closes a C19 run in a world without Notary with one more
// cheque, to a receiver contract that asks for the same cheque again from
// inside its payment callback. The model is not consulted: "pays out exactly
// the cheque amount once the Alphabet approves" is checked directly on the GAS
// balances. Only where the threshold is at least two: there the nested request
// is one vote (of the member whose transaction it rides on) and approves
// nothing.
func (e *mcEngine) reentrantCheque() {
	w, r, m := e.w, e.r, e.m
	thr := len(m.alpha)*2/3 + 1
	if thr < 2 {
		return
	}
	e.empty(21) // every open ballot has run out
	amount := int64(3 * mcGAS)
	if w.GASOf(w.NeoFS.Hash).Cmp(big.NewInt(4*amount)) < 0 {
		r.Count("outcome.reentrantCheque.skipped_no_funds")
		return
	}
	rc := w.Deploy("reenter", CompileContract(AuxDir("reenter")), nil).Hash
	id, other := []byte("cheque/reentrant"), []byte("cheque/bystander")
	lock := util.Uint160{0xee, 1}
	ok := func(aer *state.AppExecResult, what string) bool {
		if aer.VMState != vmstate.Halt {
			// no statement obliges these to succeed in whatever state the history
			// left; counted, not judged
			r.Count("outcome.reentrantCheque.refused")
			r.Tracef("re-entrant cheque scenario: %s refused: %s", what, clipStr(aer.FaultException, 100))
			return false
		}
		return true
	}
	voter := func(i int) []Signer {
		k := e.byPub[m.alpha[i]]
		return []Signer{Single(e.nameOf[m.alpha[i]], k)}
	}
	arm := w.CallTx(nil, -1, rc, "arm", w.NeoFS.Hash, id, amount, lock)
	// another decision in flight (one vote)
	by := w.CallTx(voter(0), -1, w.NeoFS.Hash, "cheque", other, e.users[1].acc, int64(mcGAS), lock)
	aers := w.AddBlock([]*transaction.Transaction{arm, by}, 1)
	r.AddBlock(2, 1)
	if !ok(aers[0], "arm") || !ok(aers[1], "bystander vote") {
		return
	}
	before, neofsBefore := w.GASOf(rc), w.GASOf(w.NeoFS.Hash)
	for i := 0; i < thr; i++ {
		tx := w.CallTx(voter(i), -1, w.NeoFS.Hash, "cheque", id, rc, amount, lock)
		aer := w.AddBlock([]*transaction.Transaction{tx}, 1)[0]
		r.AddBlock(1, 1)
		r.Tracef("h=%d re-entrant cheque: vote %d of %d by %s → %s %s", w.Height(), i+1, thr, e.nameOf[m.alpha[i]], aer.VMState, clipStr(aer.FaultException, 80))
		if !ok(aer, fmt.Sprintf("vote %d", i+1)) {
			return
		}
	}
	r.Count("outcome.reentrantCheque.ok")
	r.Count("probe.cheque_receiver_asked_again_inside_the_callback")
	got := new(big.Int).Sub(w.GASOf(rc), before)
	paid := new(big.Int).Sub(neofsBefore, w.GASOf(w.NeoFS.Hash))
	if got.Cmp(big.NewInt(amount)) != 0 || paid.Cmp(big.NewInt(amount)) != 0 {
		r.Violation("C19/cheque-paid-without-approval", "", "cheque %s of %d approved once by %d of %d keys: the receiver (a contract asking again from its payment callback) got %s, NeoFS paid %s", id, amount, thr, len(m.alpha), got, paid)
	}
}

func mcBoolInt(b bool) int64 {
	if b {
		return 1
	}
	return 0
}

// mcWorldKeys returns the keys NewWorld derives for a label, in Neo's order.
func mcWorldKeys(label string, n int) []*keys.PrivateKey {
	privs := make([]*keys.PrivateKey, n)
	for i := range privs {
		privs[i] = DetKey(fmt.Sprintf("%s/%d", label, i))
	}
	sort.Slice(privs, func(i, j int) bool { return privs[i].PublicKey().Cmp(privs[j].PublicKey()) < 0 })
	return privs
}

func (e *mcEngine) empty(n int) {
	for i := 0; i < n; i++ {
		e.w.AddBlock(nil, 1)
		e.r.AddBlock(0, 1)
		e.led.system()
	}
}

// ---------------------------------------------------------------------------
// Main chain: building transactions

func (e *mcEngine) pubsAny(list []string) []any {
	out := make([]any, len(list))
	for i, p := range list {
		out[i] = []byte(p)
	}
	return out
}

func (e *mcEngine) listStr(list []string) string {
	var s []string
	for _, p := range list {
		s = append(s, e.nameOf[p])
	}
	return "[" + strings.Join(s, ",") + "]"
}

// updList is the new Alphabet list of alphabetUpdate decision (id, arg): a
// fixed function of the deployed list and the replacement pool, so that every
// voter of one decision id passes the same arguments.
func (e *mcEngine) updList(id, arg int) []string {
	I, X := e.init, e.extra
	n := len(I)
	cp := func(l []string) []string { return append([]string{}, l...) }
	switch arg {
	case 0: // same set, other order
		if id == 0 {
			return append(cp(I[1:]), I[0])
		}
		out := cp(I)
		for i, j := 0, n-1; i < j; i, j = i+1, j-1 {
			out[i], out[j] = out[j], out[i]
		}
		return out
	case 1:
		if (id == 0 && n > 1) || n == 7 {
			return cp(I[:n-1])
		}
		return append(cp(I), X[0])
	case 2:
		if id == 0 {
			return append([]string{X[1]}, I[1:]...)
		}
		if n <= 5 {
			return append(cp(I), X[0], X[1])
		}
		return cp(I[1:])
	default:
		if id == 0 {
			return cp(I)
		}
		if n < 7 {
			return append(cp(I), X[2])
		}
		return cp(I[:5])
	}
}

func mcSameSet(a, b []string) bool {
	if len(a) != len(b) {
		return false
	}
	x, y := append([]string{}, a...), append([]string{}, b...)
	sort.Strings(x)
	sort.Strings(y)
	for i := range x {
		if x[i] != y[i] {
			return false
		}
	}
	return true
}

// fresh returns the first stored key that has not voted for id, neither in the
// model's open ballot nor in the block being assembled.
func (e *mcEngine) fresh(id string) (string, bool) {
	voted := map[string]bool{}
	if b := e.m.ballots[id]; b.live(e.w.Height() + 1) {
		for _, v := range b.voters {
			voted[v] = true
		}
	}
	for _, v := range e.pend[id] {
		voted[v] = true
	}
	for _, a := range e.m.alpha {
		if !voted[a] {
			return a, true
		}
	}
	return "", false
}

func (e *mcEngine) lastVoter(id string) (string, bool) {
	if p := e.pend[id]; len(p) > 0 {
		return p[len(p)-1], true
	}
	if b := e.m.ballots[id]; b != nil && len(b.voters) > 0 {
		return b.voters[len(b.voters)-1], true
	}
	return "", false
}

// voteSigners resolves a voter class into the signer list of one invocation.
// Whether the invocation is a repeated vote (vote.duplicate), an outsider's
// (vote.stranger), below the quorum (quorum.partial) or on an expired ballot
// (vote.stale) is decided by the model when it is executed, and counted there.
func (e *mcEngine) voteSigners(op mcOp, id string, cand *mcActor) ([]Signer, string) {
	m := e.m
	member := func(p string) []Signer { return []Signer{Single(e.nameOf[p], e.byPub[p])} }
	byIndex := m.alpha[op.VIdx%len(m.alpha)]
	switch op.Voter {
	case mcVFresh:
		if p, ok := e.fresh(id); ok {
			e.pend[id] = append(e.pend[id], p)
			return member(p), ""
		}
		e.pend[id] = append(e.pend[id], byIndex)
		return member(byIndex), ""
	case mcVIndex:
		e.pend[id] = append(e.pend[id], byIndex)
		return member(byIndex), ""
	case mcVRepeat:
		if p, ok := e.lastVoter(id); ok && m.isMember(p) {
			return member(p), ""
		}
		e.pend[id] = append(e.pend[id], byIndex)
		return member(byIndex), ""
	case mcVStranger:
		s := e.strangers[op.VIdx%len(e.strangers)]
		return []Signer{Single(s.name, s.key)}, ""
	case mcVScopeNone:
		return []Signer{Single(e.nameOf[byIndex], e.byPub[byIndex]).WithScope(transaction.None)}, "wit.scope"
	case mcVStoredMulti:
		// the account of the list as deployed; after an update it is just
		// another outsider
		return []Signer{e.w.Stored}, ""
	case mcVPool:
		p := e.extra[op.VIdx%len(e.extra)]
		if m.isMember(p) {
			e.pend[id] = append(e.pend[id], p)
			return member(p), ""
		}
		return member(p), ""
	case mcVCBE:
		e.pend[id] = append(e.pend[id], byIndex)
		return []Signer{Single(e.nameOf[byIndex], e.byPub[byIndex]).WithScope(transaction.CalledByEntry)}, ""
	case mcVSelf:
		if cand != nil {
			return []Signer{Single(cand.name, cand.key)}, ""
		}
		e.pend[id] = append(e.pend[id], byIndex)
		return member(byIndex), ""
	default:
		return []Signer{e.w.Alphabet}, ""
	}
}

// notarySigners resolves a signer class for a method that needs "the
// Alphabet" when NeoFS runs with Notary: 0 both multi-signature accounts (of
// the stored keys and of the chain committee), 1 the chain committee's, 2 the
// stored keys', 3 a stranger, 4 one stored key, 5 both with scope None,
// 6 nobody, 7 both plus a stranger.
func (e *mcEngine) notarySigners(class int) ([]Signer, string) {
	w := struct{ Alphabet, Stored Signer }{e.w.Alphabet, e.storedNow()}
	switch class {
	case 0:
		return []Signer{w.Alphabet, w.Stored}, ""
	case 1:
		return []Signer{w.Alphabet}, ""
	case 2:
		return []Signer{w.Stored}, ""
	case 3:
		return []Signer{Single("s0", e.strangers[0].key)}, "wit.missing"
	case 4:
		p := e.m.alpha[0]
		return []Signer{Single(e.nameOf[p], e.byPub[p])}, "wit.single"
	case 5:
		return []Signer{w.Alphabet.WithScope(transaction.None), w.Stored.WithScope(transaction.None)}, "wit.scope"
	case 6:
		return nil, "wit.missing"
	default:
		return []Signer{w.Alphabet, w.Stored, Single("s0", e.strangers[0].key)}, ""
	}
}

// userSigners resolves a signer class for an operation that needs the witness
// of one account: 0 the account; 1 another user; 2 a stranger; 3 the account
// with scope None; 4 the account with scope CalledByEntry; 5 nobody; 6 the
// account plus a stranger; 7 the Alphabet accounts.
func (e *mcEngine) userSigners(class int, a mcActor) ([]Signer, string) {
	switch class {
	case 0:
		return []Signer{Single(a.name, a.key)}, ""
	case 1:
		o := e.users[0]
		if o.acc == a.acc {
			o = e.users[1]
		}
		return []Signer{Single(o.name, o.key)}, "wit.other_key"
	case 2:
		return []Signer{Single("s0", e.strangers[0].key)}, "wit.missing"
	case 3:
		return []Signer{Single(a.name, a.key).WithScope(transaction.None)}, "wit.scope"
	case 4:
		return []Signer{Single(a.name, a.key).WithScope(transaction.CalledByEntry)}, "wit.scope"
	case 5:
		return nil, "wit.missing"
	case 6:
		return []Signer{Single(a.name, a.key), Single("s0", e.strangers[0].key)}, ""
	default:
		return []Signer{e.w.Alphabet, e.w.Stored}, "wit.other_key"
	}
}

func (e *mcEngine) build(op mcOp) []*mcTx {
	var out []*mcTx
	switch op.Kind {
	case mcCheque, mcAlphaUpd, mcSetCfg, mcCandRemove:
		n := 1
		if e.notaryOff && (op.Voter == mcVFresh || op.Voter == mcVIndex) {
			n += op.Burst
		}
		for i := 0; i < n; i++ {
			o := op
			if i > 0 {
				o.Voter, o.GasCut = mcVFresh, 0
				if _, ok := e.fresh(e.decision(o).id); !ok {
					break
				}
			}
			out = append(out, e.buildVote(o))
		}
		return out
	}
	mt := &mcTx{op: op, kind: op.Kind}
	neofs := e.w.NeoFS.Hash
	switch op.Kind {
	case mcCandAdd:
		mt.cand = e.cands[op.To%len(e.cands)]
		signers, f := e.userSigners(op.Sig, mt.cand)
		mt.signers = signers
		mt.desc = fmt.Sprintf("innerRingCandidateAdd(%s)", mt.cand.name)
		e.finish(mt, f, CallScript(neofs, "innerRingCandidateAdd", mt.cand.key.PublicKey().Bytes()))
	case mcDeposit:
		mt.user = e.users[op.To%len(e.users)]
		have := e.led.get(mt.user.acc)
		f := ""
		max := mcBig(9000 * mcGAS)
		switch op.Amt {
		case 0:
			mt.amount = mcBig(5*mcGAS + int64(op.To))
		case 1:
			mt.amount = mcBig(1)
		case 2:
			mt.amount, f = mcBig(0), "arg.boundary"
		case 3:
			mt.amount, f = new(big.Int).Sub(max, big1), "arg.boundary"
		case 4:
			mt.amount, f = max, "arg.boundary"
		case 5:
			mt.amount, f = new(big.Int).Add(max, big1), "arg.boundary"
		case 6:
			mt.amount = new(big.Int).Set(have)
		case 7:
			mt.amount, f = new(big.Int).Add(have, big1), "arg.boundary"
		default:
			mt.amount, f = mcBig(-1), "arg.negative"
		}
		dname := "none"
		switch op.Data {
		case 0:
		case 1:
			mt.data, dname = e.users[(op.To+1)%len(e.users)].acc.BytesBE(), "20 bytes"
		case 2:
			mt.data, dname = []byte{}, "empty"
		case 3:
			mt.data, dname, f = bytes.Repeat([]byte{7}, 19), "19 bytes", orStr(f, "arg.malformed")
		case 4:
			mt.data, dname, f = bytes.Repeat([]byte{9}, 21), "21 bytes", orStr(f, "arg.malformed")
		case 5:
			mt.data, dname = mcMarker, "ignore-marker"
		case 7:
			// a receiver whose 20 bytes merely begin like the ignore marker
			mt.data, dname = append(append([]byte{}, mcMarker...), bytes.Repeat([]byte{3}, 20-len(mcMarker))...), "20 bytes beginning with the ignore marker"
		case 8:
			mt.data, dname, f = append(append([]byte{}, mcMarker...), 1), "ignore marker plus one byte", orStr(f, "arg.malformed")
		default:
			mt.data, dname = neofs.BytesBE(), "20 bytes (NeoFS itself)"
		}
		signers, sf := e.userSigners(op.Sig, mt.user)
		if op.Sig == 4 {
			sf = "" // the native token is called from the entry script: CalledByEntry is enough
		}
		mt.signers = signers
		mt.desc = fmt.Sprintf("GAS.transfer(%s→NeoFS, %s, data=%s)", mt.user.name, mt.amount, dname)
		e.finish(mt, orStr(sf, f), CallScript(e.w.GAS, "transfer", mt.user.acc, neofs, mt.amount, mcData(mt.data)))
	case mcWithdraw:
		mt.user = e.users[op.To%len(e.users)]
		f := ""
		switch op.Amt % 6 {
		case 0:
			mt.amount = mcBig(1)
		case 1:
			mt.amount = mcBig(250)
		case 2:
			mt.amount, f = mcBig(9000), "arg.boundary"
		case 3:
			mt.amount, f = mcBig(0), "arg.boundary"
		case 4:
			mt.amount, f = mcBig(9001), "arg.boundary"
		default:
			mt.amount, f = mcBig(-1), "arg.negative"
		}
		signers, sf := e.userSigners(op.Sig, mt.user)
		mt.signers = signers
		mt.desc = fmt.Sprintf("withdraw(%s, %s)", mt.user.name, mt.amount)
		e.finish(mt, orStr(sf, f), CallScript(neofs, "withdraw", mt.user.acc, mt.amount))
	case mcPay:
		mt.user = e.users[op.To%2] // u0 and u1 hold NEO and probe tokens
		mt.token, mt.target = op.Tok, neofs
		tname := "NeoFS"
		if op.Tgt == 1 || op.Tok == 2 {
			mt.target, tname = e.w.Proc.Hash, "Processing"
		}
		mt.amount = mcBig([]int64{1, 5, 0}[op.Amt%3])
		dname := "none"
		switch op.Data % 3 {
		case 1:
			mt.data, dname = mcMarker, "ignore-marker"
		case 2:
			mt.data, dname = mt.user.acc.BytesBE(), "20 bytes"
		}
		signers, sf := e.userSigners(op.Sig, mt.user)
		if op.Sig == 4 {
			sf = ""
		}
		mt.signers = signers
		th := []util.Uint160{e.token, e.w.NEO, e.w.GAS}[op.Tok]
		mt.desc = fmt.Sprintf("%s.transfer(%s→%s, %s, data=%s)", []string{"probe", "NEO", "GAS"}[op.Tok], mt.user.name, tname, mt.amount, dname)
		e.finish(mt, sf, CallScript(th, "transfer", mt.user.acc, mt.target, mt.amount, mcData(mt.data)))
	}
	return []*mcTx{mt}
}

func mcData(d []byte) any {
	if d == nil {
		return nil
	}
	return d
}

// decision resolves the arguments of a vote-collected action. The decision id
// names the action, one of two competing decisions and the argument class, so
// every vote for one id carries the same arguments. (Don't-care zone avoided
// by the generator: the statement identifies a decision by its id alone and
// is silent about voters that pass different arguments under one id, or about
// one id used with two different methods.)
func (e *mcEngine) decision(op mcOp) *mcTx {
	mt := &mcTx{op: op, kind: op.Kind}
	switch op.Kind {
	case mcCheque:
		mt.id = fmt.Sprintf("cheque/%d/%d", op.ID, op.Arg)
		mt.user = e.users[(op.ID*2+op.Arg)%len(e.users)]
		mt.amount = mcBig([]int64{3*mcGAS + 7, 1, 250 * mcGAS, 1_0000_0000 * mcGAS}[op.Arg] + int64(op.ID))
		if !e.notaryOff {
			// one invocation decides: the amount may look at the present balance
			switch op.Arg {
			case 2:
				mt.amount = new(big.Int).Set(e.led.get(e.w.NeoFS.Hash))
			case 3:
				mt.amount = new(big.Int).Add(e.led.get(e.w.NeoFS.Hash), big1)
			}
			e.seq++
			mt.id = fmt.Sprintf("cheque/%d", e.seq)
		}
		mt.lock = []byte("lock/" + mt.id)
	case mcAlphaUpd:
		mt.id = fmt.Sprintf("alpha/%d/%d", op.ID, op.LArg)
		mt.list = e.updList(op.ID, op.LArg)
	case mcSetCfg:
		mt.id = fmt.Sprintf("cfg/%d/%d", op.ID, op.Arg)
		switch op.Arg {
		case 0:
			mt.key, mt.val = "mc.k", []byte(fmt.Sprintf("v%d", op.ID))
		case 1:
			mt.key, mt.val = mcWithdrawFeeKey, bigint.ToBytes(mcBig([]int64{2 * mcGAS, 0}[op.ID]))
		case 2:
			mt.key, mt.val = mcCandidateFeeKey, bigint.ToBytes(mcBig([]int64{5 * mcGAS, 3}[op.ID]))
		default:
			mt.key, mt.val = "mc.k2", [][]byte{{}, bytes.Repeat([]byte{0x5a}, 40)}[op.ID]
		}
	case mcCandRemove:
		mt.cand = e.cands[(op.ID+2*op.Arg)%len(e.cands)]
		// the contract derives the decision id from the key; any injective
		// naming does for the model
		mt.id = "remove/" + mt.cand.name
	}
	return mt
}

func (e *mcEngine) buildVote(op mcOp) *mcTx {
	mt := e.decision(op)
	neofs := e.w.NeoFS.Hash
	var fault string
	if e.notaryOff {
		var cand *mcActor
		if op.Kind == mcCandRemove {
			cand = &mt.cand
		}
		mt.signers, fault = e.voteSigners(op, mt.id, cand)
	} else if op.Kind == mcCandRemove && op.Voter == mcVSelf {
		mt.signers = []Signer{Single(mt.cand.name, mt.cand.key)}
	} else {
		mt.signers, fault = e.notarySigners(op.Sig)
	}
	var script []byte
	switch op.Kind {
	case mcCheque:
		mt.desc = fmt.Sprintf("cheque(%s, %s, %s)", mt.id, mt.user.name, mt.amount)
		script = CallScript(neofs, "cheque", []byte(mt.id), mt.user.acc, mt.amount, mt.lock)
	case mcAlphaUpd:
		mt.desc = fmt.Sprintf("alphabetUpdate(%s, %s)", mt.id, e.listStr(mt.list))
		script = CallScript(neofs, "alphabetUpdate", []byte(mt.id), e.pubsAny(mt.list))
		if e.notaryOff && !mcSameSet(mt.list, e.m.alpha) {
			// see the comment on settling in run(): nothing else may follow a
			// list change in its block except further votes for the same id
			mt.flushAfter = true
		}
	case mcSetCfg:
		mt.desc = fmt.Sprintf("setConfig(%s, %s=%x)", mt.id, mt.key, mt.val)
		script = CallScript(neofs, "setConfig", []byte(mt.id), []byte(mt.key), mt.val)
	case mcCandRemove:
		mt.desc = fmt.Sprintf("innerRingCandidateRemove(%s)", mt.cand.name)
		script = CallScript(neofs, "innerRingCandidateRemove", mt.cand.key.PublicKey().Bytes())
	}
	e.finish(mt, fault, script)
	return mt
}

// finish signs the transaction; a GAS cut gives it a seeded fraction of what
// the call needs in the present state (crash point between the instructions).
func (e *mcEngine) finish(mt *mcTx, fault string, script []byte) {
	sysFee := int64(-1)
	if mt.op.GasCut > 0 {
		p := e.w.WhatIf(script, mt.signers, 1)
		if p.State == vmstate.Halt && p.GAS > 0 {
			sysFee = p.GAS * int64(mt.op.GasCut) / 100
			mt.gasCut = true
			e.r.Inject("gas.cut")
		}
	}
	mt.script = script
	mt.tx = e.w.Tx(script, mt.signers, sysFee)
	mt.fault = fault
	if fault != "" {
		e.r.Inject(fault)
	}
}

// ---------------------------------------------------------------------------
// Main chain: prediction

func mcWit(signers []Signer, a util.Uint160, depth int) bool {
	return Witness(signers, a.BytesBE(), depth)
}

func mcMv(from, to util.Uint160, amt *big.Int) mcMove {
	return mcMove{from: from, to: to, amount: new(big.Int).Set(amt)}
}

// effect is what a vote-collected action does once it is approved.
func (e *mcEngine) effect(mt *mcTx) (moves []mcMove, events []string, apply func()) {
	m := e.m
	switch mt.kind {
	case mcCheque:
		moves = []mcMove{mcMv(e.w.NeoFS.Hash, mt.user.acc, mt.amount)}
		events = []string{fmt.Sprintf("Cheque|%x|%x|%s|%x", mt.id, mt.user.acc.BytesBE(), mt.amount, mt.lock)}
		apply = func() {}
	case mcAlphaUpd:
		events = []string{fmt.Sprintf("AlphabetUpdate|%x|%s", mt.id, mcHexList(mt.list))}
		apply = func() {
			if !mcSameSet(m.alpha, mt.list) {
				e.settle = e.notaryOff
				e.r.Count("probe.alphabet_set_changed")
			}
			m.alpha = append([]string{}, mt.list...)
		}
	case mcSetCfg:
		events = []string{fmt.Sprintf("SetConfig|%x|%x|%x", mt.id, mt.key, mt.val)}
		apply = func() { m.config[mt.key] = mcCfgVal{append([]byte{}, mt.val...)} }
	case mcCandRemove:
		pub := string(mt.cand.key.PublicKey().Bytes())
		apply = func() {
			if m.cands[pub] {
				e.r.Count("probe.candidate_removed")
			}
			delete(m.cands, pub)
		}
	}
	return
}

func mcHexList(l []string) string {
	var s []string
	for _, p := range l {
		s = append(s, fmt.Sprintf("%x", p))
	}
	return strings.Join(s, ",")
}

// predict computes, from the statements of C17 and C19, what the transaction
// must do in the current model state when executed in block h.
func (e *mcEngine) predict(mt *mcTx, h uint32) mcPred {
	m, w, led := e.m, e.w, e.led
	neofs := w.NeoFS.Hash
	switch mt.kind {
	case mcCheque, mcAlphaUpd, mcSetCfg, mcCandRemove:
		moves, events, apply := e.effect(mt)
		unfundable := mt.kind == mcCheque && led.get(neofs).Cmp(mt.amount) < 0
		if mt.kind == mcCandRemove && mcWit(mt.signers, mt.cand.acc, 0) {
			// requested by the candidate itself: immediate, no ballot involved
			return mcPred{exp: mustSucceed, apply: apply, self: true, vote: e.notaryOff, why: "candidate itself"}
		}
		if !e.notaryOff {
			// Don't-care zone: the statements do not say which account is "the
			// Alphabet" of a NeoFS contract running WITH Notary — the 2n/3+1
			// account of the keys stored in the contract or that of the chain
			// committee. With both witnesses the action is approved on any
			// reading, with neither it is not; with exactly one of them the
			// outcome is taken from the application log and the effects are
			// then checked strictly.
			chain, stored := mcWit(mt.signers, w.Alphabet.Hash, 0), mcWit(mt.signers, e.storedNow().Hash, 0)
			p := mcPred{moves: moves, events: events, apply: apply}
			switch {
			case !chain && !stored:
				return mcPred{exp: mustRefuse, why: "no Alphabet witness"}
			case chain && stored:
				p.exp, p.why = mustSucceed, "both Alphabet accounts"
			case chain:
				p.exp, p.why = dontCare, "chain committee only"
			default:
				p.exp, p.why = dontCare, "stored keys only"
			}
			if unfundable {
				// the statement does not say what a cheque beyond the contract's
				// funds does; it cannot be paid, so if it is accepted the ledger
				// check fails
				p.exp, p.zone = dontCare, "cheque beyond the funds of NeoFS"
			}
			return p
		}
		var voters []string
		for _, a := range m.alpha {
			if mcWit(mt.signers, e.accOf[a], 0) {
				voters = append(voters, a)
			}
		}
		if len(voters) == 0 {
			return mcPred{exp: mustRefuse, vote: true, why: "not a stored Alphabet key"}
		}
		if len(voters) > 1 {
			// Don't-care zone (never generated): one invocation carrying the
			// witnesses of several stored keys.
			harnessf("vote with %d member witnesses", len(voters))
		}
		pub := voters[0]
		count, added, restarted := m.vote(mt.id, pub, h)
		p := mcPred{exp: mustSucceed, vote: true, member: true, stale: restarted, dup: !added}
		p.fire = added && count >= m.threshold()
		p.partial = !p.fire
		p.why = fmt.Sprintf("vote %d/%d of %s", count, m.threshold(), e.nameOf[pub])
		id := mt.id
		if !p.fire {
			p.apply = func() { m.commit(id, pub, h) }
			return p
		}
		p.moves, p.events = moves, events
		p.apply = func() {
			// the ballot is cleared in the invocation that completes it
			delete(m.ballots, id)
			apply()
		}
		if unfundable {
			// see above; a FAULT also discards the vote itself
			p.exp, p.zone = dontCare, "cheque beyond the funds of NeoFS"
		}
		return p
	case mcCandAdd:
		pub := string(mt.cand.key.PublicKey().Bytes())
		fee := m.fee(mcCandidateFeeKey)
		p := mcPred{moves: []mcMove{mcMv(mt.cand.acc, neofs, fee)}, apply: func() { m.cands[pub] = true }}
		switch {
		case !mcWit(mt.signers, mt.cand.acc, 0):
			return mcPred{exp: mustRefuse, why: "no witness of the candidate"}
		case led.get(mt.cand.acc).Cmp(fee) < 0:
			return mcPred{exp: mustRefuse, why: "candidate cannot pay the fee"}
		case m.cands[pub]:
			// statement silent about registering twice; if accepted the fee is due again
			p.exp, p.why = dontCare, "already a candidate"
		case !mcWit(mt.signers, mt.cand.acc, 1):
			// witness valid for NeoFS only (CalledByEntry): the fee cannot be
			// collected with it; whether a zero fee still needs it is not stated
			p.exp, p.why = dontCare, "witness not valid for the fee transfer"
		default:
			p.exp = mustSucceed
		}
		return p
	case mcDeposit:
		valid := mcWit(mt.signers, mt.user.acc, 0) && mt.amount.Sign() >= 0 && led.get(mt.user.acc).Cmp(mt.amount) >= 0
		if !valid {
			return mcPred{exp: mustRefuse, why: "not a valid GAS transfer"}
		}
		p := mcPred{moves: []mcMove{mcMv(mt.user.acc, neofs, mt.amount)}, apply: func() {}}
		if bytes.Equal(mt.data, mcMarker) {
			// Don't-care zone: a GAS transfer carrying the contract's own
			// "ignore" marker (meant for candidate fees). The statement speaks
			// of deposits; such a transfer is received GAS that nobody is told
			// about. Followed from the application log; it enters the balance
			// identity as received GAS; a Deposit notification is not judged.
			p.exp, p.anyEvents, p.why = dontCare, true, "ignore marker"
			return p
		}
		inBounds := mt.amount.Sign() > 0 && mt.amount.Cmp(mcBig(9000*mcGAS)) <= 0
		dataOK := len(mt.data) == 0 || len(mt.data) == 20
		if !inBounds || !dataOK {
			return mcPred{exp: mustRefuse, why: "deposit out of bounds or malformed receiver"}
		}
		rcv := mt.user.acc.BytesBE()
		if len(mt.data) == 20 {
			rcv = mt.data
		}
		p.exp = mustSucceed
		p.events = []string{fmt.Sprintf("Deposit|%x|%s|%x|%x", mt.user.acc.BytesBE(), mt.amount, rcv, mt.tx.Hash().BytesBE())}
		return p
	case mcWithdraw:
		fee := m.fee(mcWithdrawFeeKey)
		var targets []util.Uint160
		if e.notaryOff {
			for _, a := range m.alpha {
				targets = append(targets, e.accOf[a])
			}
		} else {
			targets = []util.Uint160{w.Proc.Hash}
		}
		total := new(big.Int).Mul(fee, mcBig(int64(len(targets))))
		p := mcPred{apply: func() {}}
		for _, t := range targets {
			p.moves = append(p.moves, mcMv(mt.user.acc, t, fee))
		}
		// Don't-care: the amount reported by the Withdraw notification (the
		// statement fixes the fee, not the notification's unit).
		p.events = []string{fmt.Sprintf("Withdraw|%x|%x", mt.user.acc.BytesBE(), mt.tx.Hash().BytesBE())}
		switch {
		case !mcWit(mt.signers, mt.user.acc, 0):
			return mcPred{exp: mustRefuse, why: "no witness of the user"}
		case led.get(mt.user.acc).Cmp(total) < 0:
			return mcPred{exp: mustRefuse, why: "user cannot pay the fee"}
		case !mcWit(mt.signers, mt.user.acc, 1):
			p.exp, p.why = dontCare, "witness not valid for the fee transfer"
		case mt.amount.Sign() <= 0 || mt.amount.Cmp(mcBig(9000)) > 0:
			// statement silent about the bounds of the requested amount
			p.exp, p.why = dontCare, "requested amount outside 1..9000"
		default:
			p.exp = mustSucceed
		}
		return p
	case mcPay:
		tk := fmt.Sprintf("%d/%s", mt.token, led.who(mt.target))
		if mt.token == 2 {
			valid := mcWit(mt.signers, mt.user.acc, 0) && led.get(mt.user.acc).Cmp(mt.amount) >= 0
			if !valid {
				return mcPred{exp: mustRefuse, why: "not a valid GAS transfer"}
			}
			return mcPred{exp: mustSucceed, moves: []mcMove{mcMv(mt.user.acc, mt.target, mt.amount)}, apply: func() {}}
		}
		if mt.target == neofs && bytes.Equal(mt.data, mcMarker) {
			// Don't-care zone: a foreign token sent to NeoFS with the "ignore"
			// marker. The statement demands that deposits are GAS only and that
			// Proxy, Processing and Alphabet take nothing else; it does not
			// list NeoFS among the contracts that must reject unreported
			// foreign tokens. Followed from the application log (counted).
			amt := mt.amount
			return mcPred{exp: dontCare, anyEvents: true, why: "foreign token with ignore marker", apply: func() {
				e.r.Count("probe.neofs_kept_foreign_token_with_marker")
				v, ok := m.tokens[tk]
				if !ok {
					v = new(big.Int)
				}
				m.tokens[tk] = new(big.Int).Add(v, amt)
			}}
		}
		return mcPred{exp: mustRefuse, why: "foreign token"}
	}
	harnessf("unknown kind %d", mt.kind)
	return mcPred{}
}

// storedNow is the 2n/3+1 account of the model's current list.
func (e *mcEngine) storedNow() Signer {
	ks := make([]*keys.PrivateKey, len(e.m.alpha))
	for i, p := range e.m.alpha {
		ks[i] = e.byPub[p]
	}
	return Multi("stored-alphabet", len(ks)*2/3+1, ks)
}

// ---------------------------------------------------------------------------
// Main chain: executing a block and judging it

// neofsEvents returns the notifications of the NeoFS contract in canonical
// form (see effect / predict for the expected strings).
func (e *mcEngine) neofsEvents(aer *state.AppExecResult) []string {
	var out []string
	for _, ev := range aer.Events {
		if ev.ScriptHash != e.w.NeoFS.Hash {
			continue
		}
		it := ItemArr(ev.Item)
		b := func(i int) []byte { return ItemBytes(it[i]) }
		switch ev.Name {
		case "Cheque":
			out = append(out, fmt.Sprintf("Cheque|%x|%x|%s|%x", b(0), b(1), ItemInt(it[2]), b(3)))
		case "AlphabetUpdate":
			var l []string
			for _, k := range ItemArr(it[1]) {
				l = append(l, string(ItemBytes(k)))
			}
			out = append(out, fmt.Sprintf("AlphabetUpdate|%x|%s", b(0), mcHexList(l)))
		case "SetConfig":
			out = append(out, fmt.Sprintf("SetConfig|%x|%x|%x", b(0), b(1), b(2)))
		case "Deposit":
			out = append(out, fmt.Sprintf("Deposit|%x|%s|%x|%x", b(0), ItemInt(it[1]), b(2), b(3)))
		case "Withdraw":
			out = append(out, fmt.Sprintf("Withdraw|%x|%x", b(0), b(2)))
		default:
			out = append(out, ev.Name)
		}
	}
	return out
}

func mcHasPrefix(l []string, prefix string) bool {
	for _, s := range l {
		if strings.HasPrefix(s, prefix) {
			return true
		}
	}
	return false
}

var mcFireEvent = map[int]string{mcCheque: "Cheque|", mcAlphaUpd: "AlphabetUpdate|", mcSetCfg: "SetConfig|"}

// ruleFor names the rule broken when the outcome class of a transaction is
// not the predicted one.
func (e *mcEngine) ruleFor(mt *mcTx, p mcPred, accepted bool) string {
	switch mt.kind {
	case mcCheque, mcAlphaUpd, mcSetCfg, mcCandRemove:
		if e.notaryOff {
			switch {
			case accepted:
				return "C17/stranger-not-rejected"
			case p.fire:
				return "C17/not-fired-at-quorum"
			case p.self:
				return "C17/self-removal-refused"
			}
			return "C17/member-vote-refused"
		}
		if accepted {
			return "C19/unapproved-action-accepted"
		}
		return "C19/approved-action-refused"
	case mcCandAdd:
		if accepted {
			return "C19/candidate-unauthorised-or-unpaid"
		}
		return "C19/candidate-refused"
	case mcDeposit:
		return "C19/deposit-bounds"
	case mcWithdraw:
		if accepted {
			return "C19/withdraw-unauthorised-or-unpaid"
		}
		return "C19/withdraw-refused"
	default:
		if accepted {
			return "C19/foreign-token-accepted"
		}
		return "C19/gas-payment-refused"
	}
}

// mcViolation reports a broken rule and ends the run at once: an own rule is
// fatal anyway, a rule of the other property leaves the model out of step with
// the chain, so nothing after it may be judged.
func mcViolation(r *Run, rule, format string, a ...any) {
	r.Violation(rule, "", format, a...)
	r.Checkpoint()
	harnessf("violation %s did not end the run", rule)
}

func (e *mcEngine) block(pending []*mcTx, dt uint64) {
	r, w, m, led := e.r, e.w, e.m, e.led
	h := w.Height() + 1
	digestBefore := w.StorageDigest(w.NeoFS.ID)
	txs := make([]*transaction.Transaction, len(pending))
	for i, mt := range pending {
		txs[i] = mt.tx
	}
	// exact observation of an outsider's vote that opens the block: the state
	// before the block is the state it runs in
	var firstProbe *Probe
	if len(pending) > 0 {
		if p := e.predict(pending[0], h); p.vote && !p.member && !p.self && !pending[0].gasCut {
			firstProbe = w.WhatIf(pending[0].script, pending[0].signers, dt)
		}
	}
	aers := w.AddBlock(txs, dt)
	h = w.Height() // another check's hook may have put blocks of its own in front
	r.AddBlock(len(txs), dt)
	e.pend = map[string][]string{}
	if len(pending) > 1 {
		r.Inject("sched.pack")
		r.Fired("sched.pack")
	}
	anyEffect := false
	var outsiderHalted []string
	removalVoted := map[string]bool{}
	for i, mt := range pending {
		aer := aers[i]
		p := e.predict(mt, h)
		halted := aer.VMState == vmstate.Halt
		took := halted
		if halted && (mt.kind == mcDeposit || mt.kind == mcPay) {
			// refusal of a token transfer is the value false
			took = false
			if len(aer.Stack) == 1 {
				if b, err := aer.Stack[0].TryBool(); err == nil && b {
					took = true
				}
			}
		}
		outcome := "refused"
		if took {
			outcome = "ok"
		}
		gasFault := false
		if mt.gasCut && !halted && GasFault(aer.FaultException) {
			r.Fired("gas.cut")
			gasFault, outcome = true, "gasfault"
		}
		if mt.fault != "" {
			r.Fired(mt.fault)
		}
		if p.vote && !p.member && !p.self {
			r.Inject("vote.stranger")
			r.Fired("vote.stranger")
		}
		if p.vote && took {
			switch {
			case p.fire:
				outcome = "fired"
			case p.member && p.dup:
				r.Inject("vote.duplicate")
				r.Fired("vote.duplicate")
				outcome = "dup"
			case p.member:
				r.Inject("quorum.partial")
				r.Fired("quorum.partial")
			}
			if p.stale {
				r.Inject("vote.stale")
				r.Fired("vote.stale")
				r.Fired("height.gap")
				outcome += "+restart"
			}
		}
		r.Tok(mcKindName[mt.kind], mt.fault, outcome)
		r.Count("outcome." + mcKindName[mt.kind] + "." + outcome)
		r.Tracef("h=%d tx%d %s signers=%s fault=%s gascut=%v model[%s] → %s(%s) %s", h, i, mt.desc, signerNames(mt.signers), mt.fault, mt.gasCut, p.why, aer.VMState, outcome, clipStr(aer.FaultException, 90))
		var gotEvents []string
		var gotMoves, gotMints []mcMove
		if halted {
			// the ledger discards everything a FAULTed transaction did,
			// its notifications included
			gotEvents = e.neofsEvents(aer)
			gotMoves, gotMints = mcGasEvents(w.World, aer)
		}
		switch mt.kind {
		case mcDeposit:
			r.Cell("C19.deposit", fmt.Sprintf("amt%d/data%d/%s", mt.op.Amt, mt.op.Data, outcome))
		case mcWithdraw:
			r.Cell("C19.withdraw", fmt.Sprintf("notaryOff=%v/n%d/fee%s/%s", e.notaryOff, len(m.alpha), m.fee(mcWithdrawFeeKey), outcome))
		case mcPay:
			r.Cell("C19.pay", fmt.Sprintf("token%d/%s/data%d/%s", mt.token, led.who(mt.target), mt.op.Data%3, outcome))
		}
		if p.vote {
			r.Cell("C17.vote", fmt.Sprintf("n%d/%s/%s", len(m.alpha), mcKindName[mt.kind], outcome))
			if mt.kind == mcCandRemove {
				removalVoted[string(mt.cand.key.PublicKey().Bytes())] = true
			}
			// which invocation fires is judged first, from the notification
			if ev, ok := mcFireEvent[mt.kind]; ok && took {
				fired := mcHasPrefix(gotEvents, ev)
				if fired && !p.fire {
					rule := "C17/fired-without-quorum"
					if mt.kind == mcCheque && r.Prop == "C19" {
						// "pays out exactly the cheque amount once the Alphabet approves"
						rule = "C19/cheque-paid-without-approval"
					}
					mcViolation(r, rule, "%s by %s took effect; model: %s (threshold %d of %d)", mt.desc, signerNames(mt.signers), p.why, m.threshold(), len(m.alpha))
				}
				if !fired && p.fire {
					mcViolation(r, "C17/not-fired-at-quorum", "%s by %s completes the quorum (%s) but nothing was announced", mt.desc, signerNames(mt.signers), p.why)
				}
			}
			if took && !p.member && !p.self {
				if i == 0 && firstProbe != nil && firstProbe.State == vmstate.Halt {
					for _, op := range firstProbe.Ops {
						if op.ID == w.NeoFS.ID {
							mcViolation(r, "C17/stranger-changed-state", "%s by %s (not a stored key) HALTs and writes NeoFS storage key %q", mt.desc, signerNames(mt.signers), op.Key)
						}
					}
				}
				outsiderHalted = append(outsiderHalted, mt.desc+" by "+signerNames(mt.signers))
				continue // judged after the block, once the state has been looked at
			}
		}
		if p.exp == dontCare && p.zone == "" {
			p.zone = p.why
		}
		if p.exp == dontCare && !gasFault {
			mode := "notary_off."
			if !e.notaryOff {
				mode = "notary_on."
			}
			r.Count("dontcare." + mode + mcKindName[mt.kind] + "." + strings.ReplaceAll(p.zone, " ", "_") + "." + outcome)
		}
		switch {
		case p.exp == mustRefuse && took:
			mcViolation(r, e.ruleFor(mt, p, true), "%s by %s was accepted; model: %s", mt.desc, signerNames(mt.signers), p.why)
		case p.exp == mustSucceed && !took && !gasFault:
			// a refusal changes nothing: if the rule is another property's the
			// run goes on with the model untouched
			if rule := e.ruleFor(mt, p, false); strings.SplitN(rule, "/", 2)[0] == r.Prop && !r.shadow {
				mcViolation(r, rule, "%s by %s was refused (%s); model: %s", mt.desc, signerNames(mt.signers), aer.FaultException, p.why)
			} else {
				r.Count("foreign_refusal_not_judged." + rule)
			}
		}
		if !took {
			continue
		}
		anyEffect = true
		// step refinement: GAS movements and notifications of this transaction
		if ok, diff := led.sameMoves(p.moves, gotMoves); !ok {
			mcViolation(r, e.moveRule(mt), "%s: GAS movements %s", mt.desc, diff)
		}
		if !p.anyEvents && !mcSameStrings(p.events, gotEvents) {
			mcViolation(r, e.eventRule(mt), "%s: NeoFS notifications expected %q got %q", mt.desc, p.events, gotEvents)
		}
		for _, mv := range gotMoves {
			led.apply(mv)
		}
		for _, mv := range gotMints {
			led.apply(mv) // GAS the ledger itself hands out on NEO balance changes: environment
		}
		if p.apply != nil {
			p.apply()
		}
		r.Changed()
	}
	led.system()
	e.sweep(h, outsiderHalted, removalVoted)
	if !anyEffect && len(outsiderHalted) == 0 && w.StorageDigest(w.NeoFS.ID) != digestBefore {
		rule := "C19/refused-invocation-changed-state"
		if e.notaryOff {
			rule = "C17/stranger-changed-state"
		}
		mcViolation(r, rule, "block %d holds only refused invocations but the storage of NeoFS changed", h)
	}
	r.Checkpoint()
}

func (e *mcEngine) moveRule(mt *mcTx) string {
	switch mt.kind {
	case mcCheque:
		if e.r.Prop == "C17" {
			return "C17/effect-mismatch"
		}
		return "C19/cheque-payout-mismatch"
	case mcAlphaUpd, mcSetCfg, mcCandRemove:
		if e.r.Prop == "C17" {
			return "C17/effect-mismatch"
		}
		return "C19/unexpected-gas-movement"
	case mcCandAdd:
		return "C19/candidate-fee-mismatch"
	case mcDeposit:
		return "C19/deposit-amount-mismatch"
	case mcWithdraw:
		return "C19/withdraw-fee-mismatch"
	}
	return "C19/unexpected-gas-movement"
}

func (e *mcEngine) eventRule(mt *mcTx) string {
	switch mt.kind {
	case mcCheque, mcAlphaUpd, mcSetCfg, mcCandRemove:
		if e.notaryOff {
			return "C17/notification-mismatch"
		}
		return "C19/cheque-notification-mismatch"
	case mcWithdraw:
		return "C19/withdraw-notification-mismatch"
	}
	return "C19/deposit-notification-mismatch"
}

// ---------------------------------------------------------------------------
// Main chain: state invariants and read-API sweep after every block

// rawID is the decision id as the contract keeps it.
func (e *mcEngine) rawID(id string) string {
	if strings.HasPrefix(id, "remove/") {
		for _, c := range e.cands {
			if "remove/"+c.name == id {
				return string(hash.Sha256(append(c.key.PublicKey().Bytes(), []byte("delete")...)).BytesBE())
			}
		}
	}
	return id
}

func (e *mcEngine) sweep(h uint32, outsiderHalted []string, removalVoted map[string]bool) {
	r, w, m, led := e.r, e.w, e.m, e.led
	neofs := w.NeoFS.Hash
	// While an outsider's invocation that HALTed is pending judgement every
	// difference between chain and model is its doing.
	bad := func(rule, format string, a ...any) {
		if len(outsiderHalted) > 0 {
			mcViolation(r, "C17/stranger-changed-state", "after %s: %s", strings.Join(outsiderHalted, "; "), fmt.Sprintf(format, a...))
		}
		mcViolation(r, rule, format, a...)
	}
	// 1. GAS of every party
	if a, have, want, ok := led.mismatch(nil); ok {
		rule := "C19/party-balance-mismatch"
		switch {
		case r.Prop == "C17":
			rule = "C17/payee-gas-mismatch"
		case a == neofs:
			rule = "C19/neofs-balance-mismatch"
		}
		bad(rule, "GAS of %s is %s, the ledger of accepted deposits, fees and cheques gives %s", led.who(a), have, want)
	}
	// 2. configuration
	want := []string{}
	for k, v := range m.config {
		want = append(want, fmt.Sprintf("%s=%x", k, v.val))
	}
	sort.Strings(want)
	it, err := w.Read(neofs, "listConfig")
	if err != nil {
		bad("C17/config-mismatch", "listConfig: %v", err)
	}
	got := []string{}
	for _, rec := range ItemArr(it) {
		f := ItemArr(rec)
		got = append(got, fmt.Sprintf("%s=%x", ItemBytes(f[0]), ItemBytes(f[1])))
	}
	sort.Strings(got)
	if strings.Join(want, ";") != strings.Join(got, ";") {
		bad("C17/config-mismatch", "listConfig gives %v, model %v", got, want)
	}
	for _, k := range []string{"mc.k", "mc.k2", mcWithdrawFeeKey, mcCandidateFeeKey} {
		it, err := w.Read(neofs, "config", []byte(k))
		if err != nil {
			bad("C17/config-mismatch", "config(%s): %v", k, err)
		}
		v, set := m.config[k]
		if _, null := it.(stackitem.Null); null != !set || (set && !bytes.Equal(ItemBytes(it), v.val)) {
			bad("C17/config-mismatch", "config(%s) gives %v, model %x (set=%v)", k, it, v.val, set)
		}
	}
	// 3. Alphabet list, in order
	it, err = w.Read(neofs, "alphabetList")
	if err != nil {
		bad("C17/alphabet-mismatch", "alphabetList: %v", err)
	}
	var list []string
	for _, n := range ItemArr(it) {
		list = append(list, string(ItemBytes(ItemArr(n)[0])))
	}
	if strings.Join(list, "|") != strings.Join(m.alpha, "|") {
		bad("C17/alphabet-mismatch", "alphabetList gives %s, model %s", mcHexList(list), e.listStr(m.alpha))
	}
	// 4. candidates, as a set
	it, err = w.Read(neofs, "innerRingCandidates")
	if err != nil {
		bad("C17/candidates-mismatch", "innerRingCandidates: %v", err)
	}
	onChain := map[string]bool{}
	for _, n := range ItemArr(it) {
		onChain[string(ItemBytes(ItemArr(n)[0]))] = true
	}
	for _, c := range e.cands {
		pub := string(c.key.PublicKey().Bytes())
		switch {
		case onChain[pub] == m.cands[pub]:
		case m.cands[pub] && removalVoted[pub]:
			bad("C17/fired-without-quorum", "candidate %s was removed although no removal reached the quorum", c.name)
		case !m.cands[pub] && removalVoted[pub]:
			bad("C17/not-fired-at-quorum", "candidate %s is still listed although its removal reached the quorum (or was requested by itself)", c.name)
		default:
			bad("C17/candidates-mismatch", "candidate %s: listed=%v, model %v", c.name, onChain[pub], m.cands[pub])
		}
		delete(onChain, pub)
	}
	if len(onChain) != 0 {
		bad("C17/candidates-mismatch", "%d unknown candidates listed", len(onChain))
	}
	// 5. the raw ballot list (Notary disabled): every ballot that still
	// collects votes equals the model's, and no outsider is among the voters.
	// Bookkeeping of C17 alone: when C19 is being decided the run goes on, so
	// that a ballot kept or dropped wrongly is judged by what C19 is about —
	// the GAS a later invocation moves.
	if e.notaryOff && r.Prop != "C19" {
		gotB := map[string]string{}
		if raw := w.BC.GetStorageItem(w.NeoFS.ID, []byte("ballots")); raw != nil {
			arr, err := stackitem.Deserialize(raw)
			if err != nil {
				bad("C17/ballots-mismatch", "ballots item does not deserialize: %v", err)
			}
			for _, b := range ItemArr(arr) {
				f := ItemArr(b)
				id := string(ItemBytes(f[0]))
				var vs []string
				for _, v := range ItemArr(f[1]) {
					pub := string(ItemBytes(v))
					if _, known := e.byPub[pub]; !known {
						mcViolation(r, "C17/stranger-changed-state", "ballot %q counts voter %x which never was a stored Alphabet key (after %v)", id, pub, outsiderHalted)
					}
					vs = append(vs, e.nameOf[pub])
				}
				if int64(h)-ItemInt(f[2]).Int64() > 20 {
					continue // expired, merely not swept yet
				}
				if _, dup := gotB[id]; dup {
					bad("C17/ballots-mismatch", "two open ballots for id %q", id)
				}
				sort.Strings(vs)
				gotB[id] = strings.Join(vs, ",")
			}
		}
		wantB := map[string]string{}
		for id, b := range m.ballots {
			if !b.live(h + 1) {
				continue
			}
			var vs []string
			for _, v := range b.voters {
				vs = append(vs, e.nameOf[v])
			}
			sort.Strings(vs)
			wantB[e.rawID(id)] = strings.Join(vs, ",")
		}
		if len(gotB) == 0 && len(wantB) > 0 && w.BC.GetStorageItem(w.NeoFS.ID, []byte("ballots")) == nil {
			// no item under the documented key at all although votes are being
			// collected (and fire when they should: judged above): the ballots
			// live elsewhere, the raw comparison does not apply
			r.Count("raw_layout_unrecognised.ballots")
		} else if fmt.Sprint(wantB) != fmt.Sprint(gotB) { // fmt prints maps in key order
			bad("C17/ballots-mismatch", "open ballots on chain %q, model %q", fmt.Sprint(gotB), fmt.Sprint(wantB))
		}
	}
	// 6. foreign tokens held by the contracts
	if r.Prop == "C19" {
		for ti, th := range []util.Uint160{e.token, w.NEO} {
			for _, tg := range []util.Uint160{neofs, w.Proc.Hash} {
				have := w.ReadInt(th, "balanceOf", tg)
				wantT := new(big.Int)
				if v, ok := m.tokens[fmt.Sprintf("%d/%s", ti, led.who(tg))]; ok {
					wantT = v
				}
				if have.Cmp(wantT) != 0 {
					bad("C19/foreign-token-accepted", "%s holds %s of token %d, expected %s", led.who(tg), have, ti, wantT)
				}
			}
		}
	}
	if len(outsiderHalted) > 0 {
		mcViolation(r, "C17/stranger-not-rejected", "%s HALTed (no visible change of state)", strings.Join(outsiderHalted, "; "))
	}
}

// ---------------------------------------------------------------------------
// FS chain: Alphabet `emit`, and what Alphabet and Proxy accept as payment

const (
	mcFsEmit = iota
	mcFsFundGAS
	mcFsFundNEO
	mcFsForeign
	mcFsDesignate
	mcFsIdle
	mcFsKinds
)

var mcFsKindName = []string{"emit", "fundGAS", "fundNEO", "foreign", "designate", "idle"}

type mcFsOp struct {
	Kind    int
	C       int // Alphabet contract instance
	Sig     int // signer class of emit
	Amt     int // amount class
	Tgt     int // payment target: an instance or Proxy
	Tok     int // foreign: 0 probe token, 1 NEO
	Size    int // Inner Ring size 1..7
	Variant int // which keys make the Inner Ring
	GasCut  int
	Flush   int
	Dt      int
}

func mcFsGenOp(t *rapid.T) mcFsOp {
	op := mcFsOp{}
	op.Kind = Weighted(t, "kind", []int{40, 22, 10, 10, 10, 8})
	op.C = Pick(t, "c", 3)
	op.Sig = Weighted(t, "sig", []int{54, 8, 6, 6, 6, 6, 5, 5, 4})
	op.Amt = Pick(t, "amt", 14)
	op.Tgt = Pick(t, "tgt", 4)
	op.Tok = Pick(t, "tok", 2)
	op.Size = 1 + Pick(t, "size", 7)
	op.Variant = Pick(t, "variant", 2)
	if Chance(t, "gascut?", 6) {
		op.GasCut = rapid.IntRange(5, 95).Draw(t, "gascut")
	}
	op.Flush = Weighted(t, "flush", []int{40, 60})
	op.Dt = rapid.IntRange(1, 3).Draw(t, "dt")
	return op
}

type mcFsContract struct {
	d     *Deployed
	index int
	neo   *big.Int // NEO the model let it accept
}

type mcFsTx struct {
	op      mcFsOp
	kind    int
	desc    string
	script  []byte
	signers []Signer
	tx      *transaction.Transaction
	fault   string
	gasCut  bool
	c       *mcFsContract
	target  util.Uint160
	amount  *big.Int
	token   int // 0 probe, 1 NEO, 2 GAS
	right   bool
}

type mcFsEngine struct {
	r      *Run
	w      *World
	led    *mcLedger
	cs     []*mcFsContract
	proxy  util.Uint160
	token  util.Uint160
	irPool []*keys.PrivateKey
	user   mcActor
	nDes   int
}

func (e *mcFsEngine) run() {
	t := e.r.T
	ns := []int{1, 3, 4, 7}
	if !Thorough() && Chance(t, "rareN", 12) {
		// sizes with 3k+2 members and the larger even one, now and then
		ns = []int{2, 5, 6}
	}
	if Thorough() {
		ns = []int{1, 3, 4, 7, 2, 5, 6}
	}
	n := ns[Pick(t, "n", len(ns))]
	irSize := Pick(t, "irSize", 8) // 0: role not designated at the start
	irVariant := Pick(t, "irVariant", 2)
	var initGAS, initNEO [3]int
	for i := range initGAS {
		initGAS[i] = Pick(t, "initGAS", 14)
		initNEO[i] = Pick(t, "initNEO", 4)
	}
	ops := OpsSlice(t, rapid.Custom(mcFsGenOp), 40)

	w := e.r.Own(NewFSWorld(FSOpts{N: n, Label: "mcfs", With: []string{"netmap", "proxy"}}))
	e.w = w
	e.proxy = w.C["proxy"].Hash
	base := CompileContract("alphabet")
	// instances: index 0, the last committee index, and an index no committee
	// member has (its emit can never be authorised)
	for i, idx := range []int{0, n - 1, n} {
		art := base // instance 0 is the repository contract as it is
		if i > 0 {
			art = mcRenamed(base, fmt.Sprintf("%s %d", base.Manifest.Name, i))
		}
		d := w.Deploy(fmt.Sprintf("alphabet%d", i), art,
			[]any{false, w.C["netmap"].Hash, e.proxy, []string{"\u2c00\u2c38\u2c4f", "buky", "V\u011bd\u011b"}[i], int64(idx), int64(n)})
		e.cs = append(e.cs, &mcFsContract{d: d, index: idx, neo: new(big.Int)})
	}
	e.r.Sweep = func() []string {
		var out []string
		add := mcSweepAdder(w, &out)
		for i, c := range e.cs {
			for _, m := range []string{"gas", "neo", "name", "version"} {
				add(c.d.Hash, fmt.Sprintf("alphabet%d", i), m)
			}
		}
		add(e.proxy, "proxy", "version")
		return out
	}
	e.token = w.Deploy("token", CompileContract(AuxDir("token")), nil).Hash
	e.user = mcNewActor("u", "mcfs/user")
	for i := 0; i < 7; i++ {
		e.irPool = append(e.irPool, DetKey(fmt.Sprintf("mcfs/ir/%d", i)))
	}
	setup := []*transaction.Transaction{
		w.CallTx([]Signer{w.Validator}, -1, w.GAS, "transfer", w.Validator.Hash, e.user.acc, 100*mcGAS, nil),
		w.CallTx([]Signer{w.Validator}, -1, w.NEO, "transfer", w.Validator.Hash, e.user.acc, int64(100), nil),
		w.CallTx(nil, -1, e.token, "mint", e.user.acc, int64(1000000)),
	}
	if irSize > 0 {
		setup = append(setup, w.CallTx([]Signer{w.Committee}, -1, w.Roles, "designateAsRole", int64(16), e.irKeys(irSize, irVariant)))
	}
	for i, aer := range w.AddBlock(setup, 1) {
		if aer.VMState != vmstate.Halt {
			harnessf("FS chain set-up tx %d: %s", i, aer.FaultException)
		}
	}
	e.r.AddBlock(len(setup), 1)
	e.led = mcNewLedger(w)
	for i, c := range e.cs {
		e.led.track(fmt.Sprintf("A%d", i), c.d.Hash)
	}
	e.led.track("Proxy", e.proxy)
	e.led.track("u", e.user.acc)
	for i, k := range e.irPool {
		e.led.track(fmt.Sprintf("ir%d", i), k.GetScriptHash())
	}
	for i, k := range w.Privs {
		e.led.track(fmt.Sprintf("node%d", i), k.GetScriptHash())
	}
	e.r.Tracef("FS chain: committee=%d, Alphabet instances with index 0, %d, %d; Inner Ring %d keys (variant %d)", n, n-1, n, irSize, irVariant)

	// opening payments: ordinary, judged operations
	var pending []*mcFsTx
	for i := range initGAS {
		pending = append(pending, e.build(mcFsOp{Kind: mcFsFundGAS, Tgt: i, Amt: initGAS[i]}), e.build(mcFsOp{Kind: mcFsFundNEO, C: i, Amt: initNEO[i]}))
	}
	e.block(pending, 1)
	pending = nil
	for _, op := range ops {
		if op.Kind == mcFsIdle {
			e.block(pending, 1)
			pending = nil
			for i := 0; i <= op.Amt%3; i++ {
				e.block(nil, uint64(op.Dt))
			}
			continue
		}
		pending = append(pending, e.build(op))
		if op.Flush > 0 || len(pending) >= 5 {
			e.block(pending, uint64(op.Dt))
			pending = nil
		}
	}
	e.block(pending, 1)
}

// irKeys: variant 0 takes keys that are nobody else; variant 1 starts with
// the committee's own keys (as in production, where the Alphabet nodes are
// part of the Inner Ring).
func (e *mcFsEngine) irKeys(size, variant int) []any {
	var pool []*keys.PrivateKey
	if variant == 1 {
		pool = append(pool, e.w.Privs...)
	}
	pool = append(pool, e.irPool...)
	out := make([]any, size)
	for i := 0; i < size; i++ {
		out[i] = pool[i].PublicKey().Bytes()
	}
	return out
}

func (e *mcFsEngine) build(op mcFsOp) *mcFsTx {
	w := e.w
	ft := &mcFsTx{op: op, kind: op.Kind, c: e.cs[op.C%len(e.cs)]}
	var script []byte
	switch op.Kind {
	case mcFsEmit:
		c := ft.c
		var node *keys.PrivateKey
		if c.index < len(w.Privs) {
			node = w.Privs[c.index]
		}
		stranger := DetKey("mcfs/stranger")
		right := func(sc transaction.WitnessScope) []Signer {
			if node == nil {
				return []Signer{Single("node0", w.Privs[0]).WithScope(sc)}
			}
			return []Signer{Single(fmt.Sprintf("node%d", c.index), node).WithScope(sc)}
		}
		switch op.Sig {
		case 0:
			ft.signers = right(transaction.Global)
		case 1: // another Alphabet node
			o := (c.index + 1) % len(w.Privs)
			ft.signers, ft.fault = []Signer{Single(fmt.Sprintf("node%d", o), w.Privs[o])}, "wit.other_key"
			if len(w.Privs) == 1 {
				ft.signers = []Signer{Single("stranger", stranger)}
			}
		case 2:
			ft.signers, ft.fault = []Signer{Single("stranger", stranger)}, "wit.missing"
		case 3:
			ft.signers, ft.fault = []Signer{w.Alphabet, w.Committee}, "wit.other_key"
		case 4:
			ft.signers, ft.fault = right(transaction.None), "wit.scope"
		case 5:
			ft.signers = right(transaction.CalledByEntry)
		case 6:
			ft.fault = "wit.missing"
		case 8:
			// the Inner Ring node at this contract's position in the designated
			// list: it is paid by emit, it does not authorise it (the Alphabet
			// node at that position in the committee does)
			ft.signers, ft.fault = []Signer{Single("stranger", stranger)}, "wit.missing"
			if ir, _, err := w.BC.GetDesignatedByRole(noderoles.NeoFSAlphabet); err == nil && c.index < len(ir) {
				for i, k := range e.irPool {
					if k.PublicKey().Equal(ir[c.index]) {
						ft.signers, ft.fault = []Signer{Single(fmt.Sprintf("ir%d", i), k)}, "wit.other_key"
						e.r.Count("probe.emit_by_inner_ring_node_at_the_contract_index")
					}
				}
			}
		default:
			ft.signers = append(right(transaction.Global), Single("stranger", stranger))
		}
		ft.right = node != nil && mcWit(ft.signers, node.GetScriptHash(), 0)
		if node == nil && ft.fault == "" {
			ft.fault = "wit.other_key"
		}
		ft.desc = fmt.Sprintf("A%d(index %d).emit()", op.C%len(e.cs), c.index)
		script = CallScript(c.d.Hash, "emit")
	case mcFsFundGAS:
		ft.token = 2
		tname := "Proxy"
		ft.target = e.proxy
		if op.Tgt < 3 {
			ft.target, tname = e.cs[op.Tgt].d.Hash, fmt.Sprintf("A%d", op.Tgt)
		}
		have := e.led.get(ft.target)
		amounts := []int64{1, 2, 3, 15, 16, 17, 1000, 12345677, 1 * mcGAS, 999_999_999_999, 1_000_000_000_000, 1_000_000_000_001, 0}
		if op.Amt < len(amounts) {
			ft.amount = mcBig(amounts[op.Amt])
		} else if d := new(big.Int).Sub(mcBig(1_000_000_000_000), have); d.Sign() > 0 {
			ft.amount = d // fill up to exactly 10^12
		} else {
			ft.amount = mcBig(7)
		}
		ft.signers = []Signer{w.Validator}
		ft.desc = fmt.Sprintf("GAS.transfer(genesis→%s, %s)", tname, ft.amount)
		script = CallScript(w.GAS, "transfer", w.Validator.Hash, ft.target, ft.amount, nil)
	case mcFsFundNEO:
		ft.token = 1
		ft.target = ft.c.d.Hash
		ft.amount = mcBig([]int64{1, 100, 1000000, 0}[op.Amt%4])
		ft.signers = []Signer{w.Validator}
		ft.desc = fmt.Sprintf("NEO.transfer(genesis→A%d, %s)", op.C%len(e.cs), ft.amount)
		script = CallScript(w.NEO, "transfer", w.Validator.Hash, ft.target, ft.amount, nil)
	case mcFsForeign:
		ft.token = op.Tok
		tname := "Proxy"
		ft.target = e.proxy
		if op.Tgt < 3 && op.Tok == 0 {
			ft.target, tname = e.cs[op.Tgt].d.Hash, fmt.Sprintf("A%d", op.Tgt)
		}
		ft.amount = mcBig([]int64{1, 5, 0}[op.Amt%3])
		ft.signers = []Signer{Single("u", e.user.key)}
		th := []util.Uint160{e.token, w.NEO}[op.Tok]
		ft.desc = fmt.Sprintf("%s.transfer(u→%s, %s)", []string{"probe", "NEO"}[op.Tok], tname, ft.amount)
		script = CallScript(th, "transfer", e.user.acc, ft.target, ft.amount, nil)
	case mcFsDesignate:
		e.nDes++
		ft.signers = []Signer{w.Committee}
		ft.desc = fmt.Sprintf("designate Inner Ring: %d keys (variant %d)", op.Size, op.Variant)
		script = CallScript(w.Roles, "designateAsRole", int64(16), e.irKeys(op.Size, op.Variant))
	}
	sysFee := int64(-1)
	if op.GasCut > 0 && op.Kind == mcFsEmit {
		p := w.WhatIf(script, ft.signers, 1)
		if p.State == vmstate.Halt && p.GAS > 0 {
			sysFee = p.GAS * int64(op.GasCut) / 100
			ft.gasCut = true
			e.r.Inject("gas.cut")
		}
	}
	ft.script = script
	ft.tx = w.Tx(script, ft.signers, sysFee)
	if ft.fault != "" {
		e.r.Inject(ft.fault)
	}
	return ft
}

func (e *mcFsEngine) block(pending []*mcFsTx, dt uint64) {
	r, w, led := e.r, e.w, e.led
	// The Inner Ring every emit of this block sees: environment input (native
	// RoleManagement, asked the way common.InnerRingNodes asks: role
	// NeoFSAlphabet at height+1). A designation takes effect in the next block.
	var ir []util.Uint160
	it, err := w.Read(w.Roles, "getDesignatedByRole", int64(16), int64(w.Height()+1))
	if err != nil {
		harnessf("getDesignatedByRole: %v", err)
	}
	for _, k := range ItemArr(it) {
		pk, err := keys.NewPublicKeyFromBytes(ItemBytes(k), elliptic.P256())
		must(err)
		ir = append(ir, pk.GetScriptHash())
	}
	txs := make([]*transaction.Transaction, len(pending))
	for i, ft := range pending {
		txs[i] = ft.tx
	}
	aers := w.AddBlock(txs, dt)
	r.AddBlock(len(txs), dt)
	h := w.Height()
	if len(pending) > 1 {
		r.Inject("sched.pack")
		r.Fired("sched.pack")
	}
	for i, ft := range pending {
		aer := aers[i]
		halted := aer.VMState == vmstate.Halt
		took := halted
		if halted && ft.kind != mcFsEmit && ft.kind != mcFsDesignate {
			took = false
			if len(aer.Stack) == 1 {
				if b, err := aer.Stack[0].TryBool(); err == nil && b {
					took = true
				}
			}
		}
		outcome := "refused"
		if took {
			outcome = "ok"
		}
		gasFault := false
		if ft.gasCut && !halted && GasFault(aer.FaultException) {
			r.Fired("gas.cut")
			gasFault, outcome = true, "gasfault"
		}
		if ft.fault != "" {
			r.Fired(ft.fault)
		}
		r.Tok(mcFsKindName[ft.kind], ft.fault, outcome)
		r.Count("outcome." + mcFsKindName[ft.kind] + "." + outcome)
		r.Tracef("h=%d tx%d %s signers=%s fault=%s gascut=%v IR=%d → %s %s", h, i, ft.desc, signerNames(ft.signers), ft.fault, ft.gasCut, len(ir), aer.VMState, clipStr(aer.FaultException, 90))
		var moves, mints []mcMove
		if halted {
			moves, mints = mcGasEvents(w, aer)
		}
		switch ft.kind {
		case mcFsEmit:
			c := ft.c.d.Hash
			if !ft.right {
				if took {
					mcViolation(r, "C19/emit-unauthorised", "%s by %s was accepted (the contract's own node is committee key %d)", ft.desc, signerNames(ft.signers), ft.c.index)
				}
				continue
			}
			if !took {
				// g is the balance after the NEO self-transfer, so it is at
				// least the balance before: with 2 or more and a non-empty
				// Inner Ring there is something to send. (Don't-care zones: g < 2
				// — nothing to halve — and an empty Inner Ring.)
				if led.get(c).Cmp(mcBig(2)) >= 0 && len(ir) > 0 && !gasFault {
					mcViolation(r, "C19/emit-refused", "%s by its own node refused (%s) with %s GAS and %d Inner Ring nodes", ft.desc, aer.FaultException, led.get(c), len(ir))
				}
				continue
			}
			// g = the contract's balance before the transaction (ledger) plus
			// what the native GAS contract minted to it inside this
			// transaction, i.e. the GAS `Transfer` notifications with a null
			// sender and the contract as receiver (the reward released by the
			// NEO self-transfer that opens emit).
			g := new(big.Int).Set(led.get(c))
			for _, mv := range mints {
				if mv.fromNil && !mv.toNil && mv.to == c {
					g.Add(g, mv.amount)
				}
			}
			half := new(big.Int).Rsh(g, 1)
			rest := new(big.Int).Sub(g, half)
			exp := []mcMove{mcMv(c, e.proxy, half)}
			per := new(big.Int)
			if len(ir) > 0 {
				per = new(big.Int).Mul(rest, mcBig(7))
				per.Div(per, mcBig(8))
				per.Div(per, mcBig(int64(len(ir))))
				for _, a := range ir {
					exp = append(exp, mcMv(c, a, per))
				}
			}
			gc := "big"
			switch {
			case g.Cmp(mcBig(16)) < 0:
				gc = g.String()
			case per.Sign() == 0:
				gc = "per-node-0"
			case g.Cmp(mcBig(1_000_000_000_000)) >= 0:
				gc = ">=10^12"
			}
			r.Cell("C19.emit", fmt.Sprintf("N%d/g=%s", len(ir), gc))
			if ok, diff := led.sameMoves(exp, moves); !ok {
				mcViolation(r, "C19/emit-split-mismatch", "%s with g=%s, N=%d: %s", ft.desc, g, len(ir), diff)
			}
			r.Changed()
		case mcFsFundGAS:
			if !took {
				mcViolation(r, "C19/gas-payment-refused", "%s refused: %s", ft.desc, aer.FaultException)
			}
		case mcFsFundNEO:
			if !took {
				mcViolation(r, "C19/gas-payment-refused", "%s (NEO to an Alphabet contract) refused: %s", ft.desc, aer.FaultException)
			}
			ft.c.neo.Add(ft.c.neo, ft.amount)
		case mcFsForeign:
			if took {
				mcViolation(r, "C19/foreign-token-accepted", "%s was accepted", ft.desc)
			}
			if !halted {
				r.Inject("callee.reject")
				r.Fired("callee.reject")
			}
		}
		if !took {
			continue
		}
		for _, mv := range moves {
			led.apply(mv)
		}
		for _, mv := range mints {
			led.apply(mv)
		}
	}
	led.system()
	// every party's GAS equals the ledger (so nothing is created or lost)
	if a, have, want, ok := led.mismatch(nil); ok {
		mcViolation(r, "C19/party-balance-mismatch", "GAS of %s is %s, the ledger gives %s", led.who(a), have, want)
	}
	if len(pending) > 0 {
		for i, c := range e.cs {
			if v := w.ReadInt(e.token, "balanceOf", c.d.Hash); v.Sign() != 0 {
				mcViolation(r, "C19/foreign-token-accepted", "A%d holds %s probe tokens", i, v)
			}
			if v := w.ReadInt(w.NEO, "balanceOf", c.d.Hash); v.Cmp(c.neo) != 0 {
				mcViolation(r, "C19/party-balance-mismatch", "A%d holds %s NEO, expected %s", i, v, c.neo)
			}
		}
		for _, th := range []util.Uint160{e.token, w.NEO} {
			if v := w.ReadInt(th, "balanceOf", e.proxy); v.Sign() != 0 {
				mcViolation(r, "C19/foreign-token-accepted", "Proxy holds %s of a token that is not GAS", v)
			}
		}
	}
	r.Checkpoint()
}
