package siml

// Balance engine: decides C01 (conservation), C02 (authorised debits) and C09
// (locks). One workload, one reference model; which rules are reported is
// selected by VERIF_PROP. See DESIGN.md §5.

import (
	"bytes"
	"fmt"
	"math/big"
	"sort"
	"strings"
	"testing"

	"github.com/nspcc-dev/neo-go/pkg/core/state"
	"github.com/nspcc-dev/neo-go/pkg/core/transaction"
	"github.com/nspcc-dev/neo-go/pkg/crypto/hash"
	"github.com/nspcc-dev/neo-go/pkg/crypto/keys"
	"github.com/nspcc-dev/neo-go/pkg/util"
	"github.com/nspcc-dev/neo-go/pkg/vm/stackitem"
	"github.com/nspcc-dev/neo-go/pkg/vm/vmstate"
	"pgregory.net/rapid"
)

// ---- abstract operations (drawn up-front so that rapid can delete steps) ----

const (
	bTransfer = iota
	bMint
	bTick
	bLock
	bBurn
	bTransferX
	bProbeMove
	bDirectEpoch
	bKinds
)

var bKindName = []string{"transfer", "mint", "tick", "lock", "burn", "transferX", "probeMove", "balance.newEpoch"}

type balOp struct {
	Kind   int
	From   int // account index
	To     int
	Amt    int // amount class
	Sig    int // signer class
	Until  int // lock: until = epoch + Until - 2
	Epoch  int // tick argument class
	GasCut int // 0 = none, else percent of the measured need
	Flush  int // 0 keep collecting, 1 close block, 2 close block and add empty ones
	Dt     int
}

func genBalOp(t *rapid.T) balOp {
	op := balOp{}
	kw := []int{30, 14, 10, 12, 10, 10, 8, 3}
	switch Prop() {
	case "C02":
		kw = []int{40, 8, 6, 8, 6, 8, 20, 2}
	case "C09":
		kw = []int{12, 8, 25, 30, 15, 4, 2, 6}
	}
	op.Kind = Weighted(t, "kind", kw)
	op.From = rapid.IntRange(0, 11).Draw(t, "from")
	op.To = rapid.IntRange(0, 11).Draw(t, "to")
	op.Amt = Weighted(t, "amt", []int{20, 10, 10, 8, 8, 8, 8, 4, 4, 4})
	op.Sig = Weighted(t, "sig", []int{60, 6, 6, 6, 6, 6, 5, 5})
	op.Until = rapid.IntRange(0, 5).Draw(t, "until")
	op.Epoch = Weighted(t, "epoch", []int{70, 8, 8, 8, 6})
	if Chance(t, "gascut?", 6) {
		op.GasCut = rapid.IntRange(5, 95).Draw(t, "gascut")
	}
	op.Flush = Weighted(t, "flush", []int{45, 50, 5})
	op.Dt = rapid.IntRange(1, 3).Draw(t, "dt")
	return op
}

// ---- reference model -----------------------------------------------------

type balLock struct {
	until  int64
	parent string
}

type balModel struct {
	bal    map[string]*big.Int
	locks  map[string]*balLock
	supply *big.Int
	epoch  int64
	// fold of every Transfer notification since genesis
	notif map[string]*big.Int
	// locks already refunded once (never again)
	refunded map[string]bool
	// owners a lock was released to in the block being judged
	blkRefundTo map[string]bool
}

func newBalModel() *balModel {
	return &balModel{bal: map[string]*big.Int{}, locks: map[string]*balLock{}, supply: new(big.Int), notif: map[string]*big.Int{}, refunded: map[string]bool{}, blkRefundTo: map[string]bool{}}
}

func (m *balModel) get(a string) *big.Int {
	if v, ok := m.bal[a]; ok {
		return v
	}
	return new(big.Int)
}

func (m *balModel) add(a string, d *big.Int) {
	v := new(big.Int).Add(m.get(a), d)
	m.bal[a] = v
}

type expect int

const (
	mustRefuse expect = iota
	mustSucceed
	dontCare
)

type balEvent struct {
	name     string
	from, to string
	amount   *big.Int
}

func (e balEvent) key() string {
	return fmt.Sprintf("%s|%x|%x|%s", e.name, e.from, e.to, e.amount)
}

// ---- the run ---------------------------------------------------------------

type balActor struct {
	name string
	addr []byte // what is passed as the address argument
	key  *keys.PrivateKey
	null bool // the argument is the VM's Null, not a byte string
}

// arg is the address as a call argument.
func (a balActor) arg() any {
	if a.null {
		return nil
	}
	return a.addr
}

type balEngine struct {
	r        *Run
	w        *World
	m        *balModel
	bal, nm  util.Uint160
	holder   util.Uint160
	users    []balActor
	stranger *keys.PrivateKey
	lockAccs [][]byte
	nLock    int
	allowNeg bool
	allowBad bool
}

type balTx struct {
	op       balOp
	tx       *transaction.Transaction
	signers  []Signer
	kind     int
	from     []byte
	to       []byte
	amount   *big.Int
	until    int64
	epoch    int64
	gasCut   bool
	viaProbe bool
	desc     string
	sigKind  string
}

func balBody(r *Run) {
	e := &balEngine{r: r}
	e.run()
}

func init() { RegisterEngine("balance", []string{"C01", "C02", "C09"}, balBody) }

func TestBalance(t *testing.T) { Sim(t, balBody) }

func (e *balEngine) run() {
	t := e.r.T
	ns := []int{1, 3, 4, 7}
	if !Thorough() && Chance(t, "rareN", 12) {
		// sizes with 3k+2 members and the larger even one, now and then
		ns = []int{2, 5, 6}
	}
	if Thorough() {
		ns = []int{1, 3, 4, 7, 2, 5, 6}
	}
	n := ns[Pick(t, "n", len(ns))]
	e.allowNeg = Chance(t, "allowNegative", 70)
	e.allowBad = Chance(t, "allowMalformed", 70)
	funded := make([]bool, 5)
	for i := range funded {
		funded[i] = Chance(t, "funded", 75)
	}
	ops := OpsSlice(t, rapid.Custom(genBalOp), 60)

	w := e.r.Own(NewFSWorld(FSOpts{N: n, Label: "bal", With: []string{"netmap", "balance"}}))
	e.w = w
	e.bal, e.nm = w.C["balance"].Hash, w.C["netmap"].Hash
	e.holder = w.Deploy("holder", CompileContract(AuxDir("holder")), nil).Hash
	e.m = newBalModel()
	for i := 0; i < 4; i++ {
		k := DetKey(fmt.Sprintf("bal/user/%d", i))
		e.users = append(e.users, balActor{name: fmt.Sprintf("u%d", i), addr: k.GetScriptHash().BytesBE(), key: k})
	}
	e.users = append(e.users, balActor{name: "holder", addr: e.holder.BytesBE()})
	ek := DetKey("bal/user/empty")
	e.users = append(e.users, balActor{name: "empty", addr: ek.GetScriptHash().BytesBE(), key: ek})
	// the token contract's own address is an account like any other: it can be
	// paid, and nobody holds its witness
	e.users = append(e.users, balActor{name: "balance-itself", addr: e.bal.BytesBE()})
	// a deployed contract that throws from its payment callbacks: Balance keeps
	// balances per address and announces nothing, so it is one more address
	e.users = append(e.users, balActor{name: "rejector", addr: w.Deploy("rejector", CompileContract(AuxDir("rejector")), nil).Hash.BytesBE()})
	e.stranger = DetKey("bal/stranger")
	e.r.Tracef("world n=%d alphabet=%d-of-%d committee=%d-of-%d allowNeg=%v allowBad=%v", n, n*2/3+1, n, n/2+1, n, e.allowNeg, e.allowBad)
	e.r.Sweep = func() []string {
		var out []string
		add := func(h util.Uint160, c, m string, args ...any) {
			it, err := w.Read(h, m, args...)
			var sb strings.Builder
			if err != nil {
				sb.WriteString("FAULT")
			} else {
				itemRepr(&sb, it, 0)
			}
			out = append(out, fmt.Sprintf("%s.%s(%x)=%s", c, m, args, sb.String()))
		}
		for _, u := range e.users {
			add(e.bal, "balance", "balanceOf", u.addr)
		}
		for _, la := range e.lockAccs {
			add(e.bal, "balance", "balanceOf", la)
		}
		for _, m := range []string{"totalSupply", "symbol", "decimals", "version"} {
			add(e.bal, "balance", m)
		}
		raw := RawBalanceAccounts(w.Scan(w.C["balance"].ID, nil))
		var addrs []string
		for a := range raw {
			addrs = append(addrs, a)
		}
		sort.Strings(addrs)
		for _, a := range addrs {
			// lock metadata is not reachable through the API; it decides what the
			// next tick returns, so it is part of what an upgrade must preserve
			out = append(out, fmt.Sprintf("balance.account[%x]=%x", a, raw[a].Value))
		}
		for _, m := range []string{"epoch", "netmap", "netmapCandidates", "listConfig", "version"} {
			add(e.nm, "netmap", m)
		}
		return out
	}

	// initial funding (part of the history: ordinary Alphabet mints)
	var pending []*balTx
	for i := 0; i < 5; i++ {
		if funded[i] {
			pending = append(pending, e.build(balOp{Kind: bMint, To: i, Amt: i % 3, From: 7 * i}))
		}
	}
	if len(pending) > 0 {
		e.block(pending, 1)
		pending = nil
	}
	flush := func(extraEmpty int, dt int) {
		e.block(pending, uint64(dt))
		pending = nil
		for i := 0; i < extraEmpty; i++ {
			e.block(nil, 1)
		}
	}
	for _, op := range ops {
		if op.Kind == bLock && Prop() == "C09" && op.To%3 == 0 {
			// order of two parties: somebody's zero-amount transfer reaches the
			// address of the lock account right before the Alphabet's lock does
			// (the address is derived from a public withdraw request; a zero
			// transfer destroys nothing, so C01's "fresh target" restriction is
			// not what this is about). The lock must behave as on a fresh one.
			u := e.users[op.To%4]
			la := hash.Hash160([]byte(fmt.Sprintf("lock/%d", e.nLock+1))).BytesBE()
			d := &balTx{op: balOp{Kind: bTransfer}, kind: bTransfer}
			d.from, d.to, d.amount = u.addr, la, big.NewInt(0)
			d.signers = []Signer{Single(u.name, u.key)}
			d.desc = fmt.Sprintf("transfer(%s→future lock#%d, 0)", u.name, e.nLock+1)
			e.finishTx(d, "sched.reorder", CallScript(e.bal, "transfer", u.addr, la, big.NewInt(0), nil))
			e.r.Fired("sched.reorder")
			e.r.Count("probe.lock_target_touched_by_zero_transfer_first")
			pending = append(pending, d)
			if op.To%2 == 0 {
				flush(0, 1)
			}
		}
		bt := e.build(op)
		if bt == nil {
			continue
		}
		pending = append(pending, bt)
		if op.Flush > 0 || len(pending) >= 6 {
			extra := 0
			if op.Flush == 2 {
				extra = 2
			}
			flush(extra, op.Dt)
		}
	}
	if len(pending) > 0 {
		flush(0, 1)
	}
}

// account resolves an abstract account index: users, the holder contract, the
// never-funded user, then (if asked for) lock accounts created so far and
// malformed addresses.
func (e *balEngine) account(idx int, allowMalformed, allowLocks bool) balActor {
	nl := 0
	if allowLocks {
		nl = len(e.lockAccs)
	}
	pool := len(e.users) + nl
	if allowMalformed && e.allowBad {
		pool += 4
	}
	i := idx % pool
	if i < len(e.users) {
		return e.users[i]
	}
	i -= len(e.users)
	if i < nl {
		return balActor{name: fmt.Sprintf("lock#%d", i+1), addr: e.lockAccs[i]}
	}
	i -= nl
	switch i {
	case 0:
		return balActor{name: "nil", addr: []byte{}}
	case 1:
		return balActor{name: "short19", addr: bytes.Repeat([]byte{7}, 19)}
	case 2:
		return balActor{name: "long21", addr: bytes.Repeat([]byte{9}, 21)}
	default:
		// what the contract itself uses for "no account" in mint and burn
		return balActor{name: "null", addr: []byte{}, null: true}
	}
}

var (
	big1   = big.NewInt(1)
	pow63  = new(big.Int).Lsh(big1, 63)
	pow120 = new(big.Int).Lsh(big1, 120)
)

func (e *balEngine) amount(class int, have, toHave *big.Int) (*big.Int, string) {
	neg := func(v *big.Int, f string) (*big.Int, string) {
		if !e.allowNeg {
			return big.NewInt(1), ""
		}
		return v, f
	}
	switch class {
	case 0: // small valid
		if have.Sign() > 0 {
			return big.NewInt(1), ""
		}
		return big.NewInt(1), "arg.boundary"
	case 1:
		return new(big.Int).Set(have), ""
	case 2:
		if have.Sign() > 0 {
			return new(big.Int).Sub(have, big1), ""
		}
		return big.NewInt(0), ""
	case 3:
		h := new(big.Int).Rsh(have, 1)
		return h, ""
	case 4:
		return big.NewInt(0), "arg.boundary"
	case 5:
		return new(big.Int).Add(have, big1), "arg.boundary"
	case 6:
		return neg(big.NewInt(-1), "arg.negative")
	case 7:
		if toHave.Sign() > 0 {
			return neg(new(big.Int).Neg(toHave), "arg.negative")
		}
		return neg(big.NewInt(-400), "arg.negative")
	case 8:
		return new(big.Int).Set(pow63), "arg.boundary"
	default:
		return new(big.Int).Set(pow120), "arg.boundary"
	}
}

func (e *balEngine) build(op balOp) *balTx {
	w := e.w
	bt := &balTx{op: op, kind: op.Kind}
	fault := ""
	switch op.Kind {
	case bTransfer, bProbeMove:
		from := e.account(op.From, true, true)
		to := e.account(op.To, true, true)
		if op.Kind == bProbeMove && op.Sig == 0 {
			from = e.users[4] // the holder moves its own funds
		}
		amt, f := e.amount(op.Amt, e.m.get(string(from.addr)), e.m.get(string(to.addr)))
		fault = f
		bt.from, bt.to, bt.amount = from.addr, to.addr, amt
		var signers []Signer
		switch op.Sig {
		case 0:
			if from.key != nil {
				signers = []Signer{Single(from.name, from.key)}
			} else {
				fault, bt.sigKind = orStr(fault, "wit.missing"), "none"
			}
		case 1:
			if to.key != nil {
				signers = []Signer{Single(to.name, to.key)}
			}
			if !bytes.Equal(from.addr, to.addr) {
				fault = "wit.other_key"
			}
		case 2:
			signers = []Signer{Single("stranger", e.stranger)}
			fault = "wit.missing"
		case 3:
			signers = []Signer{w.Alphabet}
			fault = "wit.other_key"
		case 4:
			signers = []Signer{Single("member0", w.Privs[0])}
			fault = "wit.single"
		case 5:
			signers = []Signer{w.Committee}
			fault = "wit.other_key"
		case 6:
			fault = "wit.missing"
		default:
			if from.key != nil {
				signers = []Signer{Single(from.name, from.key).WithScope(transaction.None)}
			}
			fault = "wit.scope"
		}
		bt.signers = signers
		if op.Kind == bProbeMove {
			bt.viaProbe = true
			bt.tx = nil
			bt.desc = fmt.Sprintf("holder.move(%s→%s, %s)", from.name, to.name, amt)
			e.finishTx(bt, fault, w.holderCall(e.holder, e.bal, from.addr, to.addr, amt))
		} else {
			bt.desc = fmt.Sprintf("transfer(%s→%s, %s)", from.name, to.name, amt)
			e.finishTx(bt, fault, CallScript(e.bal, "transfer", from.arg(), to.arg(), amt, nil))
		}
	case bTransferX:
		// the Alphabet never moves funds *out of* a lock account other than by
		// burn or expiry (outside C09's quantifier), so `from` is never a lock
		from := e.account(op.From, false, false)
		to := e.account(op.To, false, true)
		amt, f := e.amount(op.Amt, e.m.get(string(from.addr)), e.m.get(string(to.addr)))
		signers, sf := AlphaSignerClass(e.w, op.Sig, e.stranger)
		bt.from, bt.to, bt.amount, bt.signers = from.addr, to.addr, amt, signers
		bt.desc = fmt.Sprintf("transferX(%s→%s, %s)", from.name, to.name, amt)
		e.finishTx(bt, orStr(sf, f), CallScript(e.bal, "transferX", from.addr, to.addr, amt, []byte("x")))
	case bMint:
		to := e.account(op.To, false, true)
		var amt *big.Int
		f := ""
		switch op.Amt {
		case 4:
			amt, f = big.NewInt(0), "arg.boundary"
		case 6, 7:
			amt, f = e.amount(op.Amt, new(big.Int), e.m.get(string(to.addr)))
		case 8:
			amt, f = new(big.Int).Set(pow63), "arg.boundary"
		case 9:
			amt, f = new(big.Int).Set(pow120), "arg.boundary"
		default:
			amt = big.NewInt(int64(100*(op.Amt+1) + op.From))
		}
		signers, sf := AlphaSignerClass(e.w, op.Sig, e.stranger)
		bt.to, bt.amount, bt.signers = to.addr, amt, signers
		bt.desc = fmt.Sprintf("mint(%s, %s)", to.name, amt)
		e.finishTx(bt, orStr(sf, f), CallScript(e.bal, "mint", to.addr, amt, []byte("m")))
	case bBurn:
		from := e.account(op.From, false, true)
		if Prop() == "C09" && len(e.lockAccs) > 0 && op.To%10 < 7 {
			i := op.From % len(e.lockAccs)
			from = balActor{name: fmt.Sprintf("lock#%d", i+1), addr: e.lockAccs[i]}
		}
		amt, f := e.amount(op.Amt, e.m.get(string(from.addr)), new(big.Int))
		signers, sf := AlphaSignerClass(e.w, op.Sig, e.stranger)
		bt.from, bt.amount, bt.signers = from.addr, amt, signers
		bt.desc = fmt.Sprintf("burn(%s, %s)", from.name, amt)
		e.finishTx(bt, orStr(sf, f), CallScript(e.bal, "burn", from.addr, amt, []byte("b")))
	case bLock:
		// C09 speaks of locks of ordinary owners. Under C01/C02 the funds of a
		// lock may also come from an earlier lock account (a well-formed address
		// like any other): one tick then moves one account twice
		from := e.account(op.From, false, Prop() != "C09")
		if e.m.locks[string(from.addr)] != nil {
			e.r.Count("probe.lock_funded_from_a_lock_account")
		}
		e.nLock++
		la := hash.Hash160([]byte(fmt.Sprintf("lock/%d", e.nLock))).BytesBE()
		amt, f := e.amount(op.Amt, e.m.get(string(from.addr)), new(big.Int))
		until := e.m.epoch + int64(op.Until) - 2
		if until < 0 {
			until = 0
		}
		signers, sf := AlphaSignerClass(e.w, op.Sig, e.stranger)
		bt.from, bt.to, bt.amount, bt.until, bt.signers = from.addr, la, amt, until, signers
		bt.desc = fmt.Sprintf("lock(%s→lock#%d, %s, until=%d)", from.name, e.nLock, amt, until)
		e.finishTx(bt, orStr(sf, f), CallScript(e.bal, "lock", []byte("l"), from.addr, la, amt, until))
	case bTick, bDirectEpoch:
		var ep int64
		f := ""
		switch op.Epoch {
		case 0:
			ep = e.m.epoch + 1
		case 1:
			ep, f = e.m.epoch, "arg.stale_id"
		case 2:
			ep, f = e.m.epoch-1, "arg.stale_id"
		case 3:
			ep, f = e.m.epoch+2, "epoch.jump"
		default:
			ep, f = e.m.epoch+5, "epoch.jump"
		}
		signers, sf := AlphaSignerClass(e.w, op.Sig, e.stranger)
		bt.epoch, bt.signers = ep, signers
		if op.Kind == bTick {
			bt.desc = fmt.Sprintf("netmap.newEpoch(%d)", ep)
			e.finishTx(bt, orStr(sf, f), CallScript(e.nm, "newEpoch", ep))
		} else {
			bt.desc = fmt.Sprintf("balance.newEpoch(%d)", ep)
			e.finishTx(bt, orStr(sf, f), CallScript(e.bal, "newEpoch", ep))
		}
	}
	return bt
}

func orStr(a, b string) string {
	if a != "" {
		return a
	}
	return b
}

func (w *World) holderCall(holder, token util.Uint160, from, to []byte, amt *big.Int) []byte {
	return CallScript(holder, "move", token, from, to, amt)
}

func (e *balEngine) finishTx(bt *balTx, fault string, script []byte) {
	sysFee := int64(-1)
	if bt.op.GasCut > 0 {
		p := e.w.WhatIf(script, bt.signers, 1)
		if p.State == vmstate.Halt && p.GAS > 0 {
			sysFee = p.GAS * int64(bt.op.GasCut) / 100
			bt.gasCut = true
			e.r.Inject("gas.cut")
		}
	}
	bt.tx = e.w.Tx(script, bt.signers, sysFee)
	bt.sigKind = fault
	if fault != "" {
		e.r.Inject(fault)
	}
	// register the lock address so that later operations may target it
	if bt.kind == bLock {
		e.lockAccs = append(e.lockAccs, bt.to)
	}
}

func (e *balEngine) alphabetWitness(bt *balTx, depth int) bool {
	return Witness(bt.signers, e.w.Alphabet.Hash.BytesBE(), depth)
}

// predict computes, from the property statements, what tx must do in the
// current model state. It returns the expectation and, for the success case,
// the balance events and a function applying the effects.
func (e *balEngine) predict(bt *balTx) (expect, []balEvent, func()) {
	m := e.m
	nonneg := bt.amount == nil || bt.amount.Sign() >= 0
	xfer := func(from, to []byte, amt *big.Int) ([]balEvent, func()) {
		f, t := string(from), string(to)
		evs := []balEvent{{"Transfer", f, t, amt}, {"TransferX", f, t, amt}}
		return evs, func() {
			if len(from) == 20 {
				m.add(f, new(big.Int).Neg(amt))
			}
			if len(to) == 20 {
				m.add(t, amt)
			}
		}
	}
	switch bt.kind {
	case bTransfer, bProbeMove:
		depth := 0
		if bt.viaProbe {
			depth = 1
		}
		auth := Witness(bt.signers, bt.from, depth) || (bt.viaProbe && bytes.Equal(bt.from, e.holder.BytesBE()))
		wellFormed := len(bt.from) == 20 && len(bt.to) == 20
		funds := wellFormed && m.get(string(bt.from)).Cmp(bt.amount) >= 0
		evs, apply := xfer(bt.from, bt.to, bt.amount)
		switch {
		case !wellFormed || !auth:
			return mustRefuse, nil, nil
		case !nonneg:
			// the statements do not say whether a negative amount is refused; if
			// it is accepted the effects must be the algebraic ones, and the
			// invariants (no negative balance, authorised debits) judge them.
			return dontCare, evs, apply
		case !funds:
			return mustRefuse, nil, nil
		case bt.amount.Sign() == 0:
			return dontCare, evs, apply
		}
		return mustSucceed, evs, apply
	case bTransferX:
		if !e.alphabetWitness(bt, 0) {
			return mustRefuse, nil, nil
		}
		evs, apply := xfer(bt.from, bt.to, bt.amount)
		if !nonneg {
			return dontCare, evs, apply
		}
		if m.get(string(bt.from)).Cmp(bt.amount) < 0 {
			return mustRefuse, nil, nil
		}
		if bt.amount.Sign() == 0 {
			return dontCare, evs, apply
		}
		return mustSucceed, evs, apply
	case bMint:
		if !e.alphabetWitness(bt, 0) {
			return mustRefuse, nil, nil
		}
		evs, apply := xfer(nil, bt.to, bt.amount)
		ap := func() { apply(); m.supply.Add(m.supply, bt.amount) }
		if !nonneg || bt.amount.Sign() == 0 {
			return dontCare, evs, ap
		}
		return mustSucceed, evs, ap
	case bBurn:
		if !e.alphabetWitness(bt, 0) {
			return mustRefuse, nil, nil
		}
		evs, apply := xfer(bt.from, nil, bt.amount)
		ap := func() {
			apply()
			m.supply.Sub(m.supply, bt.amount)
			if l := m.locks[string(bt.from)]; l != nil && m.get(string(bt.from)).Sign() != 0 && bt.amount.Sign() > 0 {
				e.r.Count("probe.partial_burn_of_lock")
			}
			if l := m.locks[string(bt.from)]; l != nil && m.get(string(bt.from)).Sign() == 0 {
				e.r.Count("probe.full_burn_of_lock")
				// fully burnt lock account: nothing is left to return
				delete(m.locks, string(bt.from))
			}
		}
		if !nonneg {
			return dontCare, evs, ap
		}
		if m.get(string(bt.from)).Cmp(bt.amount) < 0 || m.supply.Cmp(bt.amount) < 0 {
			return mustRefuse, nil, nil
		}
		if bt.amount.Sign() == 0 {
			return dontCare, evs, ap
		}
		return mustSucceed, evs, ap
	case bLock:
		if !e.alphabetWitness(bt, 0) {
			return mustRefuse, nil, nil
		}
		evs, apply := xfer(bt.from, bt.to, bt.amount)
		evs = append(evs, balEvent{"Lock", string(bt.from), string(bt.to), bt.amount})
		ap := func() {
			apply()
			m.locks[string(bt.to)] = &balLock{until: bt.until, parent: string(bt.from)}
		}
		if !nonneg {
			return dontCare, evs, ap
		}
		if m.get(string(bt.from)).Cmp(bt.amount) < 0 {
			return mustRefuse, nil, nil
		}
		return mustSucceed, evs, ap
	case bTick, bDirectEpoch:
		depth := 0
		nestedRefusal := false
		if bt.kind == bTick {
			depth = 1
			if !e.alphabetWitness(bt, 0) || bt.epoch <= m.epoch {
				return mustRefuse, nil, nil
			}
			if !e.alphabetWitness(bt, 1) {
				// witness valid for Netmap only (CalledByEntry): the subscriber
				// refuses; whether that aborts the tick is C06's business
				if e.r.Prop != "C09" {
					return dontCare, nil, func() {}
				}
				// … but a tick that does take place is a tick: under C09 it has
				// to release what has expired, however it came about
				nestedRefusal = true
			}
		} else if !e.alphabetWitness(bt, depth) {
			return mustRefuse, nil, nil
		}
		var evs []balEvent
		var released []string
		for a, l := range m.locks {
			if l.until <= bt.epoch {
				released = append(released, a)
			}
		}
		sort.Strings(released)
		for _, a := range released {
			l := m.locks[a]
			amt := new(big.Int).Set(m.get(a))
			evs = append(evs, balEvent{"Transfer", a, l.parent, amt}, balEvent{"TransferX", a, l.parent, amt})
		}
		ap := func() {
			if len(released) >= 3 {
				e.r.Count("probe.tick_released_3_or_more_locks")
			}
			for _, a := range released {
				l := m.locks[a]
				switch {
				case l.until == bt.epoch:
					e.r.Count("probe.lock_released_at_until_eq_epoch")
				case l.until == 0:
					e.r.Count("probe.lock_until_0_released")
				default:
					e.r.Count("probe.lock_released_after_until")
				}
				if m.get(a).Sign() == 0 {
					e.r.Count("probe.zero_balance_lock_released")
				}
				amt := new(big.Int).Set(m.get(a))
				m.add(a, new(big.Int).Neg(amt))
				m.add(l.parent, amt)
				m.blkRefundTo[l.parent] = true
				delete(m.locks, a)
				m.refunded[a] = true
			}
			if bt.kind == bTick {
				m.epoch = bt.epoch
			}
		}
		if nestedRefusal {
			return dontCare, evs, ap
		}
		return mustSucceed, evs, ap
	}
	harnessf("unknown op kind")
	return dontCare, nil, nil
}

func (e *balEngine) balanceEvents(aer *state.AppExecResult) []balEvent {
	var out []balEvent
	for _, ev := range aer.Events {
		if ev.ScriptHash != e.bal {
			continue
		}
		items := ev.Item.Value().([]stackitem.Item)
		be := balEvent{name: ev.Name}
		switch ev.Name {
		case "Transfer", "TransferX":
			be.from, be.to, be.amount = string(ItemBytes(items[0])), string(ItemBytes(items[1])), ItemInt(items[2])
		case "Lock":
			be.from, be.to, be.amount = string(ItemBytes(items[1])), string(ItemBytes(items[2])), ItemInt(items[3])
		default:
			be.amount = new(big.Int)
		}
		out = append(out, be)
	}
	return out
}

// block executes the pending transactions as one block and runs all oracles.
func (e *balEngine) block(pending []*balTx, dt uint64) {
	r, w, m := e.r, e.w, e.m
	m.blkRefundTo = map[string]bool{}
	before := e.snapshot()
	supplyBefore := new(big.Int).Set(m.supply)
	txs := make([]*transaction.Transaction, len(pending))
	for i, bt := range pending {
		txs[i] = bt.tx
	}
	aers := w.AddBlock(txs, dt)
	r.AddBlock(len(txs), dt)
	if len(pending) > 1 {
		r.Inject("sched.pack")
		r.Fired("sched.pack")
	}
	authorisedDebit := map[string]bool{} // accounts some tx of this block may debit
	anyAlphabet := false
	for i, bt := range pending {
		aer := aers[i]
		exp, evs, apply := e.predict(bt)
		halted := aer.VMState == vmstate.Halt
		took := halted
		if halted && (bt.kind == bTransfer || bt.kind == bProbeMove) {
			// refusal of the public transfer is the value false
			if len(aer.Stack) != 1 {
				r.Violation("C02/transfer-result", "", "%s: stack %d", bt.desc, len(aer.Stack))
			} else if b, err := aer.Stack[0].TryBool(); err != nil || !b {
				took = false
			}
		}
		outcome := "refused"
		if took {
			outcome = "ok"
		}
		if bt.gasCut {
			if !halted && GasFault(aer.FaultException) {
				r.Fired("gas.cut")
				outcome = "gasfault"
				exp = mustRefuse
			}
		}
		if bt.sigKind != "" && bt.sigKind != "gas.cut" {
			r.Fired(bt.sigKind)
		}
		r.Tok(bKindName[bt.kind], bt.sigKind, outcome)
		r.Count("outcome." + bKindName[bt.kind] + "." + outcome)
		r.Tracef("h=%d tx%d %s signers=%s fault=%s → %s %s", w.Height(), i, bt.desc, signerNames(bt.signers), bt.sigKind, aer.VMState, clipStr(aer.FaultException, 80))
		got := e.balanceEvents(aer)
		if !halted {
			// the ledger discards everything a FAULTed transaction did; its
			// notifications reach no subscriber
			got = nil
		}
		if (bt.kind == bTick || bt.kind == bDirectEpoch) && r.Prop != "C09" && took && exp != mustRefuse {
			// Which locks a tick releases is C09's question. Here the model
			// follows the announced movements; the state oracles below then
			// demand that they are exactly what happened.
			evs, apply = e.followEvents(got)
			if bt.kind == bTick {
				ap, ep := apply, bt.epoch
				apply = func() { ap(); m.epoch = ep }
			}
		}
		switch {
		case exp == mustRefuse && took:
			// whose rule it is depends on why the model refuses: a missing
			// witness is C02's (public transfer: the holder's) or C03's (the
			// Alphabet's) business, everything else C01's (or C09's for ticks)
			rule := "C01/accepted-what-must-be-refused"
			switch {
			case bt.kind == bTransfer || bt.kind == bProbeMove:
				depth := 0
				if bt.viaProbe {
					depth = 1
				}
				auth := Witness(bt.signers, bt.from, depth) || (bt.viaProbe && bytes.Equal(bt.from, e.holder.BytesBE()))
				switch {
				case len(bt.from) != 20 || len(bt.to) != 20:
					// (C01's quantifier: "empty/short/long addresses for the public transfer")
					rule = "C01/accepted-malformed-transfer"
				case !auth:
					rule = "C02/accepted-unauthorised-transfer"
				default:
					rule = "C01/accepted-unfunded-transfer"
				}
			case !e.alphabetWitness(bt, 0):
				rule = "C03/balance-call-accepted-without-alphabet-witness"
			case (bt.kind == bTick || bt.kind == bDirectEpoch) && r.Prop == "C09":
				rule = "C09/tick-accepted-what-must-be-refused"
			}
			if bt.kind == bTransfer || bt.kind == bProbeMove || bt.kind == bTransferX {
				// (its effects can be followed: another property's rule does not
				// end the run)
				r.ViolationSynced(rule, "", "%s by %s succeeded", bt.desc, signerNames(bt.signers))
			} else {
				r.Violation(rule, "", "%s by %s succeeded", bt.desc, signerNames(bt.signers))
				// (another property's rule:) its effects cannot be followed, the
				// model is out of step from here on
				r.Checkpoint()
			}
			// follow the implementation so that the other monitors still see it
			if apply == nil {
				_, evs, apply = e.forceEffects(bt)
			}
		case exp == mustSucceed && !took:
			if bt.kind == bTick || bt.kind == bDirectEpoch {
				if !bt.gasCut {
					// "newEpoch(e) succeeds iff …" is C06's clause; here a refused tick
					// is a refused call like any other: nothing changed, the model stays
					// in sync, the run goes on (a lock that is then not released in time
					// is judged when a tick does happen)
					r.Count("foreign_refusal_not_judged.C06/tick-refused")
				}
			} else {
				// no statement of C01/C02/C09 obliges these to succeed; counted
				r.Count("unexpected_refusal." + bKindName[bt.kind])
			}
		}
		if !took {
			if len(got) != 0 {
				r.Violation("C01/refused-invocation-emitted-notifications", "", "%s: %d balance events", bt.desc, len(got))
			}
			continue
		}
		if apply == nil {
			_, evs, apply = e.forceEffects(bt)
		}
		// C02: per-transaction debit monitor, from the transaction's own events
		for _, ev := range got {
			if ev.name != "Transfer" {
				continue
			}
			var debited string
			switch {
			case ev.amount.Sign() > 0 && len(ev.from) == 20:
				debited = ev.from
			case ev.amount.Sign() < 0 && len(ev.to) == 20:
				debited = ev.to
			default:
				continue
			}
			if !e.mayDebit(bt, []byte(debited)) {
				r.Violation("C02/unauthorised-debit", "", "%s by %s debits %x", bt.desc, signerNames(bt.signers), debited)
			}
		}
		if e.alphabetWitness(bt, 0) {
			anyAlphabet = true
		}
		for _, s := range bt.signers {
			if s.Scope != transaction.None {
				authorisedDebit[string(s.Hash.BytesBE())] = true
			}
		}
		if bt.viaProbe {
			authorisedDebit[string(e.holder.BytesBE())] = true
		}
		// C01: exactly one Transfer and one TransferX per balance change
		if !sameEvents(evs, got) {
			rule := "C01/notification-mismatch"
			if (bt.kind == bTick || bt.kind == bDirectEpoch) && r.Prop == "C09" {
				rule = "C09/unlock-set-mismatch"
			}
			r.Violation(rule, "", "%s: expected %s got %s", bt.desc, evStr(evs), evStr(got))
		}
		for _, ev := range got {
			if ev.name == "Transfer" {
				if len(ev.from) == 20 {
					addTo(m.notif, ev.from, new(big.Int).Neg(ev.amount))
				}
				if len(ev.to) == 20 {
					addTo(m.notif, ev.to, ev.amount)
				}
			}
		}
		apply()
		r.Changed()
		if bt.kind == bTick {
			r.AddEpochs(1)
		}
	}
	// ---- state oracles after the block ----
	after := e.snapshot()
	sum := new(big.Int)
	for a, acc := range after.acc {
		sum.Add(sum, acc.bal)
		if acc.bal.Sign() < 0 {
			r.Violation("C01/negative-balance", "", "account %x has %s", a, acc.bal)
		}
	}
	if sum.Cmp(after.supply) != 0 {
		r.Violation("C01/sum-ne-supply", "", "Σ balances %s, totalSupply %s", sum, after.supply)
	}
	if after.supply.Cmp(m.supply) != 0 {
		r.Violation("C01/supply-drift", "", "totalSupply %s, Σ successful mint − burn gives %s (was %s)", after.supply, m.supply, supplyBefore)
	}
	// every account: model, raw storage, balanceOf and the notification fold agree
	keysAll := map[string]bool{}
	for a := range after.acc {
		keysAll[a] = true
	}
	for a := range m.bal {
		keysAll[a] = true
	}
	for a := range m.notif {
		keysAll[a] = true
	}
	var sorted []string
	for a := range keysAll {
		sorted = append(sorted, a)
	}
	sort.Strings(sorted)
	for _, a := range sorted {
		var raw *big.Int = new(big.Int)
		if acc, ok := after.acc[a]; ok {
			raw = acc.bal
		}
		api := w.ReadInt(e.bal, "balanceOf", []byte(a))
		if api.Cmp(raw) != 0 {
			r.Violation("C01/balanceOf-ne-storage", "", "%x: balanceOf %s storage %s", a, api, raw)
		}
		if raw.Cmp(m.get(a)) != 0 {
			rule := "C01/balance-mismatch"
			// C09's business: lock accounts, and owners in a block in which a lock
			// of theirs was (or had to be) released; anything else about an
			// owner's balance is C01's
			if r.Prop == "C09" && (m.locks[a] != nil || m.refunded[a] || m.blkRefundTo[a]) {
				rule = "C09/lock-balance-mismatch"
			}
			r.Violation(rule, "", "%x: actual %s, model %s", a, raw, m.get(a))
		}
		nb := new(big.Int)
		if v, ok := m.notif[a]; ok {
			nb = v
		}
		if raw.Cmp(nb) != 0 {
			r.Violation("C01/notification-replay", "", "%x: actual %s, replay of Transfer events %s", a, raw, nb)
		}
		// C02 per block: a decrease needs an authorising transaction in the block
		if b, ok := before.acc[a]; ok && b.bal.Cmp(raw) > 0 {
			if !anyAlphabet && !authorisedDebit[a] {
				r.Violation("C02/unauthorised-debit-block", "", "%x decreased %s → %s without its witness or the Alphabet's in the block", a, b.bal, raw)
			}
		}
	}
	// C09: lock bookkeeping visible in storage
	for a, l := range m.locks {
		acc, ok := after.acc[a]
		if !ok {
			if m.get(a).Sign() != 0 {
				r.Violation("C09/lock-vanished", "", "lock %x (until %d) is gone with %s on it", a, l.until, m.get(a))
			}
			continue
		}
		if acc.until != l.until || acc.parent != l.parent {
			r.Violation("C09/lock-meta", "", "lock %x: until %d parent %x, expected %d %x", a, acc.until, acc.parent, l.until, l.parent)
		}
	}
	for a := range m.refunded {
		if acc, ok := after.acc[a]; ok && m.locks[a] == nil && (acc.until != 0 || acc.bal.Sign() != 0) && m.get(a).Sign() == 0 {
			r.Violation("C09/released-lock-still-there", "", "released lock %x still stored (until %d, balance %s)", a, acc.until, acc.bal)
		}
	}
	ep := w.ReadInt(e.nm, "epoch").Int64()
	if ep != m.epoch {
		r.Violation("C06/epoch", "", "epoch %d model %d", ep, m.epoch)
	}
	r.Checkpoint()
}

// followEvents turns the Transfer events of a transaction into model effects.
func (e *balEngine) followEvents(got []balEvent) ([]balEvent, func()) {
	m := e.m
	var evs []balEvent
	for _, ev := range got {
		if ev.name == "Transfer" {
			evs = append(evs, ev, balEvent{"TransferX", ev.from, ev.to, ev.amount})
		}
	}
	return evs, func() {
		for _, ev := range got {
			if ev.name != "Transfer" {
				continue
			}
			if len(ev.from) == 20 {
				m.add(ev.from, new(big.Int).Neg(ev.amount))
				if m.locks[ev.from] != nil {
					delete(m.locks, ev.from)
					m.refunded[ev.from] = true
				}
			}
			if len(ev.to) == 20 {
				m.add(ev.to, ev.amount)
			}
		}
	}
}

func (e *balEngine) isLockParent(a string) bool {
	for _, l := range e.m.locks {
		if l.parent == a {
			return true
		}
	}
	return false
}

// forceEffects gives the algebraic effects of an operation that the model
// would have refused (used only to keep following the implementation after a
// violation of another property's rule has been noted).
func (e *balEngine) forceEffects(bt *balTx) (expect, []balEvent, func()) {
	m := e.m
	switch bt.kind {
	case bTransfer, bProbeMove, bTransferX:
		f, t := string(bt.from), string(bt.to)
		return dontCare, []balEvent{{"Transfer", f, t, bt.amount}, {"TransferX", f, t, bt.amount}}, func() {
			if len(f) == 20 {
				m.add(f, new(big.Int).Neg(bt.amount))
			}
			if len(t) == 20 {
				m.add(t, bt.amount)
			}
		}
	}
	return dontCare, nil, func() {}
}

func (e *balEngine) mayDebit(bt *balTx, acc []byte) bool {
	depth := 0
	if bt.viaProbe {
		depth = 1
	}
	if Witness(bt.signers, acc, depth) {
		return true
	}
	if bt.viaProbe && bytes.Equal(acc, e.holder.BytesBE()) {
		return true
	}
	return e.alphabetWitness(bt, 0)
}

type balAcc struct {
	bal    *big.Int
	until  int64
	parent string
}

type balSnap struct {
	acc    map[string]balAcc
	supply *big.Int
}

func (e *balEngine) snapshot() balSnap {
	w := e.w
	s := balSnap{acc: map[string]balAcc{}}
	for a, rec := range RawBalanceAccounts(w.Scan(w.C["balance"].ID, nil)) {
		s.acc[a] = balAcc{bal: rec.Balance, until: rec.Until, parent: string(rec.Parent)}
	}
	s.supply = w.ReadInt(e.bal, "totalSupply")
	return s
}

func addTo(m map[string]*big.Int, k string, d *big.Int) {
	v, ok := m[k]
	if !ok {
		v = new(big.Int)
	}
	m[k] = new(big.Int).Add(v, d)
}

func sameEvents(exp, got []balEvent) bool {
	if len(exp) != len(got) {
		return false
	}
	cnt := map[string]int{}
	for _, e := range exp {
		cnt[e.key()]++
	}
	for _, g := range got {
		cnt[g.key()]--
	}
	for _, v := range cnt {
		if v != 0 {
			return false
		}
	}
	return true
}

func evStr(l []balEvent) string {
	s := "["
	for _, e := range l {
		s += fmt.Sprintf("%s(%.4x→%.4x,%s) ", e.name, e.from, e.to, e.amount)
	}
	return s + "]"
}
