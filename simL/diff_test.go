package siml

// C15 — shipped executables, manifests and bindings correspond to the sources.
// Differential simulation: a registered engine's workload is run against a
// world whose contracts are compiled from the working tree (S) while every
// block is journaled; the journal is then replayed against a world built from
// the shipped artifacts (E) and the two executions must agree observation by
// observation. Static parts (ABI/events/permissions, deployment order,
// versions, bindings) are checked once per process. See DESIGN.md §5 C15.

import (
	"bytes"
	"encoding/json"
	"fmt"
	"os"
	"path/filepath"
	"reflect"
	"sort"
	"strconv"
	"strings"
	"sync"
	"testing"

	"github.com/nspcc-dev/neo-go/pkg/smartcontract/manifest"
	"github.com/nspcc-dev/neo-go/pkg/util"
	"github.com/nspcc-dev/neo-go/pkg/vm"
	"github.com/nspcc-dev/neofs-contract/contracts"
)

var allContracts = []string{"alphabet", "audit", "balance", "container", "neofs", "neofsid", "netmap", "nns", "processing", "proxy", "reputation"}

// Embedded returns the artifact the Go package `contracts` ships for a
// contract directory (what deploy.Deploy is handed), falling back to the files
// in the tree.
func Embedded(name string) *Artifact {
	embeddedOnce.Do(loadEmbedded)
	if a, ok := embedded[name]; ok {
		return a
	}
	return LoadArtifact(filepath.Join(RepoDir(), "contracts", name))
}

var (
	embeddedOnce sync.Once
	embedded     = map[string]*Artifact{}
	embeddedFS   []contracts.Contract
	embeddedMain []contracts.Contract
)

func loadEmbedded() {
	fs, err := contracts.GetFS()
	must(err)
	mn, err := contracts.GetMain()
	must(err)
	embeddedFS, embeddedMain = fs, mn
	byName := map[string]string{}
	for _, n := range allContracts {
		a := LoadArtifact(filepath.Join(RepoDir(), "contracts", n))
		byName[a.Manifest.Name] = n
	}
	for _, c := range append(append([]contracts.Contract{}, fs...), mn...) {
		nb, err := c.NEF.Bytes()
		must(err)
		mb, err := json.Marshal(c.Manifest)
		must(err)
		nef, man := c.NEF, c.Manifest
		dir := byName[man.Name]
		if dir == "" {
			harnessf("embedded contract %q has no directory", man.Name)
		}
		embedded[dir] = &Artifact{Name: dir, NEF: &nef, Manifest: &man, NEFBytes: nb, ManBytes: mb}
	}
}

func diffBody(r *Run) {
	t := r.T
	// static conformance first (cheap; reported with a replayable seed like the rest)
	staticChecks(r)
	idx := Pick(t, "engine", len(Engines))
	eng := Engines[idx]
	prop := eng.Props[Pick(t, "impersonate", len(eng.Props))]
	RecordJournal = true
	defer func() { RecordJournal = false }()
	r.Tracef("engine=%s as %s", eng.Name, prop)
	r.RunShadow(prop, eng.Body)
	RecordJournal = false
	for wi, w := range r.worlds {
		if len(w.Journal) == 0 {
			continue
		}
		w.FinishJournal()
		w2, div := ReplayJournal(w, Embedded)
		r.worlds = append(r.worlds, w2)
		r.CountN("replayed_blocks", int64(len(w.Journal)))
		r.Count("replayed_worlds")
		r.Tok("replay", eng.Name, fmt.Sprintf("w%d:%d", wi, len(w.Journal)))
		if div != "" {
			r.Violation("C15/embedded-diverges-from-sources", "", "engine %s world %d: %s", eng.Name, wi, div)
		}
		// bindings are driven on the populated source-compiled world
		bindingsPass(r, w)
		break // worlds appended by the replay itself are not replayed
	}
	r.Checkpoint()
}

func init() {
	// registered under a name no engine picks up for shadowing itself
	diffRegistered = true
}

var diffRegistered bool

func TestDiff(t *testing.T) {
	Sim(t, func(r *Run) {
		// the differential check shadows every engine except itself
		diffBody(r)
	})
}

var (
	staticOnce    sync.Once
	staticIssues  []string
	staticDone    int
	staticInstr   int
	staticCounted bool
)

// scriptDiff walks two scripts instruction by instruction and describes the
// first difference ("" if they are the same stream).
func scriptDiff(a, b []byte) string {
	ca, cb := vm.NewContext(a), vm.NewContext(b)
	for n := 0; ; n++ {
		ipa := ca.NextIP()
		opa, pa, ea := ca.Next()
		opb, pb, eb := cb.Next()
		if ea != nil || eb != nil {
			if (ea != nil) != (eb != nil) {
				return fmt.Sprintf("instruction %d at offset %d: one stream does not decode (%v / %v)", n, ipa, ea, eb)
			}
			if !bytes.Equal(a, b) {
				return fmt.Sprintf("neither stream decodes at instruction %d and the bytes differ", n)
			}
			return ""
		}
		if opa != opb || !bytes.Equal(pa, pb) {
			return fmt.Sprintf("instruction %d at offset %d: sources %s %x, shipped %s %x", n, ipa, opa, pa, opb, pb)
		}
		if ipa >= len(a) {
			if len(a) != len(b) {
				return fmt.Sprintf("lengths %d and %d", len(a), len(b))
			}
			return ""
		}
	}
}

func countInstr(a []byte) int {
	c := vm.NewContext(a)
	n := 0
	for c.NextIP() < len(a) {
		if _, _, err := c.Next(); err != nil {
			break
		}
		n++
	}
	return n
}

// staticChecks compares, for all 11 contracts, the manifest compiled from the
// working tree with the shipped one (ABI without offsets, events, permissions,
// standards, trusts, safe flags), the version numbers, and the deployment
// order of contracts.GetFS().
func staticChecks(r *Run) {
	staticOnce.Do(func() {
		loadEmbeddedOnce()
		ver := repoVersion()
		for _, n := range allContracts {
			src := CompileContract(n)
			emb := Embedded(n)
			file := LoadArtifact(filepath.Join(RepoDir(), "contracts", n))
			for _, pair := range []struct {
				what string
				a    *Artifact
			}{{"embedded", emb}, {"contract.nef/manifest.json", file}} {
				if d := manifestDiff(src.Manifest, pair.a.Manifest); d != "" {
					staticIssues = append(staticIssues, fmt.Sprintf("C15/manifest-differs|%s: %s manifest differs from the sources: %s", n, pair.what, d))
				}
				// "every instruction of each executable": the instruction streams
				// and the method tokens, one by one
				if d := scriptDiff(src.NEF.Script, pair.a.NEF.Script); d != "" {
					staticIssues = append(staticIssues, fmt.Sprintf("C15/executable-differs|%s: %s executable differs from the sources compiled with the pinned compiler: %s", n, pair.what, d))
				} else if !reflect.DeepEqual(src.NEF.Tokens, pair.a.NEF.Tokens) {
					staticIssues = append(staticIssues, fmt.Sprintf("C15/executable-differs|%s: %s executable has other method tokens than the sources", n, pair.what))
				}
				staticInstr += countInstr(src.NEF.Script)
				staticDone++
			}
			_ = ver
		}
	})
	for _, is := range staticIssues {
		p := strings.SplitN(is, "|", 2)
		r.Violation(p[0], "", "%s", p[1])
	}
	if !staticCounted {
		// done once per process, counted once per process
		staticCounted = true
		r.CountN("static_manifest_comparisons", int64(staticDone))
		r.CountN("static_instructions_compared", int64(staticInstr))
	}
	orderAndVersions(r)
}

func loadEmbeddedOnce() { embeddedOnce.Do(loadEmbedded) }

func repoVersion() int64 {
	raw, err := os.ReadFile(filepath.Join(RepoDir(), "VERSION"))
	must(err)
	v := strings.TrimPrefix(strings.TrimSpace(string(raw)), "v")
	parts := strings.Split(strings.SplitN(v, "-", 2)[0], ".")
	if len(parts) != 3 {
		harnessf("VERSION %q", v)
	}
	var n int64
	for _, p := range parts {
		x, err := strconv.ParseInt(p, 10, 64)
		must(err)
		n = n*1000 + x
	}
	return n
}

func methodSig(m manifest.Method) string {
	var ps []string
	for _, p := range m.Parameters {
		ps = append(ps, p.Name+":"+p.Type.String())
	}
	return fmt.Sprintf("%s(%s)%s safe=%v", m.Name, strings.Join(ps, ","), m.ReturnType, m.Safe)
}

func manifestDiff(a, b *manifest.Manifest) string {
	var out []string
	if a.Name != b.Name {
		out = append(out, fmt.Sprintf("name %q vs %q", a.Name, b.Name))
	}
	set := func(ms []manifest.Method) map[string]bool {
		m := map[string]bool{}
		for _, x := range ms {
			m[methodSig(x)] = true
		}
		return m
	}
	am, bm := set(a.ABI.Methods), set(b.ABI.Methods)
	for k := range am {
		if !bm[k] {
			out = append(out, "method only in sources: "+k)
		}
	}
	for k := range bm {
		if !am[k] {
			out = append(out, "method only in artifact: "+k)
		}
	}
	ev := func(es []manifest.Event) map[string]bool {
		m := map[string]bool{}
		for _, e := range es {
			var ps []string
			for _, p := range e.Parameters {
				ps = append(ps, p.Name+":"+p.Type.String())
			}
			m[e.Name+"("+strings.Join(ps, ",")+")"] = true
		}
		return m
	}
	ae, be := ev(a.ABI.Events), ev(b.ABI.Events)
	for k := range ae {
		if !be[k] {
			out = append(out, "event only in sources: "+k)
		}
	}
	for k := range be {
		if !ae[k] {
			out = append(out, "event only in artifact: "+k)
		}
	}
	js := func(v any) string { b, _ := json.Marshal(v); return string(b) }
	if js(a.Permissions) != js(b.Permissions) {
		out = append(out, "permissions "+js(a.Permissions)+" vs "+js(b.Permissions))
	}
	if js(a.SupportedStandards) != js(b.SupportedStandards) {
		out = append(out, "standards differ")
	}
	if js(a.Trusts) != js(b.Trusts) {
		out = append(out, "trusts differ")
	}
	if js(a.Groups) != js(b.Groups) {
		out = append(out, "groups differ")
	}
	sort.Strings(out)
	return strings.Join(out, "; ")
}

// orderAndVersions deploys the embedded FS set in the order GetFS returns it
// (with the arguments deploy/ uses) and reads version() of every contract.
func orderAndVersions(r *Run) {
	loadEmbeddedOnce()
	n := []int{1, 4}[Pick(r.T, "orderN", 2)]
	w := r.Own(NewWorld(WorldOpts{N: n, Label: "order"}))
	ver := repoVersion()
	byMan := map[string]string{}
	for _, d := range allContracts {
		byMan[Embedded(d).Manifest.Name] = d
	}
	for i, c := range embeddedFS {
		dir := byMan[c.Manifest.Name]
		a := Embedded(dir)
		var data any
		switch dir {
		case "nns":
			data = []any{[]any{[]any{"neofs", "ops@nspcc.io"}}}
		case "netmap":
			data = []any{false, util.Uint160{}, util.Uint160{}, []any{}, []any{}}
		case "container":
			data = []any{}
		case "alphabet":
			data = []any{false, util.Uint160{}, util.Uint160{}, "az", int64(0), int64(1)}
		}
		d, aer := w.TryDeploy(dir, a, data, []Signer{w.Committee, w.Alphabet})
		if d == nil {
			r.Violation("C15/getfs-order-not-deployable", "", "contract #%d (%s) of GetFS() cannot be deployed after its predecessors: %s", i, dir, aer.FaultException)
			return
		}
		if i == 0 && (dir != "nns" || d.ID != 1) {
			r.Violation("C15/getfs-order-not-deployable", "", "GetFS() does not start with NNS")
			return
		}
		if dir != "nns" {
			w.RegisterFSName(dir, d.Hash)
		}
		v, err := w.Read(d.Hash, "version")
		if err != nil || ItemInt(v).Int64() != ver {
			r.Violation("C15/version-mismatch", "", "%s.version() = %v (%v), VERSION file says %d", dir, v, err, ver)
		}
	}
	r.Count("getfs_order_deployments")
	_ = reflect.TypeOf
}
