package siml

// C16 — contract upgrade is committee-gated, version-monotonic and
// data-preserving. Upgrade = "restart with new code, only storage survives":
// in the middle of another engine's seeded history (chosen block) the
// simulator submits `update` transactions with drawn signer sets, drawn
// old/new version relations (scratch builds whose only change is the version
// constants) and optional GAS cuts; refused updates must leave every
// contract's storage and state untouched, accepted ones must leave the
// engine's complete read-API sweep unchanged. See DESIGN.md §5 C16.

import (
	"fmt"
	"sort"
	"strings"
	"testing"

	"github.com/nspcc-dev/neo-go/pkg/core/transaction"
	nkeys "github.com/nspcc-dev/neo-go/pkg/crypto/keys"
	"github.com/nspcc-dev/neo-go/pkg/vm/vmstate"
	"pgregory.net/rapid"
)

// updateArgs are the extra `data` arguments deploy/ passes on update.
func updateArgs(name string) []any {
	switch name {
	case "netmap":
		return []any{false, []byte{}, []byte{}, []any{}, []any{}}
	case "alphabet":
		return []any{false, []byte{}, []byte{}, "", 0, 0}
	}
	return []any{}
}

type upgPlan struct {
	At      int
	Targets []upgTarget
}

type upgTarget struct {
	Which  int // index into the world's repository contracts (sorted keys)
	NewRel int // 0: cur+1 (valid) 1: cur (already updated) 2: cur-1 (rollback) 3: valid version but oldest-supported above cur 4: cur+1000
	Sig    int // 0 committee, 1 Alphabet account (fault where it differs), 2 single member, 3 stranger, 4 committee scope None, 5 nobody
	GasCut int
	Twice  bool
	// main-chain contracts (NeoFS, Processing) are gated by the majority of the
	// keys holding the NeoFSAlphabet role: 0 as it is; 1..3 the role is given to
	// another key set in the block right before the first attempt (one key
	// replaced / one added / a single fresh key) and given back afterwards
	Redes int
	// the `data` handed to update when the version relation forbids it anyway:
	// 0 what deploy/ passes, 1 a leading supported version number, 2 the same
	// followed by more items (whatever is passed, the refusal must stand)
	Data int
}

func genUpgTarget(t *rapid.T) upgTarget {
	u := upgTarget{}
	u.Which = rapid.IntRange(0, 15).Draw(t, "which")
	u.NewRel = Weighted(t, "newRel", []int{55, 12, 10, 12, 11})
	u.Sig = Weighted(t, "sig", []int{60, 10, 8, 8, 7, 7})
	if Chance(t, "gascut?", 12) {
		u.GasCut = rapid.IntRange(5, 95).Draw(t, "gascut")
	}
	u.Twice = Chance(t, "twice?", 25)
	u.Redes = Weighted(t, "redesignate", []int{55, 15, 15, 15})
	u.Data = Weighted(t, "updateData", []int{60, 20, 20})
	return u
}

func upgradeBody(r *Run) {
	t := r.T
	cur, prev := TreeVersions()
	var engs []EngineDef
	for _, e := range Engines {
		engs = append(engs, e)
	}
	eng := engs[Pick(t, "engine", len(engs))]
	prop := eng.Props[Pick(t, "impersonate", len(eng.Props))]
	plan := upgPlan{At: rapid.IntRange(1, 10).Draw(t, "at")}
	plan.Targets = rapid.SliceOfN(rapid.Custom(genUpgTarget), 1, 4).Draw(t, "targets")
	stranger := DetKey("upgrade/stranger")
	fired := false
	r.Tracef("engine=%s as %s; upgrade before block %d", eng.Name, prop, plan.At)
	var violation func()
	BlockHook = func(w *World, n int) {
		if n != plan.At || fired || w != r.W {
			return
		}
		fired = true
		var keys []string
		for k, d := range w.C {
			if d.Repo != "" {
				keys = append(keys, k)
			}
		}
		sort.Strings(keys)
		if len(keys) == 0 {
			return
		}
		for ti, tg := range plan.Targets {
			key := keys[tg.Which%len(keys)]
			d := w.C[key]
			var newA *Artifact
			var newVer, newPrev int64
			switch tg.NewRel {
			case 0:
				newA, newVer, newPrev = VariantBuild(d.Repo, cur+1, -1), cur+1, prev
			case 1:
				newA, newVer, newPrev = CompileContract(d.Repo), cur, prev
			case 2:
				newA, newVer, newPrev = VariantBuild(d.Repo, cur-1, -1), cur-1, prev
			case 3:
				newA, newVer, newPrev = VariantBuild(d.Repo, cur+2, cur+1), cur+2, cur+1
			default:
				newA, newVer, newPrev = VariantBuild(d.Repo, cur+1000, -1), cur+1000, prev
			}
			var signers []Signer
			okSig := false
			switch tg.Sig {
			case 0:
				signers, okSig = []Signer{w.Committee}, true
			case 1:
				signers, okSig = []Signer{w.Alphabet}, w.Alphabet.Hash == w.Committee.Hash
			case 2:
				signers = []Signer{Single("member0", w.Privs[0])}
			case 3:
				signers = []Signer{Single("stranger", stranger)}
			case 4:
				signers = []Signer{w.Committee.WithScope(transaction.None)}
			}
			var giveBack []any
			if (d.Repo == "neofs" || d.Repo == "processing") && !roleHeldByCommittee(w) {
				// the shadowed history itself has given the role to other keys
				// (whose private halves this check does not hold): the committee's
				// account is then simply not the one that decides
				if tg.Sig == 0 || tg.Sig == 1 {
					okSig = false
				}
			} else if (d.Repo == "neofs" || d.Repo == "processing") && tg.Redes > 0 {
				if newMaj, back, ok := redesignate(r, w, tg.Redes); ok {
					giveBack = back
					// the role changes hands with the next block: the attempts below
					// start in exactly that block
					switch tg.Sig {
					case 0:
						signers, okSig = []Signer{newMaj}, true
					case 1:
						signers, okSig = []Signer{w.Committee}, w.Committee.Hash == newMaj.Hash
					}
				}
			}
			if !okSig {
				r.Inject("upgrade.signer")
			}
			var data any = updateArgs(d.Repo)
			if tg.NewRel >= 1 && tg.NewRel <= 3 && tg.Data > 0 {
				data = []any{prev + 1}
				if tg.Data == 2 {
					data = []any{cur - 1, "some", "more"}
				}
				r.Inject("upgrade.data")
				r.Fired("upgrade.data")
			}
			script := CallScript(d.Hash, "update", newA.NEFBytes, newA.ManBytes, data)
			if d.Repo == "nns" {
				script = CallScript(d.Hash, "update", newA.NEFBytes, string(newA.ManBytes), data)
			}
			attempts := 1
			if tg.Twice {
				attempts = 2
			}
			for at := 0; at < attempts; at++ {
				sysFee := int64(-1)
				cut := false
				if tg.GasCut > 0 && at == 0 {
					if p := w.WhatIf(script, signers, 1); p.State == vmstate.Halt && p.GAS > 0 {
						sysFee, cut = p.GAS*int64(tg.GasCut)/100, true
						r.Inject("upgrade.gas_cut")
					}
				}
				var pre []string
				if r.Sweep != nil {
					pre = r.Sweep()
				}
				before := allDigests(w)
				depBefore := versionOf(w, d)
				csBefore := w.BC.GetContractState(d.Hash)
				aer := w.AddBlock([]*transaction.Transaction{w.Tx(script, signers, sysFee)}, 1)[0]
				r.AddBlock(1, 1)
				took := aer.VMState == vmstate.Halt
				// the version deployed right now, as the (old) executable reports it:
				// the shadowed engine may have upgraded contracts itself
				dep := depBefore
				okVersion := newPrev <= dep && dep < newVer
				expectOK := okSig && okVersion
				if !okVersion {
					r.Inject("upgrade.version")
				}
				if at == 1 {
					// second attempt with the same executable
					r.Inject("upgrade.repeat")
				}
				gasFault := cut && !took && GasFault(aer.FaultException)
				r.Tracef("h=%d UPGRADE#%d.%d %s → version rel %d signers=%s cut=%v → %s %s", w.Height(), ti, at, key, tg.NewRel, signerNames(signers), cut, aer.VMState, clipStr(aer.FaultException, 90))
				r.Tok("upgrade:"+d.Repo, fmt.Sprintf("rel%d sig%d cut%v try%d", tg.NewRel, tg.Sig, cut, at), aer.VMState.String())
				cell := fmt.Sprintf("%s/rel%d/sig%d", d.Repo, tg.NewRel, tg.Sig)
				r.Cell("C16.matrix", cell)
				switch {
				case took && !expectOK:
					violation = func() {
						r.Violation("C16/update-accepted-what-must-be-refused", "", "%s: update from deployed version %d to (version %d, oldest supported %d) with signers %s succeeded", key, dep, newVer, newPrev, signerNames(signers))
					}
				case !took && expectOK && !gasFault:
					violation = func() {
						r.Violation("C16/valid-update-refused", "", "%s: committee-witnessed update from %d to (version %d, oldest supported %d) refused: %s", key, dep, newVer, newPrev, aer.FaultException)
					}
				}
				if violation != nil {
					return
				}
				if !took {
					if gasFault {
						r.Fired("upgrade.gas_cut")
					}
					if !okSig {
						r.Fired("upgrade.signer")
					}
					if !okVersion {
						r.Fired("upgrade.version")
					}
					if at == 1 {
						r.Fired("upgrade.repeat")
					}
					after := allDigests(w)
					if after != before {
						violation = func() {
							r.Violation("C16/refused-update-changed-storage", "", "%s: refused update changed contract storage: %s → %s", key, before, after)
						}
						return
					}
					cs := w.BC.GetContractState(d.Hash)
					if cs.UpdateCounter != csBefore.UpdateCounter || cs.NEF.Checksum != csBefore.NEF.Checksum {
						violation = func() {
							r.Violation("C16/refused-update-changed-executable", "", "%s: refused update changed the contract state", key)
						}
						return
					}
					continue
				}
				r.Changed()
				r.Count("upgrades_accepted")
				if v := versionOf(w, d); v != newVer {
					violation = func() {
						r.Violation("C16/version-after-update", "", "%s: version() = %d after the update, expected %d", key, v, newVer)
					}
					return
				}
				if r.Sweep != nil {
					post := r.Sweep()
					if diff := sweepDiff(pre, post, d.Repo); diff != "" {
						violation = func() {
							r.Violation("C16/read-api-changed-by-upgrade", "", "%s (engine %s): %s", key, eng.Name, diff)
						}
						return
					}
					r.Count("sweeps_compared")
				}
				// storage of all *other* contracts is untouched by an upgrade
				oth := otherDigests(w, key)
				if oth != otherDigestsFrom(before, key) {
					violation = func() {
						r.Violation("C16/upgrade-changed-other-contracts", "", "%s: update changed storage of other contracts", key)
					}
					return
				}
			}
			if giveBack != nil {
				restoreRole(r, w, giveBack)
			}
		}
	}
	defer func() { BlockHook = nil }()
	func() {
		defer func() {
			// the shadowed engine may end the run (t.Skip panics); the upgrade
			// verdict, if any, takes precedence
			if violation != nil {
				BlockHook = nil
				if x := recover(); x != nil {
					_ = x
				}
			}
		}()
		r.RunShadow(prop, eng.Body)
	}()
	BlockHook = nil
	if violation != nil {
		violation()
	}
	if fired {
		r.Count("runs_with_upgrade")
	} else {
		r.Count("runs_where_history_ended_before_upgrade_point")
	}
	r.foreign = ""
}

// roleHeldByCommittee: the keys holding the NeoFSAlphabet role from the next
// block on are exactly the chain committee's.
func roleHeldByCommittee(w *World) bool {
	it, err := w.readNoHook(w.Roles, "getDesignatedByRole", int64(16), int64(w.Height()+1))
	if err != nil {
		return false
	}
	have := map[string]bool{}
	for _, k := range ItemArr(it) {
		have[string(ItemBytes(k))] = true
	}
	if len(have) != len(w.Pubs) {
		return false
	}
	for _, p := range w.Pubs {
		if !have[string(p.Bytes())] {
			return false
		}
	}
	return true
}

// redesignate gives the NeoFSAlphabet role to another key set (committee
// decision, one block) and returns the majority account of the new holders and
// what to designate to undo it.
func redesignate(r *Run, w *World, variant int) (Signer, []any, bool) {
	it, err := w.readNoHook(w.Roles, "getDesignatedByRole", int64(16), int64(w.Height()+1))
	if err != nil || len(ItemArr(it)) == 0 {
		return Signer{}, nil, false
	}
	var back []any
	for _, k := range ItemArr(it) {
		back = append(back, ItemBytes(k))
	}
	var nk []*nkeys.PrivateKey
	switch variant {
	case 1:
		nk = append(append(nk, w.Privs[:len(w.Privs)-1]...), DetKey("upgrade/alpha/x"))
	case 2:
		nk = append(append(nk, w.Privs...), DetKey("upgrade/alpha/x"))
	default:
		nk = []*nkeys.PrivateKey{DetKey("upgrade/alpha/y")}
	}
	var pubs []any
	for _, k := range nk {
		pubs = append(pubs, k.PublicKey().Bytes())
	}
	aer := w.AddBlock([]*transaction.Transaction{w.CallTx([]Signer{w.Committee}, -1, w.Roles, "designateAsRole", int64(16), pubs)}, 1)[0]
	r.AddBlock(1, 1)
	if aer.VMState != vmstate.Halt {
		harnessf("re-designation of NeoFSAlphabet: %s", aer.FaultException)
	}
	r.Inject("upgrade.role_changed")
	r.Fired("upgrade.role_changed")
	r.Tracef("h=%d NeoFSAlphabet role given to %d keys (variant %d)", w.Height(), len(nk), variant)
	return Multi(fmt.Sprintf("new-alphabet-%d-of-%d", len(nk)/2+1, len(nk)), len(nk)/2+1, nk), back, true
}

// restoreRole gives the role back and lets the designation take effect.
func restoreRole(r *Run, w *World, back []any) {
	aer := w.AddBlock([]*transaction.Transaction{w.CallTx([]Signer{w.Committee}, -1, w.Roles, "designateAsRole", int64(16), back)}, 1)[0]
	r.AddBlock(1, 1)
	if aer.VMState != vmstate.Halt {
		harnessf("giving the NeoFSAlphabet role back: %s", aer.FaultException)
	}
	w.AddBlock(nil, 1)
	r.AddBlock(0, 1)
}

func versionOf(w *World, d *Deployed) int64 {
	v, err := w.Read(d.Hash, "version")
	if err != nil {
		return -1
	}
	return ItemInt(v).Int64()
}

func allDigests(w *World) string {
	var keys []string
	for k := range w.C {
		keys = append(keys, k)
	}
	sort.Strings(keys)
	var sb strings.Builder
	for _, k := range keys {
		fmt.Fprintf(&sb, "%s=%s ", k, w.StorageDigest(w.C[k].ID))
	}
	return sb.String()
}

func otherDigests(w *World, except string) string { return otherDigestsFrom(allDigests(w), except) }

func otherDigestsFrom(all, except string) string {
	var out []string
	for _, f := range strings.Fields(all) {
		if !strings.HasPrefix(f, except+"=") {
			out = append(out, f)
		}
	}
	return strings.Join(out, " ")
}

// sweepDiff compares two read-API sweeps; lines of `version()` of the upgraded
// contract are the one documented change.
func sweepDiff(pre, post []string, repo string) string {
	filter := func(l []string) []string {
		var out []string
		for _, x := range l {
			if strings.Contains(x, ".version(") {
				continue
			}
			out = append(out, x)
		}
		return out
	}
	a, b := filter(pre), filter(post)
	if len(a) != len(b) {
		return fmt.Sprintf("%d read-API lines before, %d after", len(a), len(b))
	}
	for i := range a {
		if a[i] != b[i] {
			return fmt.Sprintf("before: %s | after: %s", clipStr(a[i], 300), clipStr(b[i], 300))
		}
	}
	return ""
}

func TestUpgrade(t *testing.T) {
	Sim(t, func(r *Run) {
		if Weighted(r.T, "scenario", []int{65, 35}) == 0 {
			upgradeBody(r)
		} else {
			upgradeDumpBody(r)
		}
	})
}
