package siml

// Scratch builds of the repository's contracts whose only change is the
// version constants in common/version.go (used by C16 and, through
// cmd/oldart, by C13's upgrade scenario). Scratch copies live in the system
// temporary directory and are removed by RemoveScratch.

import (
	"fmt"
	"os"
	"path/filepath"
	"regexp"
	"strings"
	"sync"
)

var (
	scratchMu   sync.Mutex
	scratchDirs []string
	variantDirs = map[string]string{}
)

// RemoveScratch deletes every scratch copy made by this process.
func RemoveScratch() {
	scratchMu.Lock()
	defer scratchMu.Unlock()
	for _, d := range scratchDirs {
		os.RemoveAll(d)
	}
	scratchDirs = nil
}

var (
	reMajor = regexp.MustCompile(`(?m)^(\s*major\s*=\s*)\d+`)
	reMinor = regexp.MustCompile(`(?m)^(\s*minor\s*=\s*)\d+`)
	rePatch = regexp.MustCompile(`(?m)^(\s*patch\s*=\s*)\d+`)
	rePMaj  = regexp.MustCompile(`(?m)^(\s*prevMajor\s*=\s*)\d+`)
	rePMin  = regexp.MustCompile(`(?m)^(\s*prevMinor\s*=\s*)\d+`)
	rePPat  = regexp.MustCompile(`(?m)^(\s*prevPatch\s*=\s*)\d+`)
)

// VariantBuild compiles contract `name` from a scratch copy of the working
// tree whose only change is the version constants in common/version.go
// (version and, if prev >= 0, the oldest supported version).
func VariantBuild(name string, version, prev int64) *Artifact {
	key := fmt.Sprintf("%d/%d", version, prev)
	scratchMu.Lock()
	dir, ok := variantDirs[key]
	if !ok {
		var err error
		dir, err = os.MkdirTemp("", "verif-c16-")
		must(err)
		scratchDirs = append(scratchDirs, dir)
		copyTree(RepoDir(), dir, []string{"go.mod", "go.sum", "common", "contracts"})
		vf := filepath.Join(dir, "common", "version.go")
		raw, err := os.ReadFile(vf)
		must(err)
		src := string(raw)
		set := func(re *regexp.Regexp, v int64) {
			if !re.MatchString(src) {
				harnessf("common/version.go: constant pattern %s not found", re)
			}
			src = re.ReplaceAllString(src, fmt.Sprintf("${1}%d", v))
		}
		set(reMajor, version/1_000_000)
		set(reMinor, version/1000%1000)
		set(rePatch, version%1000)
		if prev >= 0 {
			set(rePMaj, prev/1_000_000)
			set(rePMin, prev/1000%1000)
			set(rePPat, prev%1000)
		}
		must(os.WriteFile(vf, []byte(src), 0o644))
		variantDirs[key] = dir
	}
	scratchMu.Unlock()
	a := CompileContract(filepath.Join(dir, "contracts", name))
	return a
}

func copyTree(from, to string, entries []string) {
	for _, e := range entries {
		src := filepath.Join(from, e)
		st, err := os.Stat(src)
		must(err)
		if !st.IsDir() {
			raw, err := os.ReadFile(src)
			must(err)
			must(os.WriteFile(filepath.Join(to, e), raw, 0o644))
			continue
		}
		must(filepath.Walk(src, func(p string, info os.FileInfo, err error) error {
			if err != nil {
				return err
			}
			rel, _ := filepath.Rel(from, p)
			if info.IsDir() {
				return os.MkdirAll(filepath.Join(to, rel), 0o755)
			}
			if strings.HasSuffix(p, ".nef") || strings.HasSuffix(p, "_test.go") || strings.HasSuffix(p, ".csv") || strings.Contains(p, "testdata") {
				return nil
			}
			raw, err := os.ReadFile(p)
			if err != nil {
				return err
			}
			return os.WriteFile(filepath.Join(to, rel), raw, 0o644)
		}))
	}
}

// treeVersions reads Version and PrevVersion of the working tree.
func TreeVersions() (cur, prev int64) {
	raw, err := os.ReadFile(filepath.Join(RepoDir(), "common", "version.go"))
	must(err)
	get := func(re *regexp.Regexp) int64 {
		m := re.FindString(string(raw))
		if m == "" {
			harnessf("common/version.go: %s not found", re)
		}
		var v int64
		fmt.Sscanf(m[strings.Index(m, "=")+1:], "%d", &v)
		return v
	}
	cur = get(reMajor)*1_000_000 + get(reMinor)*1000 + get(rePatch)
	prev = get(rePMaj)*1_000_000 + get(rePMin)*1000 + get(rePPat)
	return
}
