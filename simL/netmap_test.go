package siml

// Netmap engine: decides C06 (tick: growing epoch, atomic publication,
// subscriber fan-out), C07 (candidate state machine in the legacy and in the
// structured list) and C08 (last N network maps across updateSnapshotCount
// changes). One workload generator, one reference model; the workload is
// biased by VERIF_PROP and only the rules of that property are fatal (rules of
// the other two end the run quietly at the next checkpoint). See DESIGN.md §5.
//
// The reference model is written from the statements of C06/C07/C08 and the
// method comments of contracts/netmap: two candidate maps, the epoch, the tick
// height, the published maps (a deque capped at the snapshot count) and the
// ordered subscriber list. The only implementation details used are the ones
// the design names: the public key sits at bytes 2..35 of a legacy blob, the
// structured per-epoch lists live under storage prefix 'p' + 4-byte BE epoch
// (raw scan, "never leaks"), and — for coverage accounting only, never for a
// verdict — the legacy ring index under "snapshotCurrent".

import (
	"crypto/elliptic"
	"encoding/binary"
	"encoding/json"
	"fmt"
	"sort"
	"strings"
	"testing"

	"github.com/nspcc-dev/neo-go/pkg/core/state"
	"github.com/nspcc-dev/neo-go/pkg/core/transaction"
	"github.com/nspcc-dev/neo-go/pkg/crypto/keys"
	"github.com/nspcc-dev/neo-go/pkg/smartcontract/manifest"
	"github.com/nspcc-dev/neo-go/pkg/util"
	"github.com/nspcc-dev/neo-go/pkg/vm/stackitem"
	"github.com/nspcc-dev/neo-go/pkg/vm/vmstate"
	"pgregory.net/rapid"
)

// ---- abstract operations (drawn up-front so that rapid can delete steps) ----

const (
	nmAddPeer = iota
	nmAddPeerIR
	nmAddNode
	nmUpdateState
	nmUpdateStateIR
	nmDeleteNode
	nmTick
	nmSubscribe
	nmRefuse
	nmResize
	nmKinds
	// nmObserve is not drawn: a probe call put in front of a tick that records
	// the candidate lists as they are at that point of the block (C06)
	nmObserve = nmKinds
)

var nmKindName = []string{"addPeer", "addPeerIR", "addNode", "updateState", "updateStateIR", "deleteNode", "newEpoch", "subscribe", "probe.refuseEpoch", "updateSnapshotCount", "probe.observe"}

// Node states of the documented enumeration (nodestate/type.go).
const (
	nmOnline      = 1
	nmOffline     = 2
	nmMaintenance = 3
)

// nmDefaultSnapshotCount is the snapshot count of a freshly deployed contract
// ("DefaultSnapshotCount by default", comment of Snapshot).
const nmDefaultSnapshotCount = 10

// nmStates are the state arguments tried: the three documented ones and three
// unknown ones.
var nmStates = []int64{nmOnline, nmMaintenance, nmOffline, 0, 4, -1}

// nmCounts maps the drawn count class to the updateSnapshotCount argument
// (index 0 = the plainest one; rapid shrinks towards it).
var nmCounts = []int64{3, 1, 2, 4, 5, 6, 7, 8, 9, 11, 12, 10, 0}

type nmOp struct {
	Kind   int
	Node   int // index into the pool of 5 node keys
	Bad    int // argument corruption class (0 = none)
	State  int // index into nmStates
	Info   int // info variant
	Sig    int // signer class for Alphabet-only methods (AlphaSignerClass)
	NSig   int // signer class for node ∧ Alphabet methods (nmNodeSigners)
	Epoch  int // tick / refusal epoch class
	Sub    int // subscription / refusal target
	Count  int // index into nmCounts
	GasCut int // 0 = none, else percent of the measured need
	Flush  int // 0 keep collecting, 1 close block, 2 close block and add empty ones
	Dt     int
}

func nmGenOp(t *rapid.T) nmOp {
	op := nmOp{}
	// every property lists the kinds it is about first (order = drawn index →
	// kind; shrinking goes towards index 0); the weights are plain shares.
	order := []int{nmTick, nmSubscribe, nmAddNode, nmAddPeerIR, nmRefuse, nmAddPeer, nmUpdateStateIR, nmUpdateState, nmDeleteNode, nmResize}
	kw := []int{38, 13, 9, 7, 8, 7, 6, 6, 6, 0}
	ew := []int{50, 12, 8, 18, 12} // cur+1, cur, cur-1, cur+2, cur+5
	sw := []int{60, 6, 6, 6, 6, 6, 5, 5}
	gc := 8
	switch Prop() {
	case "C07":
		order = []int{nmAddNode, nmUpdateState, nmAddPeer, nmUpdateStateIR, nmAddPeerIR, nmDeleteNode, nmTick, nmSubscribe, nmRefuse, nmResize}
		kw = []int{20, 18, 14, 14, 11, 11, 8, 4, 0, 0}
		ew = []int{80, 8, 6, 6, 0}
		gc = 5
	case "C08":
		order = []int{nmTick, nmResize, nmAddNode, nmAddPeerIR, nmUpdateStateIR, nmDeleteNode, nmAddPeer, nmUpdateState, nmSubscribe, nmRefuse}
		kw = []int{60, 12, 8, 6, 5, 9, 0, 0, 0, 0}
		// epochs advance by one per tick as the Inner Ring does (quantifier of
		// C08): no jumps; stale arguments are refused and harmless
		ew = []int{90, 5, 5, 0, 0}
		sw = []int{86, 2, 2, 2, 2, 2, 2, 2}
		gc = 3
	}
	op.Kind = order[Weighted(t, "kind", kw)]
	op.Node = rapid.IntRange(0, 4).Draw(t, "node")
	op.Bad = Weighted(t, "bad", []int{76, 5, 5, 4, 5, 5})
	op.State = Weighted(t, "state", []int{30, 30, 20, 7, 7, 6})
	op.Info = rapid.IntRange(0, 3).Draw(t, "info")
	op.Sig = Weighted(t, "sig", sw)
	op.NSig = Weighted(t, "nsig", []int{56, 8, 8, 8, 4, 4, 4, 4, 4})
	op.Epoch = Weighted(t, "epoch", ew)
	op.Sub = rapid.IntRange(0, 3).Draw(t, "sub")
	op.Count = Weighted(t, "count", []int{10, 10, 10, 8, 8, 6, 6, 6, 8, 8, 8, 4, 6})
	if Chance(t, "gascut?", gc) {
		op.GasCut = rapid.IntRange(5, 95).Draw(t, "gascut")
	}
	op.Flush = Weighted(t, "flush", []int{45, 50, 5})
	op.Dt = rapid.IntRange(1, 3).Draw(t, "dt")
	return op
}

// ---- reference model -------------------------------------------------------

// nmLeg is a legacy candidate: the blob as submitted and the state.
type nmLeg struct {
	blob  []byte
	state int64
}

// nmN2 is a structured candidate.
type nmN2 struct {
	key   []byte
	addrs []string
	attrs [][2]string
	state int64
}

// nmPub is one published network map (both formats, canonical text).
type nmPub struct {
	epoch   int64
	leg, n2 string
	// C08: published in the middle of a block after the model was found out of
	// step with the contract's candidate set: what it holds was never observed
	unseen bool
}

type nmModel struct {
	legacy  map[string]nmLeg // public key → candidate
	structd map[string]nmN2
	epoch   int64
	lastBlk int64 // index of the block holding the last successful tick
	// "tick height": the ledger reports index−1 as the current height to the
	// transactions of block #index (Ledger.currentIndex = last persisted
	// block). The statement does not say which of the two numbers is "the tick
	// height", so the first successful tick of a run fixes the convention
	// (0: block index, 1: index−1) and every later tick must follow it.
	blkConv int64
	curLeg  string // map published by the last tick, canonical
	curN2   string
	n       int64   // snapshot count
	hist    []nmPub // the most recent min(n, elapsed) published maps, oldest first
	ticks   int64   // successful ticks so far ("elapsed")
	// subscribers in subscription order: -1 = Balance, i ≥ 0 = probe i
	subs        []int
	probeArmed  []bool
	probeRefuse []int64
	probeCalls  []int64
	probeLast   []int64
	// a tick that did not advance the epoch by exactly one happened: C08's
	// quantifier ("epochs advance by one per tick") is left for good
	jumped bool
	// accepted resizes so far, and whether one happened since the last
	// successful tick
	resizes         int
	resizeSinceTick bool
	// what took effect in the block just executed (rule attribution only)
	blkTicks, blkCands int
	blkCandRefused     bool
}

func nmNewModel(nProbes int) *nmModel {
	m := &nmModel{legacy: map[string]nmLeg{}, structd: map[string]nmN2{}, n: nmDefaultSnapshotCount, blkConv: -1}
	m.probeArmed = make([]bool, nProbes)
	m.probeRefuse = make([]int64, nProbes)
	m.probeCalls = make([]int64, nProbes)
	m.probeLast = make([]int64, nProbes)
	for i := range m.probeLast {
		m.probeLast[i] = -1
	}
	return m
}

func (m *nmModel) subscribed(target int) bool {
	for _, s := range m.subs {
		if s == target {
			return true
		}
	}
	return false
}

// trim keeps the most recent min(len, n) maps.
func (m *nmModel) trim() {
	if int64(len(m.hist)) > m.n {
		m.hist = append([]nmPub(nil), m.hist[int64(len(m.hist))-m.n:]...)
	}
}

func (m *nmModel) retained(epoch int64) *nmPub {
	for i := range m.hist {
		if m.hist[i].epoch == epoch {
			return &m.hist[i]
		}
	}
	return nil
}

// canonical text of the candidate maps (sorted by public key; the order inside
// the contract's listings is a don't-care, DESIGN.md §7)
func nmCanonLegacy(l map[string]nmLeg, skipOffline bool) string {
	var ent []string
	for k, v := range l {
		if skipOffline && v.state == nmOffline {
			continue
		}
		ent = append(ent, nmLegEntry([]byte(k), v.blob, v.state))
	}
	sort.Strings(ent)
	return strings.Join(ent, " ")
}

func nmLegEntry(key, blob []byte, st int64) string {
	return fmt.Sprintf("%x:%x/%d", key, blob, st)
}

func nmCanonStruct(l map[string]nmN2) string {
	var ent []string
	for _, v := range l {
		ent = append(ent, nmN2Entry(v.key, v.addrs, nmAttrText(v.attrs), v.state))
	}
	sort.Strings(ent)
	return strings.Join(ent, " ")
}

func nmAttrText(attrs [][2]string) string {
	l := make([]string, len(attrs))
	for i, a := range attrs {
		l[i] = a[0] + "=" + a[1]
	}
	sort.Strings(l)
	return strings.Join(l, ";")
}

func nmN2Entry(key []byte, addrs []string, attrs string, st int64) string {
	return fmt.Sprintf("%x:%s|%s/%d", key, strings.Join(addrs, ","), attrs, st)
}

// ---- decoding what the contract returns (defensive: a malformed answer must
// become a mismatch, not a harness error) -------------------------------------

func nmArr(it stackitem.Item) ([]stackitem.Item, bool) {
	if it == nil {
		return nil, false
	}
	if _, ok := it.(stackitem.Null); ok {
		return nil, true
	}
	arr, ok := it.Value().([]stackitem.Item)
	return arr, ok
}

func nmBytes(it stackitem.Item) []byte {
	if it == nil {
		return nil
	}
	if _, ok := it.(stackitem.Null); ok {
		return nil
	}
	b, err := it.TryBytes()
	if err != nil {
		return []byte("?" + it.String())
	}
	return b
}

func nmInt(it stackitem.Item) int64 {
	if it == nil {
		return -999
	}
	if _, ok := it.(stackitem.Null); ok {
		return 0
	}
	v, err := it.TryInteger()
	if err != nil || !v.IsInt64() {
		return -999
	}
	return v.Int64()
}

// nmLegacyListText canonicalises a []Node answer.
func nmLegacyListText(it stackitem.Item) string {
	arr, ok := nmArr(it)
	if !ok {
		return "malformed-list:" + it.String()
	}
	var ent []string
	for _, n := range arr {
		f, ok := nmArr(n)
		if !ok || len(f) != 2 {
			ent = append(ent, "malformed-node:"+n.String())
			continue
		}
		blob := nmBytes(f[0])
		key := blob
		if len(blob) >= 35 {
			key = blob[2:35]
		}
		ent = append(ent, nmLegEntry(key, blob, nmInt(f[1])))
	}
	sort.Strings(ent)
	return strings.Join(ent, " ")
}

func nmN2ItemEntry(n stackitem.Item) string {
	f, ok := nmArr(n)
	if !ok || len(f) != 4 {
		return "malformed-node2:" + n.String()
	}
	return nmN2Fields(f[2], f[0], f[1], nmInt(f[3]))
}

func nmN2Fields(key, addrs, attrs stackitem.Item, st int64) string {
	var al []string
	if aa, ok := nmArr(addrs); ok {
		for _, a := range aa {
			al = append(al, string(nmBytes(a)))
		}
	} else {
		al = []string{"malformed-addresses"}
	}
	var at []string
	if attrs != nil {
		if me, ok := attrs.Value().([]stackitem.MapElement); ok {
			for _, kv := range me {
				at = append(at, string(nmBytes(kv.Key))+"="+string(nmBytes(kv.Value)))
			}
		} else if _, null := attrs.(stackitem.Null); !null {
			at = []string{"malformed-attributes"}
		}
	}
	sort.Strings(at)
	return nmN2Entry(nmBytes(key), al, strings.Join(at, ";"), st)
}

// nmStructListText canonicalises a drained iterator of Node2.
func nmStructListText(it stackitem.Item) string {
	arr, ok := nmArr(it)
	if !ok {
		return "malformed-list:" + it.String()
	}
	ent := make([]string, 0, len(arr))
	for _, n := range arr {
		ent = append(ent, nmN2ItemEntry(n))
	}
	sort.Strings(ent)
	return strings.Join(ent, " ")
}

// ---- the run -----------------------------------------------------------------

type nmExpect int

const (
	nmMustRefuse  nmExpect = iota
	nmMustSucceed          // the statement obliges success (ticks only)
	nmMaySucceed           // valid request; the statements do not oblige success: a refusal is only counted
	nmDontCare             // statement silent on the outcome: follow the application log
)

type nmTx struct {
	op      nmOp
	kind    int
	tx      *transaction.Transaction
	signers []Signer
	desc    string
	fault   string
	gasCut  bool
	key     []byte // candidate operations: the key argument
	blob    []byte // addPeer / addPeerIR
	n2      *nmN2  // addNode
	state   int64  // update*: the state argument
	epoch   int64  // tick / refusal epoch
	target  int    // subscribe / refuse: -1 Balance, i probe
	count   int64  // resize
	ringPos int64  // resize: coverage accounting only
	obsSlot int    // tick: slot of the observation made right before it (-1: none); observe: its slot
}

type nmEngine struct {
	r            *Run
	w            *World
	m            *nmModel
	nm           util.Uint160
	nmID         int32
	bal          *Deployed
	probes       []*Deployed
	nodes        []*keys.PrivateKey
	garbage      []byte
	stranger     *keys.PrivateKey
	seq          int
	proj         int64 // epoch the pending transactions are expected to reach (generation only)
	noFaults     bool
	allowBad     bool
	resizes      int // resize transactions built so far
	pending      []*nmTx
	bigJumps     bool       // epoch jumps land right below 2^31
	c08Drift     bool       // C08: a published map was taken from observation
	obsSeq       int        // observation slots handed out so far
	blkTickSlots [][2]int64 // (epoch, slot) of the ticks that took effect in the block just executed
}

func nmBody(r *Run) {
	e := &nmEngine{r: r}
	e.run()
}

func init() { RegisterEngine("netmap", []string{"C06", "C07", "C08"}, nmBody) }

func TestNetmap(t *testing.T) { Sim(t, nmBody) }

func (e *nmEngine) run() {
	t := e.r.T
	ns := []int{1, 3, 4, 7}
	if !Thorough() && Chance(t, "rareN", 12) {
		// sizes with 3k+2 members and the larger even one, now and then
		ns = []int{2, 5, 6}
	}
	if Thorough() {
		ns = []int{1, 3, 4, 7, 2, 5, 6}
	}
	n := ns[Pick(t, "n", len(ns))]
	// swarm knobs
	e.noFaults = Chance(t, "noFaults", 15)
	e.bigJumps = Prop() != "C08" && Chance(t, "bigJumps", 12)
	e.allowBad = Chance(t, "allowMalformed", 75)
	withBalance := !Chance(t, "noBalance", 15)
	pw := []int{10, 25, 35, 30}
	if Prop() != "C06" {
		pw = []int{70, 30, 0, 0}
	}
	nProbes := Weighted(t, "probes", pw)
	preSub := 0
	if nProbes > 0 {
		preSub = rapid.IntRange(0, nProbes).Draw(t, "presubscribed")
	}
	ops := OpsSlice(t, rapid.Custom(nmGenOp), 60)

	with := []string{"netmap"}
	if withBalance {
		with = append(with, "balance")
	}
	w := e.r.Own(NewFSWorld(FSOpts{N: n, Label: "nm", With: with}))
	e.w = w
	e.nm, e.nmID = w.C["netmap"].Hash, w.C["netmap"].ID
	e.bal = w.C["balance"]
	base := CompileContract(AuxDir("nmsub"))
	for i := 0; i < nProbes; i++ {
		e.probes = append(e.probes, w.Deploy(fmt.Sprintf("nmsub%d", i), nmRenamed(base, fmt.Sprintf("Verif Epoch Subscriber Probe %d", i)), nil))
	}
	for i := 0; i < 5; i++ {
		e.nodes = append(e.nodes, DetKey(fmt.Sprintf("nm/node/%d", i)))
	}
	e.garbage = append([]byte{0x05}, make([]byte, 32)...) // 33 bytes, not a curve point
	for i := 1; i < len(e.garbage); i++ {
		e.garbage[i] = byte(0xa0 + i)
	}
	e.stranger = DetKey("nm/stranger")
	e.m = nmNewModel(nProbes)
	if withBalance {
		// Balance subscribes itself when it is deployed (common.SubscribeForNewEpoch)
		e.m.subs = append(e.m.subs, -1)
	}
	e.r.Tracef("world n=%d alphabet=%d-of-%d committee=%d-of-%d balance=%v probes=%d presub=%d noFaults=%v allowBad=%v",
		n, n*2/3+1, n, n/2+1, n, withBalance, nProbes, preSub, e.noFaults, e.allowBad)

	e.r.Sweep = e.sweep

	// initial subscriptions (part of the history: ordinary Alphabet calls)
	for i := 0; i < preSub; i++ {
		e.pending = append(e.pending, e.build(nmOp{Kind: nmSubscribe, Sub: i})...)
	}
	if len(e.pending) > 0 {
		e.flush(0, 1)
	}
	for _, op := range ops {
		if e.noFaults {
			op.Sig, op.NSig, op.Bad, op.GasCut = 0, 0, 0, 0
		}
		if !e.allowBad {
			op.Bad = 0
		}
		if e.noFaults && op.Kind == nmRefuse {
			continue // a refusing subscriber is a fault too
		}
		txs := e.build(op)
		if len(txs) == 0 {
			continue
		}
		e.pending = append(e.pending, txs...)
		if op.Flush > 0 || len(e.pending) >= 6 {
			extra := 0
			if op.Flush == 2 {
				extra = 2
			}
			e.flush(extra, op.Dt)
		}
	}
	if len(e.pending) > 0 {
		e.flush(0, 1)
	}
}

// sweep is the complete read API of Netmap (and of the probes) as the model
// knows it, as sorted "contract.method(args)=value" lines; C16 compares it
// right before and right after a contract upgrade.
func (e *nmEngine) sweep() []string {
	w, m := e.w, e.m
	var out []string
	add := func(h util.Uint160, c, method string, args ...any) {
		it, err := w.Read(h, method, args...)
		var sb strings.Builder
		if err != nil {
			sb.WriteString("FAULT")
		} else {
			itemRepr(&sb, it, 0)
		}
		out = append(out, fmt.Sprintf("%s.%s(%v)=%s", c, method, args, sb.String()))
	}
	for _, method := range []string{"epoch", "lastEpochBlock", "netmap", "netmapCandidates", "listCandidates", "listNodes", "listConfig", "version", "innerRingList"} {
		add(e.nm, "netmap", method)
	}
	add(e.nm, "netmap", "config", []byte("no-such-key"))
	// every retained map through all three getters, plus the first
	// non-retained neighbours on both sides
	nh := int64(len(m.hist))
	for d := int64(0); d <= nh; d++ {
		add(e.nm, "netmap", "snapshot", d)
	}
	eps := []int64{m.epoch + 1}
	if nh > 0 {
		eps = append(eps, m.hist[0].epoch-1)
	}
	for _, h := range m.hist {
		eps = append(eps, h.epoch)
	}
	for _, ep := range eps {
		add(e.nm, "netmap", "snapshotByEpoch", ep)
		add(e.nm, "netmap", "listNodes", ep)
	}
	for i, p := range e.probes {
		add(p.Hash, fmt.Sprintf("probe%d", i), "calls")
		add(p.Hash, fmt.Sprintf("probe%d", i), "last")
	}
	sort.Strings(out)
	return out
}

func (e *nmEngine) flush(extraEmpty int, dt int) {
	e.block(e.pending, uint64(dt))
	e.pending = nil
	for i := 0; i < extraEmpty; i++ {
		e.block(nil, 1)
	}
}

// nmRenamed gives the same executable another manifest name, hence another
// contract hash (several instances of one probe).
func nmRenamed(a *Artifact, name string) *Artifact {
	m := new(manifest.Manifest)
	must(json.Unmarshal(a.ManBytes, m))
	m.Name = name
	mb, err := json.Marshal(m)
	must(err)
	return &Artifact{Probe: a.Probe, Name: a.Name, NEF: a.NEF, Manifest: m, NEFBytes: a.NEFBytes, ManBytes: mb}
}

// nmNodeSigners returns the signer set of class `class` for a method that needs
// the node's own witness and the Alphabet's, and the fault kind it represents.
func (e *nmEngine) nmNodeSigners(class int, node, other *keys.PrivateKey) ([]Signer, string) {
	w := e.w
	var ns Signer
	hasNode := node != nil
	if hasNode {
		ns = Single("node", node)
	}
	ot := Single("othernode", other)
	withNode := func(l []Signer, s Signer) []Signer {
		if hasNode {
			return append(l, s)
		}
		return l
	}
	switch class {
	case 0:
		if !hasNode {
			return []Signer{w.Alphabet}, "wit.missing"
		}
		return []Signer{w.Alphabet, ns}, ""
	case 1: // node without Alphabet
		return withNode(nil, ns), "wit.missing"
	case 2: // Alphabet without node
		return []Signer{w.Alphabet}, "wit.missing"
	case 3: // Alphabet and a wrong node
		return []Signer{w.Alphabet, ot}, "wit.other_key"
	case 4: // committee majority instead of the Alphabet
		if w.Committee.Hash == w.Alphabet.Hash {
			return withNode([]Signer{w.Alphabet}, ns), nmOr("", nmIf(!hasNode, "wit.missing"))
		}
		return withNode([]Signer{w.Committee}, ns), "wit.swap_threshold"
	case 5: // a single Alphabet member instead of the Alphabet
		return withNode([]Signer{Single("member0", w.Privs[0])}, ns), "wit.single"
	case 6: // the node's witness has scope None
		return withNode([]Signer{w.Alphabet}, ns.WithScope(transaction.None)), "wit.scope"
	case 7: // the Alphabet's witness has scope None
		return withNode([]Signer{w.Alphabet.WithScope(transaction.None)}, ns), "wit.scope"
	default: // both CalledByEntry: valid, the checks happen at call depth 0
		return withNode([]Signer{w.Alphabet.WithScope(transaction.CalledByEntry)}, ns.WithScope(transaction.CalledByEntry)), nmIf(!hasNode, "wit.missing")
	}
}

// nmOr returns the first non-empty string.
func nmOr(a, b string) string {
	if a != "" {
		return a
	}
	return b
}

func nmIf(c bool, s string) string {
	if c {
		return s
	}
	return ""
}

// keyArg resolves the key argument of an operation: a pool key, or a corrupted
// one. The second result is the private key able to witness it (nil if none).
func (e *nmEngine) keyArg(op nmOp) ([]byte, *keys.PrivateKey, string, string) {
	k := e.nodes[op.Node%len(e.nodes)]
	pub := k.PublicKey().Bytes()
	name := fmt.Sprintf("node%d", op.Node%len(e.nodes))
	switch op.Bad {
	case 1:
		return pub[:32], k, name + "[:32]", "arg.malformed"
	case 2:
		return append(append([]byte{}, pub...), 0), k, name + "+1byte", "arg.malformed"
	case 3:
		return []byte{}, k, "emptykey", "arg.malformed"
	case 4:
		return e.garbage, nil, "garbagekey", "arg.malformed"
	}
	return pub, k, name, ""
}

func (e *nmEngine) nextSeq() int { e.seq++; return e.seq }

// legacyBlob builds a node info blob with the key at bytes 2..35 and a unique
// tail.
func (e *nmEngine) legacyBlob(key []byte, variant int) []byte {
	b := []byte{byte(0x10 + variant), 0x21}
	b = append(b, key...)
	b = append(b, []byte(fmt.Sprintf("|legacy-info seq=%d|", e.nextSeq()))...)
	for len(b) < 66 {
		b = append(b, 0)
	}
	return b
}

func (e *nmEngine) structInfo(key []byte, variant int, st int64) *nmN2 {
	n := &nmN2{key: key, state: st}
	n.addrs = []string{fmt.Sprintf("grpcs://192.0.2.%d:8090", 100+variant)}
	if variant%2 == 1 {
		n.addrs = append(n.addrs, "grpc://[2001:db8::1]:8080")
	}
	n.attrs = [][2]string{{"Capacity", fmt.Sprintf("%d", 100+variant)}, {"seq", fmt.Sprintf("%d", e.nextSeq())}}
	if variant >= 2 {
		n.attrs = append(n.attrs, [2]string{"UN-LOCODE", "RU LED"})
	}
	return n
}

func nmN2Item(n *nmN2) stackitem.Item {
	addrs := make([]stackitem.Item, len(n.addrs))
	for i, a := range n.addrs {
		addrs[i] = stackitem.Make(a)
	}
	attrs := make([]stackitem.MapElement, len(n.attrs))
	for i, a := range n.attrs {
		attrs[i] = stackitem.MapElement{Key: stackitem.Make(a[0]), Value: stackitem.Make(a[1])}
	}
	return stackitem.NewStruct([]stackitem.Item{
		stackitem.NewArray(addrs),
		stackitem.NewMapWithValue(attrs),
		stackitem.NewByteArray(n.key),
		stackitem.Make(n.state),
	})
}

// build turns an abstract operation into transactions (one, except for the
// C08 tick which first makes the candidate set unique).
func (e *nmEngine) build(op nmOp) []*nmTx {
	bt := &nmTx{op: op, kind: op.Kind}
	other := e.nodes[(op.Node+1)%len(e.nodes)]
	switch op.Kind {
	case nmAddPeer, nmAddPeerIR:
		key, priv, name, f := e.keyArg(nmOp{Node: op.Node, Bad: nmIf4(op.Bad)})
		blob := e.legacyBlob(key, op.Info)
		switch op.Bad {
		case 1: // key cut short
			blob, name, f = blob[:34], name+"/blob[:34]", "arg.malformed"
		case 2: // nothing but the key: the shortest blob that has one
			blob, name, f = blob[:35], name+"/blob[:35]", "arg.boundary"
		case 3:
			blob, name, f = []byte{}, "emptyblob", "arg.malformed"
		}
		bt.blob = blob
		if op.Kind == nmAddPeer {
			var sf string
			bt.signers, sf = e.nmNodeSigners(op.NSig, priv, other)
			bt.desc = fmt.Sprintf("addPeer(%s #%d)", name, e.seq)
			e.finishTx(bt, nmOr(sf, f), CallScript(e.nm, "addPeer", blob))
		} else {
			var sf string
			bt.signers, sf = AlphaSignerClass(e.w, op.Sig, e.stranger)
			bt.desc = fmt.Sprintf("addPeerIR(%s #%d)", name, e.seq)
			e.finishTx(bt, nmOr(sf, f), CallScript(e.nm, "addPeerIR", blob))
		}
	case nmAddNode:
		key, priv, name, f := e.keyArg(op)
		st := int64(nmOnline)
		if op.Bad == 5 {
			st = nmStates[op.State]
			if st != nmOnline {
				f = "arg.boundary"
			}
		}
		bt.n2 = e.structInfo(key, op.Info, st)
		bt.key = key
		var sf string
		bt.signers, sf = e.nmNodeSigners(op.NSig, priv, other)
		bt.desc = fmt.Sprintf("addNode(%s #%d state=%d)", name, e.seq, st)
		e.finishTx(bt, nmOr(sf, f), CallScript(e.nm, "addNode", nmN2Item(bt.n2)))
	case nmUpdateState:
		key, priv, name, f := e.keyArg(op)
		bt.key, bt.state = key, nmStates[op.State]
		var sf string
		bt.signers, sf = e.nmNodeSigners(op.NSig, priv, other)
		bt.desc = fmt.Sprintf("updateState(%d, %s)", bt.state, name)
		e.finishTx(bt, nmOr(sf, nmOr(f, nmStateFault(bt.state))), CallScript(e.nm, "updateState", bt.state, key))
	case nmUpdateStateIR:
		key, _, name, f := e.keyArg(op)
		bt.key, bt.state = key, nmStates[op.State]
		var sf string
		bt.signers, sf = AlphaSignerClass(e.w, op.Sig, e.stranger)
		bt.desc = fmt.Sprintf("updateStateIR(%d, %s)", bt.state, name)
		e.finishTx(bt, nmOr(sf, nmOr(f, nmStateFault(bt.state))), CallScript(e.nm, "updateStateIR", bt.state, key))
	case nmDeleteNode:
		key, _, name, f := e.keyArg(op)
		bt.key, bt.state = key, nmOffline
		var sf string
		bt.signers, sf = AlphaSignerClass(e.w, op.Sig, e.stranger)
		bt.desc = fmt.Sprintf("deleteNode(%s)", name)
		e.finishTx(bt, nmOr(sf, f), CallScript(e.nm, "deleteNode", key))
	case nmTick:
		var pre []*nmTx
		if Prop() == "C08" {
			// make the map this tick publishes different from every earlier one
			pre = e.uniqueCandidates(op)
		}
		var ep int64
		f := ""
		switch op.Epoch {
		case 0:
			ep = e.proj + 1
		case 1:
			ep, f = e.proj, "arg.stale_id"
		case 2:
			ep, f = e.proj-1, "arg.stale_id"
		case 3:
			ep, f = e.proj+2, "epoch.jump"
		default:
			ep, f = e.proj+5, "epoch.jump"
			if e.bigJumps && e.proj < 1<<31-2 {
				// right below the point where the epoch no longer fits four
				// bytes with a sign: the next ticks cross it one by one
				ep = 1<<31 - 2
			}
		}
		var sf string
		bt.signers, sf = AlphaSignerClass(e.w, op.Sig, e.stranger)
		bt.epoch = ep
		bt.desc = fmt.Sprintf("newEpoch(%d)", ep)
		bt.obsSlot = -1
		if e.r.Prop == "C06" && len(e.probes) > 0 {
			// C06 speaks of the candidate set as it is when the tick executes:
			// a probe call right in front of the tick records it
			e.obsSeq++
			ob := &nmTx{op: op, kind: nmObserve, obsSlot: e.obsSeq}
			ob.op.GasCut = 0
			ob.desc = fmt.Sprintf("probe0.observe(slot %d)", e.obsSeq)
			e.finishTx(ob, "", CallScript(e.probes[0].Hash, "observe", e.nm, int64(e.obsSeq)))
			pre = append(pre, ob)
			bt.obsSlot = e.obsSeq
		}
		e.finishTx(bt, nmOr(sf, f), CallScript(e.nm, "newEpoch", ep))
		if sf == "" && !bt.gasCut && ep > e.proj && !e.probeWouldRefuse(ep) && (op.Sig != 5 || e.bal == nil) {
			e.proj = ep
		}
		return append(pre, bt)
	case nmSubscribe:
		tg, ok := e.target(op.Sub, true)
		if !ok {
			return nil
		}
		bt.target = tg
		var sf string
		bt.signers, sf = AlphaSignerClass(e.w, op.Sig, e.stranger)
		bt.desc = fmt.Sprintf("subscribeForNewEpoch(%s)", e.targetName(tg))
		e.finishTx(bt, sf, CallScript(e.nm, "subscribeForNewEpoch", e.targetHash(tg)))
	case nmRefuse:
		tg, ok := e.target(op.Sub, false)
		if !ok {
			return nil
		}
		bt.target = tg
		switch op.Epoch {
		case 0, 3:
			bt.epoch = e.proj + 1
		case 1, 4:
			bt.epoch = e.proj + 2
		default:
			bt.epoch = -1 // disarm
		}
		bt.op.GasCut = 0
		bt.desc = fmt.Sprintf("%s.refuseEpoch(%d)", e.targetName(tg), bt.epoch)
		// arming a probe is the injection of a "callee.reject" fault; it fires
		// when a tick FAULTs because of it (see block)
		e.finishTx(bt, nmIf(bt.epoch >= 0, "callee.reject"), CallScript(e.probes[tg].Hash, "refuseEpoch", bt.epoch))
	case nmResize:
		if e.resizes >= 3 {
			// at most three resizes per history; the step becomes a plain tick
			op.Kind, op.Epoch = nmTick, 0
			return e.build(op)
		}
		// half of the resizes open a block of their own: the ring position at
		// the moment of the resize is then observable (coverage accounting
		// only). The others share the block with whatever was collected before
		// them — a tick and a resize, or two resizes, in one block in this order
		inBlock := op.Info%2 == 1 && len(e.pending) > 0
		if len(e.pending) > 0 && !inBlock {
			e.flush(0, 1)
		}
		e.resizes++
		bt.count = nmCounts[op.Count]
		bt.ringPos = e.ringPos()
		if inBlock {
			bt.ringPos = -98 // not observable in the middle of a block
			e.r.Count("probe.resize_in_block_after_other_calls")
		}
		var sf string
		bt.signers, sf = AlphaSignerClass(e.w, op.Sig, e.stranger)
		bt.desc = fmt.Sprintf("updateSnapshotCount(%d)", bt.count)
		e.finishTx(bt, sf, CallScript(e.nm, "updateSnapshotCount", bt.count))
	default:
		harnessf("unknown op kind %d", op.Kind)
	}
	return []*nmTx{bt}
}

func nmIf4(bad int) int {
	if bad == 4 {
		return 4
	}
	return 0
}

func nmStateFault(st int64) string {
	switch st {
	case nmOnline, nmOffline, nmMaintenance:
		return ""
	case -1:
		return "arg.negative"
	}
	return "arg.boundary"
}

// probeWouldRefuse: generation-time guess (against the pre-block model) whether
// a subscribed probe is armed for epoch ep.
func (e *nmEngine) probeWouldRefuse(ep int64) bool {
	for _, s := range e.m.subs {
		if s >= 0 && e.m.probeArmed[s] && e.m.probeRefuse[s] == ep {
			return true
		}
	}
	return false
}

// uniqueCandidates (C08 workload): valid Alphabet transactions that change the
// candidate set so that each published map differs from all earlier ones.
func (e *nmEngine) uniqueCandidates(op nmOp) []*nmTx {
	var out []*nmTx
	alpha := []Signer{e.w.Alphabet}
	idx := op.Node % len(e.nodes)
	if op.Info == 3 {
		k := e.nodes[idx].PublicKey().Bytes()
		d := &nmTx{op: nmOp{Kind: nmDeleteNode}, kind: nmDeleteNode, key: k, state: nmOffline, signers: alpha}
		d.desc = fmt.Sprintf("deleteNode(node%d)", idx)
		e.finishTx(d, "", CallScript(e.nm, "deleteNode", k))
		out = append(out, d)
		idx = (idx + 1) % len(e.nodes)
	}
	priv := e.nodes[idx]
	k := priv.PublicKey().Bytes()
	if op.Info != 2 {
		a := &nmTx{op: nmOp{Kind: nmAddPeerIR}, kind: nmAddPeerIR, signers: alpha}
		a.blob = e.legacyBlob(k, op.Info)
		a.desc = fmt.Sprintf("addPeerIR(node%d #%d)", idx, e.seq)
		e.finishTx(a, "", CallScript(e.nm, "addPeerIR", a.blob))
		out = append(out, a)
	}
	if op.Info != 1 {
		a := &nmTx{op: nmOp{Kind: nmAddNode}, kind: nmAddNode, key: k, signers: []Signer{e.w.Alphabet, Single("node", priv)}}
		a.n2 = e.structInfo(k, op.Info, nmOnline)
		a.desc = fmt.Sprintf("addNode(node%d #%d state=1)", idx, e.seq)
		e.finishTx(a, "", CallScript(e.nm, "addNode", nmN2Item(a.n2)))
		out = append(out, a)
	}
	return out
}

// target resolves a subscription / refusal target index.
func (e *nmEngine) target(idx int, allowBalance bool) (int, bool) {
	n := len(e.probes)
	if allowBalance && e.bal != nil {
		n++
	}
	if n == 0 {
		return 0, false
	}
	i := idx % n
	if i < len(e.probes) {
		return i, true
	}
	return -1, true
}

func (e *nmEngine) targetName(t int) string {
	if t < 0 {
		return "balance"
	}
	return fmt.Sprintf("probe%d", t)
}

func (e *nmEngine) targetHash(t int) util.Uint160 {
	if t < 0 {
		return e.bal.Hash
	}
	return e.probes[t].Hash
}

// ringPos reads the legacy ring index. Coverage accounting only (the cell
// space of C08 is defined over it); never used by an oracle.
func (e *nmEngine) ringPos() int64 {
	for _, kv := range e.w.Scan(e.nmID, []byte("snapshotCurrent")) {
		if string(kv.K) == "snapshotCurrent" {
			var v int64
			for i := len(kv.V) - 1; i >= 0; i-- {
				v = v<<8 | int64(kv.V[i])
			}
			if len(kv.V) > 0 && kv.V[len(kv.V)-1]&0x80 != 0 {
				v -= 1 << (8 * uint(len(kv.V)))
			}
			return v
		}
	}
	return -99
}

func (e *nmEngine) finishTx(bt *nmTx, fault string, script []byte) {
	sysFee := int64(-1)
	if bt.op.GasCut > 0 {
		p := e.w.WhatIf(script, bt.signers, 1)
		if p.State == vmstate.Halt && p.GAS > 0 {
			sysFee = p.GAS * int64(bt.op.GasCut) / 100
			bt.gasCut = true
			e.r.Inject("gas.cut")
		}
	}
	bt.tx = e.w.Tx(script, bt.signers, sysFee)
	bt.fault = fault
	if fault != "" {
		e.r.Inject(fault)
	}
}

func (e *nmEngine) alpha(bt *nmTx, depth int) bool {
	return Witness(bt.signers, e.w.Alphabet.Hash.BytesBE(), depth)
}

// nodeWitness: does the signer list carry a valid witness (at call depth 0) of
// the account of public key `key`? A byte string that is no public key has no
// account.
func (e *nmEngine) nodeWitness(bt *nmTx, key []byte) bool {
	if len(key) != 33 {
		return false
	}
	pk, err := keys.NewPublicKeyFromBytes(key, elliptic.P256())
	if err != nil {
		return false
	}
	return Witness(bt.signers, pk.GetScriptHash().BytesBE(), 0)
}

// nmPrediction is what the statements say a transaction does in the current
// model state.
type nmPrediction struct {
	exp nmExpect
	// rule raised if a mustRefuse request visibly took effect
	rule string
	// notifications of the Netmap contract if it takes effect
	evs []string
	// the zone leaves the notifications open as well
	evsOpen bool
	// calls of probe subscribers if it takes effect, in order
	calls []string
	apply func()
}

func nmRefusal(rule string) nmPrediction { return nmPrediction{exp: nmMustRefuse, rule: rule} }

func (e *nmEngine) predict(bt *nmTx) nmPrediction {
	m := e.m
	r := e.r
	nothing := func() {}
	switch bt.kind {
	case nmAddPeer, nmAddPeerIR:
		if len(bt.blob) < 35 {
			// no public key inside: there is nothing to store the node under
			return nmRefusal("C07/malformed-accepted")
		}
		key := append([]byte{}, bt.blob[2:35]...)
		if !e.alpha(bt, 0) || (bt.kind == nmAddPeer && !e.nodeWitness(bt, key)) {
			return nmRefusal("C07/unauthorised-candidate-change")
		}
		exp := nmMaySucceed
		if bt.op.Bad == 4 {
			// DON'T CARE: addPeerIR with 33 bytes that are no curve point in the
			// key position. The statement does not say whether the Alphabet may
			// store such a record; if it is stored, it is stored under these bytes.
			exp = nmDontCare
		}
		return nmPrediction{exp: exp, evs: []string{fmt.Sprintf("AddPeerSuccess(%x)", key)}, apply: func() {
			if old, ok := m.legacy[string(key)]; ok {
				r.Count("probe.legacy_info_replaced")
				if old.state == nmMaintenance {
					r.Count("probe.readd_after_maintenance")
				}
			}
			m.legacy[string(key)] = nmLeg{blob: bt.blob, state: nmOnline}
		}}
	case nmAddNode:
		if len(bt.key) != 33 {
			return nmRefusal("C07/malformed-accepted")
		}
		if bt.n2.state != nmOnline {
			// "Node must have Online state to be considered" (AddNode comment);
			// adding stores the node as Online (statement)
			return nmRefusal("C07/non-online-add-accepted")
		}
		if !e.alpha(bt, 0) || !e.nodeWitness(bt, bt.key) {
			return nmRefusal("C07/unauthorised-candidate-change")
		}
		n := *bt.n2
		ev := "AddNode(" + nmN2Entry(n.key, n.addrs, nmAttrText(n.attrs), 0) + ")"
		return nmPrediction{exp: nmMaySucceed, evs: []string{ev}, apply: func() {
			if old, ok := m.structd[string(n.key)]; ok {
				r.Count("probe.structured_info_replaced")
				if old.state == nmMaintenance {
					r.Count("probe.readd_after_maintenance")
				}
			}
			m.structd[string(n.key)] = n
		}}
	case nmUpdateState, nmUpdateStateIR, nmDeleteNode:
		key := bt.key
		if bt.kind == nmUpdateState {
			if len(key) != 33 {
				// "Public key MUST be PublicKeyCompressedLen bytes"; no node can
				// witness anything else
				return nmRefusal("C07/malformed-accepted")
			}
			if !e.alpha(bt, 0) || !e.nodeWitness(bt, key) {
				return nmRefusal("C07/unauthorised-candidate-change")
			}
		} else if !e.alpha(bt, 0) {
			return nmRefusal("C07/unauthorised-candidate-change")
		}
		if len(key) != 33 {
			// DON'T CARE (DESIGN.md §7): updateStateIR / deleteNode with a key of
			// wrong length must simply have no effect on the candidate sets;
			// FAULT or HALT and whatever it announces are both accepted.
			return nmPrediction{exp: nmDontCare, evsOpen: true, apply: nothing}
		}
		_, inL := m.legacy[string(key)]
		_, inS := m.structd[string(key)]
		known := inL || inS
		ev := []string{fmt.Sprintf("UpdateStateSuccess(%x,%d)", key, bt.state)}
		switch bt.state {
		case nmOnline, nmMaintenance:
			if !known {
				return nmRefusal("C07/update-of-unknown-candidate-accepted")
			}
			return nmPrediction{exp: nmMaySucceed, evs: ev, apply: func() {
				switch {
				case inL && inS:
					r.Count("probe.update_in_both_lists")
				case inL:
					r.Count("probe.update_in_legacy_only")
				default:
					r.Count("probe.update_in_structured_only")
				}
				if inL {
					n := m.legacy[string(key)]
					n.state = bt.state
					m.legacy[string(key)] = n
				}
				if inS {
					n := m.structd[string(key)]
					n.state = bt.state
					m.structd[string(key)] = n
				}
			}}
		case nmOffline:
			if !known {
				// DON'T CARE (DESIGN.md §7): removal of an unknown candidate —
				// refusal or a silent no-op (announced or not) are both fine; the
				// candidate sets must not change.
				return nmPrediction{exp: nmDontCare, evsOpen: true, apply: func() { r.Count("probe.removal_of_unknown_halted") }}
			}
			return nmPrediction{exp: nmMaySucceed, evs: ev, apply: func() {
				switch {
				case inL && inS:
					r.Count("probe.removal_from_both_lists")
				case inL:
					r.Count("probe.removal_from_legacy_only")
				default:
					r.Count("probe.removal_from_structured_only")
				}
				delete(m.legacy, string(key))
				delete(m.structd, string(key))
			}}
		}
		return nmRefusal("C07/unknown-state-accepted")
	case nmTick:
		if !e.alpha(bt, 0) {
			return nmRefusal("C06/tick-accepted-without-alphabet")
		}
		if bt.epoch <= m.epoch {
			return nmRefusal("C06/tick-accepted-stale-epoch")
		}
		exp := nmMustSucceed
		var calls []string
		for _, s := range m.subs {
			if s < 0 {
				if !e.alpha(bt, 1) {
					// DON'T CARE: the Alphabet's witness is valid for Netmap only
					// (scope CalledByEntry). Balance.newEpoch asks for the Alphabet
					// (Appendix A) and so refuses, but that is Balance's business
					// (C03), not a clause of C06: the outcome is taken from the
					// application log, all effects are then checked strictly.
					exp = nmDontCare
				}
				continue
			}
			if m.probeArmed[s] && m.probeRefuse[s] == bt.epoch {
				return nmRefusal("C06/tick-accepted-despite-refusing-subscriber")
			}
			calls = append(calls, fmt.Sprintf("probe%d.called(%d)", s, bt.epoch))
		}
		subs := append([]int(nil), m.subs...)
		return nmPrediction{exp: exp, evs: []string{fmt.Sprintf("NewEpoch(%d)", bt.epoch)}, calls: calls, apply: func() {
			if bt.epoch != m.epoch+1 {
				m.jumped = true
			}
			m.epoch = bt.epoch
			m.lastBlk = int64(e.w.Height())
			m.curLeg = nmCanonLegacy(m.legacy, true)
			m.curN2 = nmCanonStruct(m.structd)
			m.hist = append(m.hist, nmPub{epoch: bt.epoch, leg: m.curLeg, n2: m.curN2})
			m.trim()
			m.ticks++
			m.resizeSinceTick = false
			np := 0
			for _, s := range subs {
				if s >= 0 {
					m.probeCalls[s]++
					m.probeLast[s] = bt.epoch
					np++
				}
			}
			if np >= 2 {
				r.Count("probe.tick_fanned_out_to_2_or_more_probes")
			}
			if len(subs) == 0 {
				r.Count("probe.tick_without_subscribers")
			}
			r.AddEpochs(1)
		}}
	case nmSubscribe:
		// DON'T CARE: who may subscribe is C03's question (the method comment
		// asks for the Alphabet); C06 only says what a subscription means. The
		// outcome follows the application log: a subscription is registered iff
		// the call HALTs and announces NewEpochSubscription(contract).
		return nmPrediction{exp: nmDontCare, evsOpen: true, apply: nothing}
	case nmObserve:
		return nmPrediction{exp: nmDontCare, evsOpen: true, apply: nothing}
	case nmRefuse:
		return nmPrediction{exp: nmDontCare, evsOpen: true, apply: func() {
			m.probeArmed[bt.target] = bt.epoch >= 0
			m.probeRefuse[bt.target] = bt.epoch
		}}
	case nmResize:
		// DON'T CARE: which counts are accepted, and from whom (the method
		// comment names no witness; C03 covers it). C08 only speaks about
		// *accepted* counts, so acceptance follows the application log.
		return nmPrediction{exp: nmDontCare, apply: func() {
			old := m.n
			if bt.count < old {
				r.Count("probe.resize_shrink")
			} else if bt.count > old {
				r.Count("probe.resize_grow")
			}
			el := m.ticks
			if el > 13 {
				el = 13
			}
			r.Cell("C08.resize", fmt.Sprintf("%d>%d@pos%d/el%d", old, bt.count, bt.ringPos, el))
			m.n = bt.count
			m.trim()
			m.resizes++
			m.resizeSinceTick = true
		}}
	}
	harnessf("unknown op kind")
	return nmPrediction{}
}

// events splits the notifications of a HALTed transaction into those of the
// Netmap contract and the calls seen by probe subscribers (application log
// order); everything else (Balance, natives) is not this engine's business.
func (e *nmEngine) events(aer *state.AppExecResult) (nmEv []string, calls []string) {
	for _, ev := range aer.Events {
		items, _ := nmArr(ev.Item)
		if ev.ScriptHash == e.nm {
			s := ev.Name + "(?)"
			switch {
			case ev.Name == "AddPeerSuccess" && len(items) == 1:
				s = fmt.Sprintf("AddPeerSuccess(%x)", nmBytes(items[0]))
			case ev.Name == "AddNode" && len(items) == 3:
				s = "AddNode(" + nmN2Fields(items[0], items[1], items[2], 0) + ")"
			case ev.Name == "UpdateStateSuccess" && len(items) == 2:
				s = fmt.Sprintf("UpdateStateSuccess(%x,%d)", nmBytes(items[0]), nmInt(items[1]))
			case ev.Name == "NewEpoch" && len(items) == 1:
				s = fmt.Sprintf("NewEpoch(%d)", nmInt(items[0]))
			case ev.Name == "NewEpochSubscription" && len(items) == 1:
				s = fmt.Sprintf("NewEpochSubscription(%x)", nmBytes(items[0]))
			}
			nmEv = append(nmEv, s)
			continue
		}
		for i, p := range e.probes {
			if ev.ScriptHash == p.Hash {
				if ev.Name == "called" && len(items) == 1 {
					calls = append(calls, fmt.Sprintf("probe%d.called(%d)", i, nmInt(items[0])))
				} else {
					calls = append(calls, fmt.Sprintf("probe%d.%s(?)", i, ev.Name))
				}
			}
		}
	}
	return
}

func (e *nmEngine) digests() []string {
	d := []string{e.w.StorageDigest(e.nmID)}
	for _, p := range e.probes {
		d = append(d, e.w.StorageDigest(p.ID))
	}
	return d
}

func nmSameStrings(a, b []string) bool {
	if len(a) != len(b) {
		return false
	}
	for i := range a {
		if a[i] != b[i] {
			return false
		}
	}
	return true
}

// mapRule picks the rule for checks that serve two properties: the map
// published by a tick is C06's clause; it is also entry 0 of the history C08
// observes (observe_at: netmap).
func (e *nmEngine) mapRule(c06, c08 string) string {
	if e.r.Prop == "C08" {
		return c08
	}
	return c06
}

// block executes the pending transactions as one block and runs all oracles.
func (e *nmEngine) block(pending []*nmTx, dt uint64) {
	r, w, m := e.r, e.w, e.m
	before := e.digests()
	txs := make([]*transaction.Transaction, len(pending))
	for i, bt := range pending {
		txs[i] = bt.tx
	}
	aers := w.AddBlock(txs, dt)
	r.AddBlock(len(txs), dt)
	if len(pending) > 1 {
		r.Inject("sched.pack")
		r.Fired("sched.pack")
	}
	anyTook := false
	ticksOK, candsOK := 0, 0
	var tickSlots [][2]int64
	var refusedTick, refusedCand, refusedResize bool
	for i, bt := range pending {
		aer := aers[i]
		p := e.predict(bt)
		halted := aer.VMState == vmstate.Halt
		var gotEv, gotCalls []string
		if halted {
			// the ledger discards everything a FAULTed transaction did,
			// notifications included
			gotEv, gotCalls = e.events(aer)
		}
		took := halted
		if p.exp == nmMustRefuse && halted && len(gotEv) == 0 && len(gotCalls) == 0 {
			// A refusal may be a FAULT or a HALT that does and announces
			// nothing: the statements only say "without effect". That it really
			// changed nothing is checked by the state oracles after the block.
			took = false
			r.Count("silent_refusal." + nmKindName[bt.kind])
		}
		outcome := "refused"
		if took {
			outcome = "ok"
		}
		if bt.gasCut && !halted && GasFault(aer.FaultException) {
			r.Fired("gas.cut")
			outcome = "gasfault"
			p.exp = nmMustRefuse
		}
		if bt.fault != "" && bt.kind != nmRefuse {
			r.Fired(bt.fault)
		}
		r.Tok(nmKindName[bt.kind], nmOr(bt.fault, nmIf(bt.gasCut, "gas.cut")), outcome)
		r.Count("outcome." + nmKindName[bt.kind] + "." + outcome)
		r.Tracef("h=%d tx%d %s signers=%s fault=%s gascut=%d → %s %s", w.Height(), i, bt.desc, signerNames(bt.signers), bt.fault, bt.op.GasCut, aer.VMState, clipStr(aer.FaultException, 90))

		switch {
		case p.exp == nmMustRefuse && took:
			r.Violation(p.rule, "", "%s by %s took effect: netmap events %v, subscriber calls %v", bt.desc, signerNames(bt.signers), gotEv, gotCalls)
			// (only reached for a rule of another property) the model cannot
			// follow what must not happen: end the run here
			r.Checkpoint()
		case p.exp == nmMustSucceed && !took:
			// only ticks are obliged to succeed (C06: "succeeds iff ...")
			if m.resizeSinceTick {
				r.ViolationSynced("C08/tick-after-resize-refused", "", "%s by %s after an accepted updateSnapshotCount (count now %d): %s", bt.desc, signerNames(bt.signers), m.n, aer.FaultException)
			} else {
				// (a refusal changes nothing: for C07/C08 the run goes on)
				r.ViolationSynced("C06/tick-refused", "", "%s by %s (epoch %d, subscribers %v): %s", bt.desc, signerNames(bt.signers), m.epoch, m.subs, aer.FaultException)
			}
		case p.exp == nmMaySucceed && !took && outcome != "gasfault":
			// no statement of C06–C08 obliges candidate changes to succeed; counted
			r.Count("unexpected_refusal." + nmKindName[bt.kind])
		}
		if !took {
			switch bt.kind {
			case nmTick:
				refusedTick = true
				if p.rule == "C06/tick-accepted-despite-refusing-subscriber" && !halted {
					r.Fired("callee.reject")
					r.Count("probe.tick_refused_by_probe_subscriber")
				}
			case nmResize:
				refusedResize = true
			case nmSubscribe:
				if e.alpha(bt, 0) && outcome != "gasfault" {
					r.Count("unexpected_refusal.subscribe")
				}
			case nmRefuse, nmObserve:
			default:
				refusedCand = true
			}
			continue
		}
		if p.exp == nmMustRefuse {
			continue // not reached: the checkpoint above ended the run
		}
		anyTook = true
		// ---- step refinement: notifications and subscriber calls ----
		if bt.kind == nmSubscribe {
			want := fmt.Sprintf("NewEpochSubscription(%x)", e.targetHash(bt.target).BytesBE())
			announced := false
			for _, ev := range gotEv {
				if ev == want {
					announced = true
				} else {
					r.Violation("C06/notification-mismatch", "", "%s announced %v", bt.desc, gotEv)
				}
			}
			switch {
			case m.subscribed(bt.target):
				// subscribing twice has no additional effect: the list stays as
				// it is (the fan-out oracle then demands exactly one call)
				r.Count("probe.repeated_subscription")
			case announced:
				m.subs = append(m.subs, bt.target)
				r.Changed()
				if !e.alpha(bt, 0) {
					r.Count("c03.subscription_without_alphabet_registered")
				}
			default:
				r.Count("subscription_halted_unregistered")
			}
		} else if !p.evsOpen && !nmSameStrings(p.evs, gotEv) {
			rule := "C07/notification-mismatch"
			if bt.kind == nmTick {
				rule = "C06/notification-mismatch"
			} else if bt.kind == nmResize {
				rule = "C08/notification-mismatch"
			}
			r.Violation(rule, "", "%s: expected %v got %v", bt.desc, p.evs, gotEv)
		}
		if !nmSameStrings(p.calls, gotCalls) {
			rule := "C06/fan-out-mismatch"
			if bt.kind != nmTick {
				rule = "C06/subscriber-called-outside-tick"
			}
			r.Violation(rule, "", "%s: subscribers %v: expected calls %v (subscription order), application log has %v", bt.desc, m.subs, p.calls, gotCalls)
		}
		p.apply()
		switch bt.kind {
		case nmTick:
			ticksOK++
			if bt.obsSlot >= 0 {
				tickSlots = append(tickSlots, [2]int64{bt.epoch, int64(bt.obsSlot)})
			}
		case nmAddPeer, nmAddPeerIR, nmAddNode, nmUpdateState, nmUpdateStateIR, nmDeleteNode:
			candsOK++
		}
		if bt.kind != nmSubscribe && bt.kind != nmObserve {
			r.Changed()
		}
	}
	e.blkTickSlots = tickSlots
	if ticksOK > 1 {
		r.Count("probe.several_ticks_in_one_block")
	}
	e.proj = m.epoch
	m.blkTicks, m.blkCands, m.blkCandRefused = ticksOK, candsOK, refusedCand

	// ---- state oracles after the block ----
	after := e.digests()
	if !anyTook && !nmSameStrings(before, after) {
		detail := fmt.Sprintf("no transaction of block %d took effect, yet storage digests changed: %v → %v (netmap first, then probes)", w.Height(), before, after)
		if refusedTick {
			r.Violation("C06/refused-tick-changed-storage", "", "%s", detail)
		}
		if refusedCand {
			r.Violation("C07/refused-call-changed-storage", "", "%s", detail)
		}
		if refusedResize {
			r.Violation("C08/refused-resize-changed-storage", "", "%s", detail)
		}
		if !refusedTick && !refusedCand && !refusedResize {
			r.Violation("C06/storage-changed-without-call", "", "%s", detail)
		}
	}
	e.checkState()
	r.Checkpoint()
}

func (e *nmEngine) readText(conv func(stackitem.Item) string, method string, args ...any) (string, error) {
	it, err := e.w.Read(e.nm, method, args...)
	if err != nil {
		return "", err
	}
	return conv(it), nil
}

// checkState: state invariants and the read-API sweep against the model.
func (e *nmEngine) checkState() {
	r, w, m := e.r, e.w, e.m
	// C08: "any accepted count leaves the contract able to tick again" — asked
	// right away in a throw-away VM (nothing is committed), not only when the
	// workload happens to tick next.
	if m.resizeSinceTick && !e.probeWouldRefuse(m.epoch+1) {
		if p := w.WhatIf(CallScript(e.nm, "newEpoch", m.epoch+1), []Signer{w.Alphabet}, 1); p.State != vmstate.Halt {
			r.Violation("C08/tick-after-resize-refused", "", "after an accepted updateSnapshotCount (count now %d) newEpoch(%d) by [alphabet] would be refused: %s", m.n, m.epoch+1, p.Fault)
			r.Checkpoint()
		}
	}
	// C06: epoch counter and tick height
	if ep := w.ReadInt(e.nm, "epoch").Int64(); ep != m.epoch {
		r.Violation("C06/epoch-mismatch", "", "epoch() = %d, model %d", ep, m.epoch)
	}
	lb := w.ReadInt(e.nm, "lastEpochBlock").Int64()
	switch {
	case m.ticks == 0:
		if lb != 0 {
			r.Violation("C06/last-epoch-block", "", "lastEpochBlock() = %d before any tick", lb)
		}
	case m.blkConv < 0 && (lb == m.lastBlk || lb == m.lastBlk-1):
		m.blkConv = m.lastBlk - lb
	case m.blkConv < 0 || lb != m.lastBlk-m.blkConv:
		r.Violation("C06/last-epoch-block", "", "lastEpochBlock() = %d, the last successful tick was in block #%d (convention offset %d)", lb, m.lastBlk, m.blkConv)
	}
	r.Checkpoint()
	// C07: both candidate lists equal the model. If ticks were the only thing
	// that took effect in this block, a difference is C06's clause "a tick
	// leaves the candidate set itself unchanged".
	candRule := "C07/candidates-mismatch"
	if m.blkTicks > 0 && m.blkCands == 0 && !m.blkCandRefused {
		candRule = "C06/tick-changed-candidates"
	}
	if got, err := e.readText(nmLegacyListText, "netmapCandidates"); err != nil {
		r.Violation(candRule, "", "netmapCandidates FAULTs: %v", err)
	} else if want := nmCanonLegacy(m.legacy, false); got != want {
		r.Violation(candRule, "", "legacy list: netmapCandidates() = [%s], model [%s]", got, want)
	}
	if got, err := e.readText(nmStructListText, "listCandidates"); err != nil {
		r.Violation(candRule, "", "listCandidates FAULTs: %v", err)
	} else if want := nmCanonStruct(m.structd); got != want {
		r.Violation(candRule, "", "structured list: listCandidates() = [%s], model [%s]", got, want)
	}
	// a candidate list the model cannot follow would make the map checks below
	// fire as a mere consequence: a foreign rule ends the run here
	r.Checkpoint()
	// C06: probes were called exactly as often as the model says
	for i, p := range e.probes {
		calls := w.ReadInt(p.Hash, "calls").Int64()
		last := w.ReadInt(p.Hash, "last").Int64()
		if calls != m.probeCalls[i] || last != m.probeLast[i] {
			r.Violation("C06/subscriber-call-count", "", "probe%d saw %d calls (last epoch %d), model %d (last %d)", i, calls, last, m.probeCalls[i], m.probeLast[i])
		}
	}
	r.Checkpoint()
	// C06: the published map in both formats
	// C06: "publishes the current candidate set" — the set as the contract
	// itself reported it right before the tick (the probe's observation), not as
	// the model believes it to be: whether that set is the right one is C07's
	// business. Where the two differ the observed one becomes the reference.
	if r.Prop == "C06" {
		for ti, ts := range e.blkTickSlots {
			ep, slot := ts[0], ts[1]
			lit, err1 := w.Read(e.probes[0].Hash, "observedLegacy", slot)
			sit, err2 := w.Read(e.probes[0].Hash, "observedStructured", slot)
			if err1 != nil || err2 != nil {
				harnessf("observation slot %d: %v %v", slot, err1, err2)
			}
			if _, null := lit.(stackitem.Null); null {
				continue // the observer transaction itself did not take effect
			}
			wantLeg := nmDropOffline(nmLegacyListText(lit))
			wantN2 := nmStructListText(sit)
			h := m.retained(ep)
			if h == nil {
				continue
			}
			if wantLeg != h.leg || wantN2 != h.n2 {
				r.Count("c06_reference_taken_from_observation")
				h.leg, h.n2 = wantLeg, wantN2
				if ep == m.epoch {
					m.curLeg, m.curN2 = wantLeg, wantN2
				}
			}
			if ep != m.epoch && !m.jumped && ep > m.epoch-m.n {
				// published by an earlier tick of this block: its first read
				// (histories with epoch jumps are left out, like in C08: what is
				// retained after a jump is not specified)
				// (the legacy ring counts ticks, not epochs: d ticks ago)
				d := int64(m.blkTicks - 1 - tickIndex(e, ti))
				if got, err := e.readText(nmLegacyListText, "snapshot", d); err == nil && d > 0 && d < m.n && got != h.leg {
					r.Violation("C06/netmap-mismatch", "", "snapshot(%d) = [%s], candidates right before the tick to epoch %d: [%s]", d, got, ep, h.leg)
				}
				if got, err := e.readText(nmStructListText, "listNodes", ep); err == nil && got != h.n2 {
					r.Violation("C06/listnodes-mismatch", "", "listNodes(%d) = [%s], candidates right before that tick: [%s]", ep, got, h.n2)
				}
			}
		}
	}
	// C08 is about keeping what was published, whatever that was: *what* a tick
	// publishes is C06's (and the candidate set C07's) business. When C08 is
	// decided and the map just published is not the model's, the observed one
	// becomes the reference for the history rules (and maps published earlier in
	// the same block, never observable, are no longer compared).
	c08 := r.Prop == "C08" && !r.shadow
	adopt := func(leg bool, got string) {
		r.Count("c08_reference_taken_from_observation")
		e.c08Drift = true
		for i := range m.hist {
			if m.hist[i].epoch == m.epoch {
				if leg {
					m.hist[i].leg = got
				} else {
					m.hist[i].n2 = got
				}
			}
		}
		if leg {
			m.curLeg = got
		} else {
			m.curN2 = got
		}
	}
	if c08 && m.blkTicks > 1 {
		// maps published by the earlier ticks of this block: their first read
		// is the reference from here on
		for i := range m.hist {
			h := &m.hist[i]
			if h.epoch <= m.epoch-int64(m.blkTicks) || h.epoch >= m.epoch {
				continue
			}
			if got, err := e.readText(nmLegacyListText, "snapshotByEpoch", h.epoch); err == nil && got != h.leg {
				r.Count("c08_reference_taken_from_first_read")
				h.leg = got
			}
			if got, err := e.readText(nmStructListText, "listNodes", h.epoch); err == nil && got != h.n2 {
				r.Count("c08_reference_taken_from_first_read")
				h.n2 = got
			}
		}
	}
	if got, err := e.readText(nmLegacyListText, "netmap"); err != nil || got != m.curLeg {
		if c08 && err == nil && m.blkTicks > 0 {
			adopt(true, got)
		} else {
			r.Violation(e.mapRule("C06/netmap-mismatch", "C08/snapshot-mismatch"), "", "netmap() = [%s] err=%v, published at epoch %d: [%s]", got, err, m.epoch, m.curLeg)
		}
	}
	if got, err := e.readText(nmStructListText, "listNodes", m.epoch); err != nil || got != m.curN2 {
		if c08 && err == nil && m.blkTicks > 0 {
			adopt(false, got)
		} else {
			r.Violation(e.mapRule("C06/listnodes-mismatch", "C08/listnodes-mismatch"), "", "listNodes(%d) = [%s] err=%v, published: [%s]", m.epoch, got, err, m.curN2)
		}
	}
	if got, err := e.readText(nmStructListText, "listNodes"); err != nil || got != m.curN2 {
		r.Violation(e.mapRule("C06/listnodes-mismatch", "C08/listnodes-mismatch"), "", "listNodes() = [%s] err=%v, published at epoch %d: [%s]", got, err, m.epoch, m.curN2)
	}
	r.Checkpoint()
	if m.jumped {
		// DON'T CARE: after an epoch jump the history is outside C08's
		// quantifier ("epochs advance by one per tick"): which older maps are
		// still served is not judged.
		r.Count("c08.sweep_skipped_after_jump")
		return
	}
	e.checkHistory()
}

// checkHistory is C08's read sweep: snapshot(d), snapshotByEpoch(e),
// listNodes(e) and the raw scan of the structured per-epoch lists.
func (e *nmEngine) checkHistory() {
	r, m := e.r, e.m
	maxD, lo, hi := int64(14), m.epoch-14, m.epoch+2
	if r.Prop != "C08" {
		// reduced sweep (cost): the neighbourhood of the boundaries only
		maxD, lo, hi = 2, m.epoch-2, m.epoch+1
	}
	nh := int64(len(m.hist))
	ds := []int64{}
	for d := int64(0); d <= maxD; d++ {
		ds = append(ds, d)
	}
	if r.Prop != "C08" && m.n > maxD {
		ds = append(ds, m.n-1, m.n)
	}
	for _, d := range ds {
		got, err := e.readText(nmLegacyListText, "snapshot", d)
		if d < nh {
			want := m.hist[nh-1-d]
			if want.unseen {
				r.Count("c08_unobserved_map_not_compared")
				continue
			}
			if err != nil || got != want.leg {
				r.Violation("C08/snapshot-mismatch", "", "count %d, epoch %d: snapshot(%d) = [%s] err=%v; the map published %d ticks ago (epoch %d) is [%s]", m.n, m.epoch, d, got, err, d, want.epoch, want.leg)
			}
		} else if err == nil && got != "" {
			r.Violation("C08/snapshot-stale", "", "count %d, epoch %d, %d maps retained: snapshot(%d) = [%s], expected nothing", m.n, m.epoch, nh, d, got)
		}
	}
	for ep := lo; ep <= hi; ep++ {
		want := m.retained(ep)
		if want != nil && want.unseen {
			r.Count("c08_unobserved_map_not_compared")
			continue
		}
		got, err := e.readText(nmLegacyListText, "snapshotByEpoch", ep)
		if want != nil {
			if err != nil || got != want.leg {
				r.Violation("C08/snapshot-by-epoch-mismatch", "", "count %d, epoch %d: snapshotByEpoch(%d) = [%s] err=%v, published: [%s]", m.n, m.epoch, ep, got, err, want.leg)
			}
		} else if err == nil && got != "" {
			r.Violation("C08/snapshot-by-epoch-stale", "", "count %d, epoch %d, retained %s: snapshotByEpoch(%d) = [%s], expected nothing", m.n, m.epoch, e.retainedText(), ep, got)
		}
		got, err = e.readText(nmStructListText, "listNodes", ep)
		if want != nil {
			if err != nil || got != want.n2 {
				r.Violation("C08/listnodes-mismatch", "", "count %d, epoch %d: listNodes(%d) = [%s] err=%v, published: [%s]", m.n, m.epoch, ep, got, err, want.n2)
			}
		} else if err == nil && got != "" {
			r.Violation("C08/listnodes-stale", "", "count %d, epoch %d, retained %s: listNodes(%d) = [%s], expected nothing", m.n, m.epoch, e.retainedText(), ep, got)
		}
	}
	// raw scan of the structured per-epoch lists ('p' + 4-byte BE epoch + key):
	// only retained epochs may be stored, with exactly the published content
	byEpoch := map[int64][]string{}
	var epochs []int64
	for _, kv := range e.w.Scan(e.nmID, []byte{'p'}) {
		if len(kv.K) < 5 {
			r.Violation("C08/structured-leak", "", "malformed key %x under the per-epoch prefix", kv.K)
			continue
		}
		ep := int64(binary.BigEndian.Uint32(kv.K[1:5]))
		if _, ok := byEpoch[ep]; !ok {
			epochs = append(epochs, ep)
		}
		ent := "undecodable:" + fmt.Sprintf("%x", kv.V)
		if it, err := stackitem.Deserialize(kv.V); err == nil {
			ent = nmN2ItemEntry(it)
		}
		byEpoch[ep] = append(byEpoch[ep], ent)
	}
	sort.Slice(epochs, func(i, j int) bool { return epochs[i] < epochs[j] })
	for _, ep := range epochs {
		l := byEpoch[ep]
		sort.Strings(l)
		got := strings.Join(l, " ")
		want := m.retained(ep)
		if want == nil {
			r.Violation("C08/structured-leak", "", "count %d, epoch %d, retained %s: storage still holds the structured map of epoch %d: [%s]", m.n, m.epoch, e.retainedText(), ep, got)
		} else if got != want.n2 {
			r.Violation("C08/listnodes-mismatch", "", "stored structured map of epoch %d = [%s], published: [%s]", ep, got, want.n2)
		}
	}
}

func (e *nmEngine) retainedText() string {
	l := make([]string, len(e.m.hist))
	for i, h := range e.m.hist {
		l[i] = fmt.Sprintf("%d", h.epoch)
	}
	return "{" + strings.Join(l, ",") + "}"
}

// nmDropOffline removes the offline entries from a canonical legacy list text
// ("the current candidate set … legacy: all non-offline candidates").
func nmDropOffline(text string) string {
	if text == "" {
		return ""
	}
	var keep []string
	for _, e := range strings.Split(text, " ") {
		if strings.HasSuffix(e, fmt.Sprintf("/%d", nmOffline)) {
			continue
		}
		keep = append(keep, e)
	}
	return strings.Join(keep, " ")
}

// tickIndex: position, among the ticks that took effect in the block just
// executed, of the ti-th tick that had an observation.
func tickIndex(e *nmEngine, ti int) int {
	// every tick of a C06 run has an observation, so the positions coincide
	return ti
}
