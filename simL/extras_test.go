package siml

// "extras": an engine without a property of its own. It submits valid
// invocations of the methods no other engine exercises (alphabet.vote,
// container.start/stopContainerEstimation, neofs.bind/unbind, nns.setPrice,
// reputation/audit puts, `update` of every contract), so that the checks that
// shadow engine histories (C03's signer-fault enumeration, C15's differential
// replay, C16's sweeps) reach them. Its own oracle is only that these valid
// calls are accepted.

import (
	"bytes"
	"crypto/sha256"
	"fmt"
	nkeys "github.com/nspcc-dev/neo-go/pkg/crypto/keys"
	"sort"
	"testing"

	"github.com/nspcc-dev/neo-go/pkg/core/native/noderoles"
	"github.com/nspcc-dev/neo-go/pkg/core/transaction"
	"github.com/nspcc-dev/neo-go/pkg/util"
	"github.com/nspcc-dev/neo-go/pkg/vm/stackitem"
	"github.com/nspcc-dev/neo-go/pkg/vm/vmstate"
)

func extrasBody(r *Run) {
	t := r.T
	n := []int{1, 3, 4, 7}[Pick(t, "n", 4)]
	mainSide := Chance(t, "mainChain", 35)
	doUpdates := Chance(t, "updates", 60)
	stranger := DetKey("extras/stranger")
	user := DetKey("extras/user")
	submit := func(w *World, what string, signers []Signer, h util.Uint160, method string, args ...any) {
		aer := w.AddBlock([]*transaction.Transaction{w.CallTx(signers, -1, h, method, args...)}, 1)[0]
		r.AddBlock(1, 1)
		r.Tracef("h=%d %s signers=%s → %s %s", w.Height(), what, signerNames(signers), aer.VMState, clipStr(aer.FaultException, 100))
		r.Tok(what, "", aer.VMState.String())
		if aer.VMState != vmstate.Halt {
			r.Violation("C03/extras-valid-call-refused", "", "%s with signers %s: %s", what, signerNames(signers), aer.FaultException)
			return
		}
		r.Changed()
	}
	if mainSide {
		w := r.Own(NewWorld(WorldOpts{N: n, Label: "extras-main"}))
		// the NeoFSAlphabet role (which authorises main-chain updates) = the committee
		pubs := make([]any, len(w.Pubs))
		for i, p := range w.Pubs {
			pubs[i] = p.Bytes()
		}
		submit(w, "designateAsRole(NeoFSAlphabet)", []Signer{w.Committee}, w.Roles, "designateAsRole", int64(noderoles.NeoFSAlphabet), pubs)
		procA, nfA := CompileContract("processing"), CompileContract("neofs")
		// Processing needs the NeoFS hash and vice versa: NeoFS is deployed with the
		// hash Processing is going to get
		procHash := stateContractHash(w.Payer.Hash, procA)
		keys := make([]any, len(w.Pubs))
		for i, p := range w.Pubs {
			keys[i] = p.Bytes()
		}
		nf := w.Deploy("neofs", nfA, []any{false, procHash, keys, []any{}})
		proc := w.Deploy("processing", procA, []any{nf.Hash})
		if proc.Hash != procHash {
			harnessf("processing hash prediction failed")
		}
		w.blocksFed = 0
		us := Single("user", user)
		submit(w, "neofs.bind", []Signer{us}, nf.Hash, "bind", user.GetScriptHash(), []any{stranger.PublicKey().Bytes()})
		submit(w, "neofs.unbind", []Signer{us}, nf.Hash, "unbind", user.GetScriptHash(), []any{stranger.PublicKey().Bytes()})
		if doUpdates {
			cur, _ := TreeVersions()
			for i, k := range []string{"neofs", "processing"} {
				na := VariantBuild(k, cur+1+int64(i), -1)
				role := w.Committee // role keys = committee keys, majority account
				if Chance(t, "roleChangesHands", 50) {
					// the role goes to other keys in the block right before the
					// update: from the next block on their majority decides, the
					// previous holders' does not
					nk := append(append([]*nkeys.PrivateKey(nil), w.Privs[:len(w.Privs)-1]...), DetKey(fmt.Sprintf("extras/alpha/%d", i)), DetKey("extras/alpha/z"))
					var np []any
					for _, k := range nk {
						np = append(np, k.PublicKey().Bytes())
					}
					submit(w, "designateAsRole(NeoFSAlphabet, other keys)", []Signer{w.Committee}, w.Roles, "designateAsRole", int64(noderoles.NeoFSAlphabet), np)
					role = Multi(fmt.Sprintf("new-alphabet-%d-of-%d", len(nk)/2+1, len(nk)), len(nk)/2+1, nk)
					r.Inject("upgrade.role_changed")
					r.Fired("upgrade.role_changed")
				}
				submit(w, k+".update", []Signer{role}, w.C[k].Hash, "update", na.NEFBytes, na.ManBytes, []any{})
				if role.Hash != w.Committee.Hash {
					// and back to the committee's keys (what the other checks that
					// shadow this history take for granted)
					submit(w, "designateAsRole(NeoFSAlphabet, committee keys)", []Signer{w.Committee}, w.Roles, "designateAsRole", int64(noderoles.NeoFSAlphabet), pubs)
				}
			}
		}
		r.Checkpoint()
		return
	}
	w := r.Own(NewFSWorld(FSOpts{N: n, Label: "extras", With: []string{"netmap", "balance", "neofsid", "container", "reputation", "audit", "proxy"},
		NetmapCfg: []any{[]byte("ContainerFee"), []byte{0}, []byte("ContainerAliasFee"), []byte{0}}}))
	alph := w.Deploy("alphabet0", CompileContract("alphabet"), []any{false, w.C["netmap"].Hash, w.C["proxy"].Hash, "\u2c00\u2c38\u2c4f", int64(0), int64(n)})
	w.blocksFed = 0
	A := []Signer{w.Alphabet}
	epoch := int64(0)
	cands := make([]any, len(w.Pubs))
	for i, p := range w.Pubs {
		cands[i] = p.Bytes()
	}
	if Chance(t, "registeredCandidate", 60) {
		// with a registered candidate and NEO on the contract's account the vote
		// has an effect (the contract's NEO account votes), so the checks that
		// shadow this history have a positive control for it
		cand := DetKey("extras/candidate")
		aer := w.AddBlock([]*transaction.Transaction{w.CallTx([]Signer{Single("candidate", cand)}, 1100_0000_0000, w.NEO, "registerCandidate", cand.PublicKey().Bytes())}, 1)[0]
		r.AddBlock(1, 1)
		if aer.VMState != vmstate.Halt {
			harnessf("registerCandidate refused: %s", aer.FaultException)
		}
		submit(w, "neo.transfer(validators → alphabet0)", []Signer{w.Validator}, w.NEO, "transfer", w.Validator.Hash, alph.Hash, int64(100), nil)
		cands = []any{cand.PublicKey().Bytes()}
		voted := func() string {
			it, err := w.Read(w.NEO, "getAccountState", alph.Hash)
			if err != nil {
				harnessf("getAccountState: %v", err)
			}
			b, err := stackitem.Serialize(it)
			if err != nil {
				harnessf("getAccountState: %v", err)
			}
			return fmt.Sprintf("%x", b)
		}
		before := voted()
		submit(w, "alphabet.vote", A, alph.Hash, "vote", epoch, cands)
		if after := voted(); after == before {
			r.Tracef("alphabet.vote left the contract's NEO account as it was: %s", after)
			r.Count("extras.vote_without_effect")
		} else {
			r.Count("extras.vote_with_effect")
		}
	} else {
		submit(w, "alphabet.vote", A, alph.Hash, "vote", epoch, cands)
	}
	submit(w, "container.startContainerEstimation", A, w.C["container"].Hash, "startContainerEstimation", int64(1))
	submit(w, "container.stopContainerEstimation", A, w.C["container"].Hash, "stopContainerEstimation", int64(1))
	submit(w, "nns.setPrice", []Signer{w.Committee}, w.C["nns"].Hash, "setPrice", int64(5_0000_0000))
	submit(w, "reputation.put", A, w.C["reputation"].Hash, "put", int64(3), DetKey("extras/peer").PublicKey().Bytes(), []byte("trust"))
	submit(w, "neofsid.addKey", A, w.C["neofsid"].Hash, "addKey", append([]byte{0x35}, make([]byte, 24)...), []any{stranger.PublicKey().Bytes()})
	submit(w, "neofsid.removeKey", A, w.C["neofsid"].Hash, "removeKey", append([]byte{0x35}, make([]byte, 24)...), []any{stranger.PublicKey().Bytes()})
	// several of everything a reader returns as a list inside its result: three
	// storage nodes in the map, two containers of one owner, three size
	// estimations for one of them (decoders that share one element between the
	// entries of a list only show with more than one)
	var nodes []*nkeys.PrivateKey
	for i := 0; i < 3; i++ {
		k := DetKey(fmt.Sprintf("extras/node/%d", i))
		nodes = append(nodes, k)
		info := append(append([]byte{0x0a, 33}, k.PublicKey().Bytes()...), fmt.Sprintf("|extras-node|%d", i)...)
		submit(w, fmt.Sprintf("netmap.addPeerIR(node%d)", i), A, w.C["netmap"].Hash, "addPeerIR", info)
	}
	submit(w, "netmap.newEpoch", A, w.C["netmap"].Hash, "newEpoch", int64(1))
	// (estimations are taken from the nodes of the previous epoch's map)
	submit(w, "netmap.newEpoch(2)", A, w.C["netmap"].Hash, "newEpoch", int64(2))
	ownerID := stOwnerID(user.GetScriptHash())
	var cids [][]byte
	for i := 0; i < 2; i++ {
		blob := append(append([]byte{0x0a, 0, 0x12, 27, 0x0a, 25}, ownerID...), fmt.Sprintf("|extras-container|%d", i)...)
		h := sha256.Sum256(blob)
		cids = append(cids, h[:])
		submit(w, fmt.Sprintf("container.put(#%d)", i), A, w.C["container"].Hash, "put", blob, bytes.Repeat([]byte{7}, 64), user.PublicKey().Bytes(), []byte{})
	}
	for i, k := range nodes {
		submit(w, fmt.Sprintf("container.putContainerSize(node%d)", i), []Signer{Single(fmt.Sprintf("node%d", i), k)}, w.C["container"].Hash, "putContainerSize", int64(2), cids[0], int64(1000+i*37), k.PublicKey().Bytes())
	}
	submit(w, "reputation.put (second value)", A, w.C["reputation"].Hash, "put", int64(3), DetKey("extras/peer").PublicKey().Bytes(), []byte("trust-2"))
	if doUpdates {
		cur, _ := TreeVersions()
		var keys []string
		for k, d := range w.C {
			if d.Repo != "" {
				keys = append(keys, k)
			}
		}
		sort.Strings(keys)
		for _, k := range keys {
			d := w.C[k]
			na := VariantBuild(d.Repo, cur+1, -1)
			if d.Repo == "nns" {
				submit(w, k+".update", []Signer{w.Committee}, d.Hash, "update", na.NEFBytes, string(na.ManBytes), updateArgs(d.Repo))
			} else {
				submit(w, k+".update", []Signer{w.Committee}, d.Hash, "update", na.NEFBytes, na.ManBytes, updateArgs(d.Repo))
			}
		}
	}
	r.Sweep = func() []string {
		var out []string
		var keys []string
		for k := range w.C {
			keys = append(keys, k)
		}
		sort.Strings(keys)
		for _, k := range keys {
			it, err := w.Read(w.C[k].Hash, "version")
			out = append(out, fmt.Sprintf("%s.version()=%s", k, reprItem(it, err)))
		}
		return out
	}
	r.Checkpoint()
}

func init() { RegisterEngine("extras", []string{"C03"}, extrasBody) }

func TestExtras(t *testing.T) { Sim(t, extrasBody) }
