package siml

// C16, dump scenario: the recorded testnet/mainnet states (real old
// executables, real old storage layouts) are restored into a fresh world,
// optionally perturbed at storage level in the shapes found in the dumps, and
// one contract is upgraded to the working tree's executable under drawn signer
// sets and GAS cuts. The read API of the old executable on the pre-state must
// equal the read API of the new one on the post-state.

import (
	"bytes"
	"fmt"
	"math/big"
	"path/filepath"
	"reflect"
	"sort"
	"strings"
	"sync"

	"github.com/google/uuid"

	"github.com/nspcc-dev/neo-go/pkg/core/state"
	"github.com/nspcc-dev/neo-go/pkg/core/transaction"
	"github.com/nspcc-dev/neo-go/pkg/util"
	"github.com/nspcc-dev/neo-go/pkg/vm/stackitem"
	"github.com/nspcc-dev/neo-go/pkg/vm/vmstate"
	"pgregory.net/rapid"
)

var dumpSets = []struct {
	prefix  string
	targets []string
}{
	{"testdata/testnet-1254789", []string{"balance", "container", "neofsid", "netmap", "audit", "reputation", "alphabet0"}},
	{"testdata/mainnet-3309907", []string{"balance", "container", "neofsid", "netmap", "audit", "reputation", "alphabet0"}},
	{"contracts/nns/testdata/testnet-2281632", []string{"nns"}},
}

var recordedVersions sync.Map

// recordedVersion is what the dumped executable of a contract reports.
func recordedVersion(prefix string, d *Dump, target string) int64 {
	key := prefix + "/" + target
	if v, ok := recordedVersions.Load(key); ok {
		return v.(int64)
	}
	w := NewDumpWorld(1, "dump-probe", d, nil)
	v := versionOf(w, w.C[target])
	w.Close()
	recordedVersions.Store(key, v)
	return v
}

func dumpRepoName(target string) string {
	if target == "alphabet0" {
		return "alphabet"
	}
	return target
}

// serialised old-layout balance account {Balance, Until, Parent}
func dumpAccount(bal int64, until int64, parent []byte) []byte {
	var p stackitem.Item = stackitem.Null{}
	if parent != nil {
		p = stackitem.NewByteArray(parent)
	}
	raw, err := stackitem.Serialize(stackitem.NewStruct([]stackitem.Item{stackitem.Make(bal), stackitem.Make(until), p}))
	must(err)
	return raw
}

func upgradeDumpBody(r *Run) {
	t := r.T
	ds := dumpSets[Pick(t, "dump", len(dumpSets))]
	target := ds.targets[Pick(t, "target", len(ds.targets))]
	n := []int{1, 3, 4, 7}[Pick(t, "n", 4)]
	sig := Weighted(t, "sig", []int{60, 10, 8, 8, 7, 7})
	gasCut := 0
	if Chance(t, "gascut?", 20) {
		gasCut = rapid.IntRange(5, 95).Draw(t, "gascut")
	}
	// storage-level perturbations in the shapes found in the dumps
	notaryFlag := Weighted(t, "notaryFlag", []int{50, 20, 15, 15}) // 0 as dumped, 1 absent, 2 false, 3 true
	ballots := Weighted(t, "ballots", []int{42, 12, 12, 16, 18})   // 0 as dumped, 1 absent, 2 empty list, 3 stale (height far in the past is impossible on a short chain: see below), 4 one ballot whose last vote lies 19..22 blocks before the update
	const ballotAt = 8                                             // height recorded in the class-4 ballot
	ballotAge := 19 + Pick(t, "ballotAge", 4)
	ballotMix := Pick(t, "ballotMix", 3) // class 4: 0 that ballot alone, 1 a long-expired ballot of another decision after it, 2 before it
	extraAcc := rapid.IntRange(0, 3).Draw(t, "extraAccounts")
	var extraFirst [3]byte
	for i := range extraFirst {
		if Chance(t, "extraFirstLetter?", 60) {
			letters := "xoecndrmuastk5\x00\xff"
			extraFirst[i] = letters[Pick(t, "extraFirstLetter", len(letters))]
		} else {
			extraFirst[i] = byte(Uniform(t, "extraFirstByte", 256))
		}
	}
	longHistory := Chance(t, "longSnapshotHistory?", 35) // netmap: history extended beyond the default before the upgrade
	twice := Chance(t, "twice?", 30)
	candState := 0
	if Chance(t, "candidateInMaintenance?", 40) {
		candState = 1
	}
	claim := 0
	if Chance(t, "claimVersion?", 50) {
		claim = 1 + Pick(t, "claimVersion", 10)
	}
	d := LoadDump(filepath.Join(RepoDir(), ds.prefix))
	mutate := func(name string, kvs []KV) []KV {
		if name != target {
			return kvs
		}
		if ballots == 4 {
			// a ballot is planted only where the recorded storage holds a ballots
			// item at all: contracts that never collected votes (Audit, …) have no
			// pending-vote gate to speak of
			has := false
			for _, kv := range kvs {
				has = has || string(kv.K) == "ballots"
			}
			if !has {
				ballots = 0
			}
		}
		out := kvs[:0:0]
		for _, kv := range kvs {
			switch {
			case string(kv.K) == "notary" && notaryFlag != 0:
				continue
			case string(kv.K) == "ballots" && ballots != 0:
				continue
			}
			out = append(out, kv)
		}
		switch notaryFlag {
		case 2:
			out = append(out, KV{K: []byte("notary"), V: []byte{0}})
		case 3:
			out = append(out, KV{K: []byte("notary"), V: []byte{1}})
		}
		if ballots == 2 || ballots == 3 {
			raw, _ := stackitem.Serialize(stackitem.NewArray(nil))
			out = append(out, KV{K: []byte("ballots"), V: raw})
		}
		if ballots == 4 {
			b := stackitem.NewStruct([]stackitem.Item{
				stackitem.NewByteArray([]byte("verif-decision")),
				stackitem.NewArray([]stackitem.Item{stackitem.NewByteArray(DetKey("dump/voter").PublicKey().Bytes())}),
				stackitem.Make(int64(ballotAt)),
			})
			stale := stackitem.NewStruct([]stackitem.Item{
				stackitem.NewByteArray([]byte("verif-old-decision")),
				stackitem.NewArray([]stackitem.Item{stackitem.NewByteArray(DetKey("dump/voter2").PublicKey().Bytes())}),
				stackitem.Make(int64(1)),
			})
			list := []stackitem.Item{b}
			switch ballotMix {
			case 1:
				list = []stackitem.Item{b, stale}
			case 2:
				list = []stackitem.Item{stale, b}
			}
			raw, err := stackitem.Serialize(stackitem.NewArray(list))
			must(err)
			out = append(out, KV{K: []byte("ballots"), V: raw})
		}
		if name == "netmap" && longHistory {
			// history extended to 12 snapshots (updateSnapshotCount exists since
			// 0.15.1): slots 10 and 11 hold copies of slots 0 and 1 in the layout
			// of the dumped version
			var s0, s1 []byte
			for _, kv := range out {
				if string(kv.K) == "snapshot_\x00" {
					s0 = kv.V
				}
				if string(kv.K) == "snapshot_\x01" {
					s1 = kv.V
				}
			}
			if s0 != nil && s1 != nil {
				for i := range out {
					if string(out[i].K) == "snapshotCount" {
						out[i].V = []byte{12}
					}
				}
				out = append(out, KV{K: []byte("snapshot_\x0a"), V: s0}, KV{K: []byte("snapshot_\x0b"), V: s1})
			}
		}
		if name == "netmap" && candState > 0 {
			// one recorded candidate in another state than Online (the dumps hold
			// online candidates only): {{BLOB}, state} records under "candidate"
			done := false
			for i := range out {
				if done || !bytes.HasPrefix(out[i].K, []byte("candidate")) {
					continue
				}
				it, err := stackitem.Deserialize(out[i].V)
				if err != nil {
					continue
				}
				f, ok := it.Value().([]stackitem.Item)
				if !ok || len(f) != 2 {
					continue
				}
				if _, err := f[1].TryInteger(); err != nil {
					continue
				}
				f[1] = stackitem.Make(int64(3)) // MAINTENANCE
				if raw, err := stackitem.Serialize(stackitem.NewStruct(f)); err == nil {
					out[i].V = raw
					done = true
				}
			}
		}
		if name == "container" && extraAcc > 0 {
			// extra containers in the dumped (un-prefixed) layout: a copy of a
			// recorded container under another id, with its owner-index entry
			var cnr, own *KV
			for i := range out {
				if len(out[i].K) == 32 && cnr == nil {
					cnr = &out[i]
				}
			}
			if cnr != nil {
				for i := range out {
					if len(out[i].K) == 57 && bytes.Equal(out[i].K[25:], cnr.K) {
						own = &out[i]
					}
				}
			}
			if cnr != nil && own != nil {
				for i := 0; i < extraAcc; i++ {
					id := append([]byte{}, cnr.K...)
					// ids are hashes: any first byte occurs, those that the
					// prefixed layouts use for something else included
					id[0] = extraFirst[i]
					id[31] ^= byte(1 + i)
					out = append(out, KV{K: id, V: cnr.V})
					ok := append(append([]byte{}, own.K[:25]...), id...)
					out = append(out, KV{K: ok, V: id})
				}
			}
		}
		if name == "balance" {
			for i := 0; i < extraAcc; i++ {
				acc := DetKey(fmt.Sprintf("dump/acc/%d", i)).GetScriptHash().BytesBE()
				var parent []byte
				until := int64(0)
				if i == 1 {
					parent, until = DetKey("dump/acc/0").GetScriptHash().BytesBE(), 100
				}
				out = append(out, KV{K: acc, V: dumpAccount(int64(1000+i), until, parent)})
			}
		}
		return out
	}
	// Balance: the un-prefixed account layout was in use by every supported
	// release below the current one (CHANGELOG 0.20.0: "Prefixes to balance
	// contract storage scheme"), so the recorded executable may claim any of
	// them: the version constant it reports and hands to _deploy is rewritten.
	var patch func(name string, st *state.Contract)
	claimed := int64(0)
	if target == "balance" && claim > 0 {
		cur, prev := TreeVersions()
		// (also just below the oldest supported version: must be refused)
		cands := []int64{prev, prev + 1, 16000, 17000, 18000, 19000, 19001, cur - 1, prev - 1, prev - 4}
		claimed = cands[(claim-1)%len(cands)]
		recorded := recordedVersion(ds.prefix, d, target)
		if claimed == prev && recorded != prev {
			// the recorded executable compares with this very number elsewhere
			// (its own oldest supported version): not rewritable in place
			claimed = prev + 1
		}
		patch = func(name string, st *state.Contract) {
			if name != target {
				return
			}
			if sc, k := PatchVersionConstant(st.NEF.Script, recorded, claimed); k > 0 {
				st.NEF.Script = sc
				st.NEF.Checksum = st.NEF.CalculateChecksum()
			} else {
				claimed = 0
			}
		}
	}
	w := r.Own(NewDumpWorldPatched(n, "dump", d, mutate, patch))
	if claimed > 0 {
		if v := versionOf(w, w.C[target]); v != claimed {
			harnessf("version constant of the recorded %s executable not rewritten: reports %d, wanted %d", target, v, claimed)
		}
		r.Inject("upgrade.claimed_version")
		r.Fired("upgrade.claimed_version")
		r.Cell("C16.claimed-version", fmt.Sprintf("%s/%d", filepath.Base(ds.prefix), claimed))
	}
	dc := w.C[target]
	repo := dumpRepoName(target)
	r.Tracef("dump=%s target=%s n=%d sig=%d gasCut=%d notaryFlag=%d ballots=%d extraAcc=%d longHistory=%v", filepath.Base(ds.prefix), target, n, sig, gasCut, notaryFlag, ballots, extraAcc, longHistory)
	if target != "nns" {
		// a fresh NNS (ID 1), as tests/migration does
		w.Deploy("nns", CompileContract("nns"), []any{[]any{[]any{"neofs", "ops@nspcc.io"}}})
		if target == "alphabet0" {
			w.RegisterFSName("proxy", util.Uint160{1, 2, 3})
		}
	}
	// --- what the old executable says
	oldVersion := versionOf(w, dc)
	cur, prev := TreeVersions()
	pre := dumpSweep(w, target, dc)
	nv := w.BC.GetStorageItem(dc.ID, []byte("notary"))
	notaryDisabled := len(nv) == 1 && nv[0] == 1
	pending := false
	if bv := w.BC.GetStorageItem(dc.ID, []byte("ballots")); bv != nil {
		if it, err := stackitem.Deserialize(bv); err == nil {
			if arr, ok := it.Value().([]stackitem.Item); ok && len(arr) > 0 {
				// recorded ballots carry heights of the real network, far above this
				// chain's height: they count as in progress
				pending = true
			}
		}
	}
	var signers []Signer
	okSig := false
	switch sig {
	case 0:
		signers, okSig = []Signer{w.Committee}, true
	case 1:
		signers, okSig = []Signer{w.Alphabet}, w.Alphabet.Hash == w.Committee.Hash
	case 2:
		signers = []Signer{Single("member0", w.Privs[0])}
	case 3:
		signers = []Signer{Single("stranger", DetKey("dump/stranger"))}
	case 4:
		signers = []Signer{w.Committee.WithScope(transaction.None)}
	}
	if !okSig {
		r.Inject("upgrade.signer")
	}
	newA := CompileContract(repo)
	var script []byte
	if repo == "nns" {
		script = CallScript(dc.Hash, "update", newA.NEFBytes, string(newA.ManBytes), updateArgs(repo))
	} else {
		script = CallScript(dc.Hash, "update", newA.NEFBytes, newA.ManBytes, updateArgs(repo))
	}
	attempts := 1
	if twice {
		attempts = 2
	}
	dep := oldVersion
	if ballots == 4 {
		// the update is to see the ballot's last vote ballotAge blocks back: the
		// vote window (20 blocks, as C17 has it) is still open at 19 and 20 and
		// closed from 21 on
		for int(w.Height()) < ballotAt+ballotAge {
			w.AddBlock(nil, 1)
			r.AddBlock(0, 1)
		}
		r.Inject("height.gap")
		r.Fired("height.gap")
	}
	for at := 0; at < attempts; at++ {
		if ballots == 4 {
			pending = int(w.Height())-ballotAt <= 20
			r.Count(fmt.Sprintf("probe.update_%d_blocks_after_last_vote", int(w.Height())-ballotAt))
		}
		okVersion := prev <= dep && dep < cur
		mayRefuseVotes := dep < 17_000 && notaryDisabled && pending
		sysFee, cut := int64(-1), false
		if gasCut > 0 && at == 0 {
			if p := w.WhatIf(script, signers, 1); p.State == vmstate.Halt && p.GAS > 0 {
				sysFee, cut = p.GAS*int64(gasCut)/100, true
				r.Inject("upgrade.gas_cut")
			}
		}
		before := allDigests(w)
		aer := w.AddBlock([]*transaction.Transaction{w.Tx(script, signers, sysFee)}, 1)[0]
		r.AddBlock(1, 1)
		took := aer.VMState == vmstate.Halt
		gasFault := cut && !took && GasFault(aer.FaultException)
		r.Tracef("h=%d UPDATE %s (version %d → %d) signers=%s cut=%v → %s %s", w.Height(), target, dep, cur, signerNames(signers), cut, aer.VMState, clipStr(aer.FaultException, 100))
		r.Tok("dump-update:"+target, fmt.Sprintf("sig%d cut%v nf%d b%d try%d", sig, cut, notaryFlag, ballots, at), aer.VMState.String())
		r.Cell("C16.dump", fmt.Sprintf("%s/%s/sig%d/nf%d/b%d", filepath.Base(ds.prefix), target, sig, notaryFlag, ballots))
		expectOK := okSig && okVersion && !mayRefuseVotes
		switch {
		case took && !(okSig && okVersion):
			r.Violation("C16/update-accepted-what-must-be-refused", "", "%s from %s: update from version %d to %d with signers %s succeeded", target, ds.prefix, dep, cur, signerNames(signers))
		case took && mayRefuseVotes:
			// the documented pending-vote refusal did not happen although ballots
			// are in progress
			r.Violation("C16/update-accepted-with-pending-votes", "", "%s from %s: updated although notary-disabled ballots are in progress", target, ds.prefix)
		case !took && expectOK && !gasFault:
			// The statement gives necessary conditions ("succeeds only with …"),
			// and a migration from a recorded state may depend on its environment
			// (the Alphabet migration wants GAS on the contract and a Netmap to
			// ask). Only a refusal that names the gate itself — witness or version —
			// although both are fine is judged.
			fe := aer.FaultException
			if strings.Contains(fe, "version") || strings.Contains(fe, "committee") || strings.Contains(fe, "witness") {
				r.Violation("C16/valid-update-refused", "", "%s from %s: committee-witnessed update from supported version %d refused by the gate: %s", target, ds.prefix, dep, fe)
			}
			r.Count("dump_update_refused_for_environmental_reason")
		}
		if !took {
			if gasFault {
				r.Fired("upgrade.gas_cut")
			}
			if !okSig {
				r.Fired("upgrade.signer")
			}
			if !okVersion {
				r.Inject("upgrade.version")
				r.Fired("upgrade.version")
			}
			if mayRefuseVotes && okSig && okVersion {
				r.Count("probe.pending_vote_refusal")
			}
			if after := allDigests(w); after != before {
				r.Violation("C16/refused-update-changed-storage", "", "%s: refused update changed storage", target)
			}
			continue
		}
		r.Changed()
		r.Count("dump_upgrades_accepted")
		dep = cur
		if v := versionOf(w, dc); v != cur {
			r.Violation("C16/version-after-update", "", "%s: version() = %d after the update, expected %d", target, v, cur)
		}
		post := dumpSweep(w, target, dc)
		if diff := dumpSweepDiff(pre, post); diff != "" {
			r.Violation("C16/read-api-changed-by-upgrade", "", "%s from %s (old version %d): %s", target, filepath.Base(ds.prefix), oldVersion, diff)
		}
		r.CountN("dump_read_api_lines_compared", int64(len(pre)))
		// what the new executable returns must be well-formed for the new
		// version: the generated bindings must be able to decode it
		if msg := postUpgradeDecode(w, repo, dc); msg != "" {
			r.Violation("C16/post-upgrade-result-malformed", "", "%s from %s (old version %d): %s", target, filepath.Base(ds.prefix), oldVersion, msg)
		}
	}
	r.Checkpoint()
}

func reprItem(it stackitem.Item, err error) string {
	if err != nil {
		return "FAULT"
	}
	var sb strings.Builder
	itemRepr(&sb, it, 0)
	return sb.String()
}

// dumpSweep reads everything the read API of a dumped contract exposes about
// the entities found by a raw scan of its storage. Lines are keyed by what is
// asked, not by how it is stored, so that they are comparable across layouts.
func dumpSweep(w *World, target string, dc *Deployed) map[string]string {
	out := map[string]string{}
	call := func(label, m string, args ...any) stackitem.Item {
		it, err := w.Read(dc.Hash, m, args...)
		out[label] = reprItem(it, err)
		if err != nil {
			return nil
		}
		return it
	}
	kvs := w.Scan(dc.ID, nil)
	switch target {
	case "balance":
		call("totalSupply()", "totalSupply")
		call("symbol()", "symbol")
		call("decimals()", "decimals")
		for a, rec := range RawBalanceAccounts(kvs) {
			acc := []byte(a)
			call(fmt.Sprintf("balanceOf(%x)", acc), "balanceOf", acc)
			// lock metadata is not in the API but decides future refunds
			out[fmt.Sprintf("account-record(%x)", acc)] = fmt.Sprintf("%x", rec.Value)
		}
	case "container":
		lst := call("list()", "list", []byte{})
		if lst != nil {
			ids := ItemArr(lst)
			var sorted [][]byte
			for _, id := range ids {
				sorted = append(sorted, ItemBytes(id))
			}
			sort.Slice(sorted, func(i, j int) bool { return bytes.Compare(sorted[i], sorted[j]) < 0 })
			var sb strings.Builder
			owners := map[string]bool{}
			for _, id := range sorted {
				fmt.Fprintf(&sb, "%x,", id)
				call(fmt.Sprintf("get(%x)", id), "get", id)
				call(fmt.Sprintf("eACL(%x)", id), "eACL", id)
				if o := call(fmt.Sprintf("owner(%x)", id), "owner", id); o != nil {
					owners[string(ItemBytes(o))] = true
				}
			}
			out["list()"] = sb.String() // as a set
			for o := range owners {
				if l := call(fmt.Sprintf("list(%x)", o), "list", []byte(o)); l != nil {
					var ids []string
					for _, id := range ItemArr(l) {
						ids = append(ids, fmt.Sprintf("%x", ItemBytes(id)))
					}
					sort.Strings(ids)
					out[fmt.Sprintf("list(%x)", o)] = strings.Join(ids, ",")
				}
			}
		}
	case "neofsid":
		owners := map[string]bool{}
		for _, kv := range kvs {
			if len(kv.K) == 59 && kv.K[0] == 'o' {
				owners[string(kv.K[1:26])] = true
			}
		}
		for o := range owners {
			if l := call(fmt.Sprintf("key(%x)", o), "key", []byte(o)); l != nil {
				var ks []string
				for _, k := range ItemArr(l) {
					ks = append(ks, fmt.Sprintf("%x", ItemBytes(k)))
				}
				sort.Strings(ks)
				out[fmt.Sprintf("key(%x)", o)] = strings.Join(ks, ",")
			}
		}
	case "netmap":
		call("epoch()", "epoch")
		for _, kv := range kvs {
			if bytes.HasPrefix(kv.K, []byte("config")) {
				k := kv.K[len("config"):]
				call(fmt.Sprintf("config(%s)", k), "config", k)
			}
		}
		nodes := func(label, m string, args ...any) {
			it, err := w.Read(dc.Hash, m, args...)
			if err != nil {
				out[label] = "FAULT"
				return
			}
			// node representations changed over the versions (a bare BLOB became
			// {BLOB, state}): compared as the set of BLOBs, which is what both say
			var bl []string
			for _, nd := range ItemArr(it) {
				f := ItemArr(nd)
				if len(f) == 0 {
					continue
				}
				first := f[0]
				if inner, ok := first.Value().([]stackitem.Item); ok && len(inner) > 0 {
					first = inner[0]
				}
				// … and the state where one is given (a bare BLOB is a node of a
				// published map of the time before MAINTENANCE existed: online)
				st := int64(1)
				if len(f) >= 2 {
					if v, err := f[1].TryInteger(); err == nil {
						st = v.Int64()
					}
				}
				bl = append(bl, fmt.Sprintf("%x/%d", ItemBytes(first), st))
			}
			sort.Strings(bl)
			out[label] = strings.Join(bl, ",")
		}
		nodes("netmap()", "netmap")
		nodes("netmapCandidates()", "netmapCandidates")
		nodes("snapshot(0)", "snapshot", 0)
		nodes("snapshot(1)", "snapshot", 1)
	case "alphabet0":
		call("name()", "name")
		call("gas()", "gas")
		call("neo()", "neo")
	case "audit", "reputation":
		// their listings are keyed by epochs and ids found only in storage: the
		// data items themselves must survive byte for byte
		for _, kv := range kvs {
			k := string(kv.K)
			if k == "notary" || k == "ballots" || k == "netmapScriptHash" || k == "innerring" {
				continue
			}
			out[fmt.Sprintf("item(%x)", kv.K)] = fmt.Sprintf("%x", kv.V)
		}
	case "nns":
		call("getPrice()", "getPrice")
		ts := call("totalSupply()", "totalSupply")
		if it := call("tokens()", "tokens"); it != nil {
			var names []string
			tlds := int64(0)
			for _, n := range ItemArr(it) {
				nm := string(ItemBytes(n))
				if !strings.Contains(nm, ".") {
					// "NNS TLDs are no longer proper NFTs" (CHANGELOG, #344): they
					// leave the token list, the supply and the per-token getters
					tlds++
					continue
				}
				names = append(names, nm)
			}
			sort.Strings(names)
			out["tokens()"] = strings.Join(names, ",")
			if ts != nil {
				out["totalSupply()"] = fmt.Sprint(ItemInt(ts).Int64() - tlds)
			}
			for _, nm := range names {
				call(fmt.Sprintf("ownerOf(%s)", nm), "ownerOf", nm)
				call(fmt.Sprintf("getAllRecords(%s)", nm), "getAllRecords", nm)
				call(fmt.Sprintf("properties(%s)", nm), "properties", nm)
				for _, typ := range []int64{1, 5, 16, 28} {
					call(fmt.Sprintf("getRecords(%s,%d)", nm, typ), "getRecords", nm, typ)
					call(fmt.Sprintf("resolve(%s,%d)", nm, typ), "resolve", nm, typ)
				}
			}
		}
	}
	return out
}

func dumpSweepDiff(pre, post map[string]string) string {
	var keys []string
	for k := range pre {
		keys = append(keys, k)
	}
	sort.Strings(keys)
	for _, k := range keys {
		if pre[k] == "FAULT" {
			continue // the old executable could not answer; nothing to preserve
		}
		empty := func(x string) bool { return x == "null" || x == "[]" }
		if empty(pre[k]) && empty(post[k]) {
			continue // two spellings of "nothing"
		}
		if strings.HasPrefix(k, "properties(") && strings.HasPrefix(post[k], strings.TrimSuffix(pre[k], "}")) {
			continue // the newer executable reports additional fields (admin)
		}
		if post[k] != pre[k] {
			return fmt.Sprintf("%s: old executable said %s, new one says %s", k, clipStr(pre[k], 200), clipStr(post[k], 200))
		}
	}
	return ""
}

// postUpgradeDecode calls list-returning getters of an upgraded contract
// through the generated binding; a HALTing call whose result the binding cannot
// decode means the stored data is not in the new version's shape.
func postUpgradeDecode(w *World, repo string, d *Deployed) string {
	ctor := bindCtors[repo]
	if ctor == nil {
		return ""
	}
	a := &bindActor{w: w, iters: map[uuid.UUID][]stackitem.Item{}}
	obj := reflect.ValueOf(ctor(a, d.Hash))
	try := func(method string, args ...any) string {
		m := obj.MethodByName(method)
		if !m.IsValid() {
			return ""
		}
		in := make([]reflect.Value, len(args))
		for i, x := range args {
			in[i] = reflect.ValueOf(x)
		}
		a.calls = a.calls[:0]
		outs := m.Call(in)
		var err error
		if e, ok := outs[len(outs)-1].Interface().(error); ok {
			err = e
		}
		if err != nil && len(a.calls) == 1 && a.calls[0].halted && !a.calls[0].null {
			return fmt.Sprintf("rpc/%s.%s%v cannot decode what the upgraded contract returns: %v", repo, method, args, err)
		}
		return ""
	}
	switch repo {
	case "netmap":
		if msg := try("Netmap"); msg != "" {
			return msg
		}
		if msg := try("NetmapCandidates"); msg != "" {
			return msg
		}
		cnt := 10
		if v := w.BC.GetStorageItem(d.ID, []byte("snapshotCount")); len(v) == 1 {
			cnt = int(v[0])
		}
		for i := 0; i < cnt; i++ {
			if msg := try("Snapshot", big.NewInt(int64(i))); msg != "" {
				return msg
			}
		}
	case "container":
		if msg := try("List", []byte{}); msg != "" {
			return msg
		}
	case "balance":
		if msg := try("TotalSupply"); msg != "" {
			return msg
		}
	}
	return ""
}
