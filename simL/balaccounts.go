package siml

import (
	"math/big"

	"github.com/nspcc-dev/neo-go/pkg/vm/stackitem"
)

// RawAccount is one Balance account record as found in storage.
type RawAccount struct {
	Key     []byte // the storage key it was found under
	Value   []byte
	Balance *big.Int
	Until   int64
	Parent  []byte
}

// RawBalanceAccounts finds the account records of a Balance contract in raw
// storage without relying on the key prefix in use: an account record is a
// serialized {Balance, Until, Parent} structure stored under the 20-byte
// address, alone (the layout before 0.20.0) or after a one-byte prefix.
// Records of anything else are ignored. The result maps address → record.
func RawBalanceAccounts(kvs []KV) map[string]RawAccount {
	out := map[string]RawAccount{}
	for _, kv := range kvs {
		var addr []byte
		switch len(kv.K) {
		case 20:
			addr = kv.K
		case 21:
			addr = kv.K[1:]
		default:
			continue
		}
		it, err := stackitem.Deserialize(kv.V)
		if err != nil {
			continue
		}
		f, ok := it.Value().([]stackitem.Item)
		if !ok || len(f) != 3 {
			continue
		}
		bal, err1 := f[0].TryInteger()
		until, err2 := f[1].TryInteger()
		if err1 != nil || err2 != nil || !until.IsInt64() {
			continue
		}
		var parent []byte
		if _, null := f[2].(stackitem.Null); !null {
			p, err := f[2].TryBytes()
			if err != nil {
				continue
			}
			parent = p
		}
		if _, dup := out[string(addr)]; dup {
			harnessf("two account records for %x in Balance storage", addr)
		}
		out[string(addr)] = RawAccount{Key: kv.K, Value: kv.V, Balance: bal, Until: until.Int64(), Parent: parent}
	}
	return out
}
