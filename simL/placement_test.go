package siml

// Placement engine: decides C14 (placement roster and signature soundness).
//
// Reference model (from the statement of C14 and the method comments of
// AddNextEpochNodes / CommitContainerListUpdate / VerifyPlacementSignatures /
// SubmitObjectPut):
//
//	pending    cid → vector → keys in submission order (since the last commit)
//	committed  cid → vector → keys, REP numbers (of the last commit)
//
// A signature matrix is built from entries whose ground truth is known by
// construction (who signed which message); "accepted" is allowed only if for
// every i < len(REP) the entries of sigs[i] contain valid signatures of msg by
// at least REP_i *distinct* keys of the committed vector i.
//
// Deliberately silent zones ("don't care"), each commented where it is coded:
//   - whether addNextEpochNodes accepts a vector gap, a vector number ≥ 255, a
//     key of wrong length or an empty batch: the statement does not say; the
//     outcome bit follows the application log, then "exactly what was
//     submitted, in order" is demanded.
//   - whether commitContainerListUpdate accepts more or fewer REP numbers than
//     there are vectors; a matrix with more vectors than REP numbers; REP 0.
//   - completeness of verification beyond the honest matrix (exactly REP_i
//     valid signatures of distinct members per vector): only soundness is the
//     property's direction.
//   - no statement obliges add/commit to succeed: refusals are counted.
//   - the exact "validuntil" boundary of submitObjectPut (only far past / far
//     future values are generated).

import (
	"bytes"
	"crypto/elliptic"
	"crypto/sha256"
	"fmt"
	"math/big"
	"sort"
	"sync"
	"testing"

	"github.com/nspcc-dev/neo-go/pkg/core/transaction"
	"github.com/nspcc-dev/neo-go/pkg/crypto/keys"
	"github.com/nspcc-dev/neo-go/pkg/util"
	"github.com/nspcc-dev/neo-go/pkg/vm/stackitem"
	"github.com/nspcc-dev/neo-go/pkg/vm/vmstate"
	"pgregory.net/rapid"
)

const (
	plAdd = iota
	plCommit
	plVerify
	plSubmit
)

// plAccepted is a submission the contract accepted.
type plAccepted struct{ msg, oid []byte }

var plKindName = []string{"addNextEpochNodes", "commitContainerListUpdate", "verifyPlacementSignatures", "submitObjectPut"}

const (
	plMaxVec     = 4
	plMaxEntries = 6
	plOutsiders  = 1000 // pool indices from here on are never put into a roster
)

// entry classes of a signature matrix
const (
	plSigMember   = iota // valid signature of msg by the next member of the vector not used yet
	plSigSame            // the same member again (the very same signature)
	plSigOtherVec        // valid signature of msg by a member of another vector only
	plSigOutsider        // valid signature of msg by a key in no roster
	plSigOtherMsg        // a member's valid signature of another message
	plSigTwin            // (r, n−s) twin of a member's signature used before
	plSigGarbage         // 64 bytes of garbage
	plSigShort           // 10 bytes of garbage
	plSigClasses
)

var plSigFault = []string{"", "byz.sig_dup", "byz.sig_foreign", "byz.sig_foreign", "byz.sig_other_msg", "byz.sig_malleated", "arg.malformed", "arg.malformed"}

type plOp struct {
	Kind    int
	Cont    int // 0: container with meta-on-chain, 1: the other one
	Vec     int // 0 continue the highest pending vector, 1 next vector, 2 leave a gap, 3 vector 0, 4 vector 255
	NKeys   int // batch size class
	KeyBase int // 0 fresh keys, 1 start again from the container's first key (repeats)
	BadKey  int // 0 none, 1 a 32-byte key last, 2 a 34-byte key in the middle, 3 an empty key first
	Repeat  int // 0 none, 1 the batch's first key twice in a row, 2 its first key once more at the end, 3 the last key three times in a row
	Reps    int // commit: 0 one REP per vector, 1 nil, 2 empty, 3 one fewer, 4 one more
	RepV    [plMaxVec + 1]int
	Sig     int
	Shape   int // matrix: 0 as drawn, 1 honest, 2 last vector missing, 3 one vector too many
	Delta   [plMaxVec]int
	Cls     [plMaxVec][plMaxEntries]int
	Msg     int
	Meta    int // submitObjectPut: 0 well-formed, else the malformation
	GasCut  int
	Flush   int
	Dt      int
}

func plGenOp(t *rapid.T) plOp {
	op := plOp{}
	op.Kind = Weighted(t, "kind", []int{26, 22, 36, 16})
	op.Cont = Weighted(t, "cont", []int{72, 28})
	// only the fields the kind looks at are drawn (a matrix is some thirty
	// draws; leaving them out of roster operations keeps shrinking quick)
	switch op.Kind {
	case plAdd:
		op.Vec = Weighted(t, "vec", []int{40, 40, 7, 8, 5})
		op.NKeys = Weighted(t, "nkeys", []int{20, 22, 20, 14, 6, 10, 8})
		op.KeyBase = Weighted(t, "keybase", []int{85, 15})
		op.BadKey = Weighted(t, "badkey", []int{88, 4, 4, 4})
		op.Repeat = Weighted(t, "repeat", []int{82, 7, 6, 5})
		op.Sig = Weighted(t, "sig", []int{70, 4, 5, 5, 5, 4, 3, 4})
	case plCommit:
		op.Reps = Weighted(t, "reps", []int{68, 8, 8, 8, 8})
		for i := range op.RepV {
			op.RepV[i] = Weighted(t, "rep", []int{30, 30, 20, 16, 4}) // REP 1,2,3,4 and (rarely) 0
		}
		op.Sig = Weighted(t, "sig", []int{70, 4, 5, 5, 5, 4, 3, 4})
	default:
		op.Shape = Weighted(t, "shape", []int{58, 28, 7, 7})
		for i := range op.Delta {
			op.Delta[i] = Weighted(t, "delta", []int{55, 20, 15, 10}) // 0, +1, −1, +2
			for j := range op.Cls[i] {
				op.Cls[i][j] = Weighted(t, "cls", []int{52, 11, 7, 7, 7, 7, 5, 4})
			}
		}
		op.Msg = rapid.IntRange(0, 2).Draw(t, "msg")
		if op.Kind == plSubmit {
			op.Meta = Weighted(t, "meta", []int{68, 4, 4, 4, 4, 4, 4, 4, 4})
		}
	}
	if op.Kind <= plCommit && Chance(t, "gascut?", 5) {
		op.GasCut = rapid.IntRange(5, 95).Draw(t, "gascut")
	}
	op.Flush = Weighted(t, "flush", []int{45, 50, 5})
	op.Dt = rapid.IntRange(1, 3).Draw(t, "dt")
	return op
}

// ---- keys: a process-wide pool of deterministic keys (labels only) ----------

var (
	plKeyMu   sync.Mutex
	plKeyPool = map[int]*keys.PrivateKey{}
	plPubPool = map[int][]byte{}
	plPubIdx  = map[string]int{}
)

func plKey(i int) *keys.PrivateKey {
	plKeyMu.Lock()
	defer plKeyMu.Unlock()
	k := plKeyPool[i]
	if k == nil {
		k = DetKey(fmt.Sprintf("pl/node/%d", i))
		plKeyPool[i] = k
		plPubPool[i] = k.PublicKey().Bytes()
		plPubIdx[string(plPubPool[i])] = i
	}
	return k
}

// plIndexOf is the pool index of a public key (-1: not a pool key).
func plIndexOf(pub []byte) int {
	plKeyMu.Lock()
	defer plKeyMu.Unlock()
	if i, ok := plPubIdx[string(pub)]; ok {
		return i
	}
	return -1
}

func plPub(i int) []byte {
	plKey(i)
	plKeyMu.Lock()
	defer plKeyMu.Unlock()
	return plPubPool[i]
}

// ---- reference model --------------------------------------------------------

type plRoster struct {
	pending   map[int][][]byte
	committed map[int][][]byte
	reps      []int64
	nextKey   int // next fresh pool index
}

func (ro *plRoster) clone() *plRoster {
	c := &plRoster{pending: map[int][][]byte{}, committed: map[int][][]byte{}, reps: append([]int64(nil), ro.reps...), nextKey: ro.nextKey}
	for v, l := range ro.pending {
		c.pending[v] = append([][]byte(nil), l...)
	}
	for v, l := range ro.committed {
		c.committed[v] = append([][]byte(nil), l...)
	}
	return c
}

func plHighest(m map[int][][]byte) int {
	hi := -1
	for v, l := range m {
		if len(l) > 0 && v > hi {
			hi = v
		}
	}
	return hi
}

func plMember(l [][]byte, pub []byte) bool {
	for _, k := range l {
		if bytes.Equal(k, pub) {
			return true
		}
	}
	return false
}

type plModel struct{ ro [2]*plRoster }

func (m *plModel) clone() *plModel {
	return &plModel{ro: [2]*plRoster{m.ro[0].clone(), m.ro[1].clone()}}
}

// plEntry is one signature of a matrix together with its ground truth.
type plEntry struct {
	cls    int
	sig    []byte
	signer int  // pool index of the key that produced it; -1: nobody
	msgOK  bool // it is a valid signature of the message being verified
}

type plTx struct {
	op      plOp
	kind    int
	tx      *transaction.Transaction
	signers []Signer
	desc    string
	fault   string
	gasCut  bool

	cont    int // roster the call works on (-1: none of the two)
	vec     int
	keys    [][]byte
	reps    []int64
	repsNil bool
	msg     []byte
	matrix  [][]plEntry
	metaBad string // submitObjectPut: what is wrong with the meta information
	oid     []byte
}

type plEngine struct {
	r        *Run
	w        *World
	cnr      util.Uint160
	cnrID    int32
	cids     [2][]byte
	m, sh    *plModel
	stranger *keys.PrivateKey
	big      bool
	nSubmit  int
	lastOK   map[int]*plAccepted // per container: the last accepted submission
}

func TestPlacement(t *testing.T) { Sim(t, plBody) }

func init() { RegisterEngine("placement", []string{"C14"}, plBody) }

// plBody is the engine body (one simulated run).
func plBody(r *Run) {
	e := &plEngine{r: r, lastOK: map[int]*plAccepted{}}
	e.run()
}

func (e *plEngine) run() {
	t := e.r.T
	ns := []int{1, 4, 3, 7}
	if !Thorough() && Chance(t, "rareN", 12) {
		// sizes with 3k+2 members and the larger even one, now and then
		ns = []int{2, 5, 6}
	}
	if Thorough() {
		ns = []int{1, 4, 3, 7, 2, 5, 6}
	}
	n := ns[Pick(t, "n", len(ns))]
	e.big = Chance(t, "bigRosters", 14)
	ops := OpsSlice(t, rapid.Custom(plGenOp), 60)

	w := e.r.Own(NewFSWorld(FSOpts{N: n, Label: "pl", With: []string{"netmap", "balance", "neofsid", "container"},
		NetmapCfg: []any{"ContainerFee", int64(0), "ContainerAliasFee", int64(0)}}))
	e.w = w
	e.cnr, e.cnrID = w.C["container"].Hash, w.C["container"].ID
	e.stranger = DetKey("pl/stranger")
	e.m = &plModel{}
	for i := range e.m.ro {
		e.m.ro[i] = &plRoster{pending: map[int][][]byte{}, committed: map[int][][]byte{}}
	}
	e.r.Sweep = e.readAPI
	e.r.Tracef("world n=%d alphabet=%d-of-%d bigRosters=%v", n, n*2/3+1, n, e.big)
	// set-up (not part of the judged history): two containers, the first one
	// with meta-on-chain
	owner := DetKey("pl/owner")
	var txs []*transaction.Transaction
	for i := 0; i < 2; i++ {
		v := ctBytes(fmt.Sprintf("pl/blob/%d", i), 60)
		v[1] = 0
		copy(v[6:], ctOwnerID(owner))
		id := sha256.Sum256(v)
		e.cids[i] = id[:]
		txs = append(txs, w.CallTx([]Signer{w.Alphabet}, -1, e.cnr, "put", v, ctBytes("pl/sig", 64), owner.PublicKey().Bytes(), ctBytes("pl/token", 20), i == 0))
	}
	for _, aer := range w.AddBlock(txs, 1) {
		if aer.VMState != vmstate.Halt {
			harnessf("placement set-up: %s", aer.FaultException)
		}
	}
	e.r.AddBlock(len(txs), 1)
	e.sh = e.m.clone()

	var pending []*plTx
	flush := func(extraEmpty int, dt uint64) {
		e.block(pending, dt)
		pending = nil
		for i := 0; i < extraEmpty; i++ {
			e.block(nil, 1)
		}
		e.sh = e.m.clone()
	}
	for _, op := range ops {
		pending = append(pending, e.build(op))
		if op.Flush > 0 || len(pending) >= 5 {
			extra := 0
			if op.Flush == 2 {
				extra = 1
			}
			flush(extra, uint64(op.Dt))
		}
	}
	if len(pending) > 0 {
		flush(0, 1)
	}
}

// readAPI is the engine's complete read-API view of its world (r.Sweep).
func (e *plEngine) readAPI() []string {
	w := e.w
	s := &ctSweep{w: w}
	owner := ctOwnerID(DetKey("pl/owner"))
	for c, cid := range e.cids {
		if cid == nil {
			continue // asked before the set-up block
		}
		for _, g := range []string{"get", "owner", "alias", "eACL"} {
			s.add(e.cnr, "container", g, false, cid)
		}
		s.add(e.cnr, "container", "replicasNumbers", false, cid)
		vs := map[int]bool{}
		for v := 0; v <= plMaxVec+3; v++ {
			vs[v] = true
		}
		for _, v := range append(plSortedVecs(e.m.ro[c].committed), plSortedVecs(e.m.ro[c].pending)...) {
			vs[v] = true
		}
		var vecs []int
		for v := range vs {
			vecs = append(vecs, v)
		}
		sort.Ints(vecs)
		for _, v := range vecs {
			s.add(e.cnr, "container", "nodes", false, cid, int64(v))
		}
		// the pending roster is not reachable through the API; it decides what
		// the next commit fixes, so it is part of what an upgrade must preserve
		for _, kv := range w.Scan(e.cnrID, append([]byte{'u'}, cid...)) {
			s.out = append(s.out, fmt.Sprintf("container.pending[%x]=%x", kv.K, kv.V))
		}
	}
	s.add(e.cnr, "container", "count", false)
	s.add(e.cnr, "container", "list", true, []byte{})
	s.add(e.cnr, "container", "containersOf", true, []byte{})
	s.add(e.cnr, "container", "list", true, owner)
	s.add(e.cnr, "container", "containersOf", true, owner)
	s.add(w.C["balance"].Hash, "balance", "totalSupply", false)
	s.add(w.C["netmap"].Hash, "netmap", "config", false, []byte("ContainerFee"))
	s.add(w.C["netmap"].Hash, "netmap", "config", false, []byte("ContainerAliasFee"))
	s.add(w.C["netmap"].Hash, "netmap", "epoch", false)
	s.versions()
	return s.out
}

var plCurveN = elliptic.P256().Params().N

// plTwin returns (r, n−s).
func plTwin(sig []byte) []byte {
	s := new(big.Int).SetBytes(sig[32:])
	s.Sub(plCurveN, s)
	out := append([]byte(nil), sig[:32]...)
	return append(out, s.FillBytes(make([]byte, 32))...)
}

func (e *plEngine) batchSize(class int) int {
	switch class {
	case 0:
		return 1
	case 1:
		return 2
	case 2:
		return 3
	case 3:
		if e.big {
			return 64
		}
		return 5
	case 4:
		return 0
	case 5:
		if e.big {
			return 128
		}
		return 4
	default:
		if e.big {
			return 130
		}
		return 7
	}
}

// buildMatrix resolves the abstract matrix against roster ro (the shadow's).
func (e *plEngine) buildMatrix(op plOp, ro *plRoster, msg []byte) ([][]plEntry, string) {
	nv := len(ro.reps)
	if op.Shape == 2 && nv > 0 {
		nv--
	}
	if op.Shape == 3 || nv == 0 {
		nv++
	}
	if nv > plMaxVec {
		nv = plMaxVec
	}
	otherMsg := append([]byte("another message: "), msg...)
	fault := ""
	if op.Shape == 2 || op.Shape == 3 {
		fault = "arg.boundary"
	}
	var out [][]plEntry
	poolIdx := plIndexOf // roster keys are pool keys (or garbage of wrong length)
	for i := 0; i < nv; i++ {
		rep := 1
		if i < len(ro.reps) {
			rep = int(ro.reps[i])
		}
		cnt := rep + []int{0, 1, -1, 2}[op.Delta[i]]
		if op.Shape == 1 {
			cnt = rep
		}
		if cnt < 0 {
			cnt = 0
		}
		if cnt > plMaxEntries {
			cnt = plMaxEntries
		}
		// distinct members of vector i, in roster order
		var members []int
		seen := map[int]bool{}
		for _, pub := range ro.committed[i] {
			if idx := poolIdx(pub); idx >= 0 && !seen[idx] {
				seen[idx] = true
				members = append(members, idx)
			}
		}
		var foreign []int // members of other vectors only
		for _, v := range plSortedVecs(ro.committed) {
			if v == i {
				continue
			}
			for _, pub := range ro.committed[v] {
				if idx := poolIdx(pub); idx >= 0 && !seen[idx] {
					foreign = append(foreign, idx)
				}
			}
		}
		next, outsider := 0, 0
		var used []plEntry // valid member entries so far
		var row []plEntry
		for j := 0; j < cnt; j++ {
			cls := op.Cls[i][j]
			if op.Shape == 1 {
				cls = plSigMember
			}
			mk := func(idx int, m []byte) plEntry {
				return plEntry{cls: cls, sig: plKey(idx).Sign(m), signer: idx, msgOK: bytes.Equal(m, msg)}
			}
			outs := func() plEntry {
				outsider++
				en := mk(plOutsiders+i*plMaxEntries+outsider, msg)
				en.cls = plSigOutsider
				return en
			}
			var en plEntry
			switch cls {
			case plSigMember:
				if next < len(members) {
					en = mk(members[next], msg)
					next++
					used = append(used, en)
				} else {
					en = outs()
				}
			case plSigSame:
				if len(used) > 0 {
					en = used[len(used)-1]
					en.cls = cls
				} else if len(members) > 0 {
					en = mk(members[0], msg)
					if next == 0 {
						next = 1
					}
					used = append(used, en)
				} else {
					en = outs()
				}
			case plSigOtherVec:
				if len(foreign) > 0 {
					en = mk(foreign[j%len(foreign)], msg)
				} else {
					en = outs()
				}
			case plSigOutsider:
				en = outs()
			case plSigOtherMsg:
				if len(members) > 0 {
					en = mk(members[j%len(members)], otherMsg)
				} else {
					en = mk(plOutsiders+99, otherMsg)
				}
			case plSigTwin:
				if len(used) > 0 {
					en = used[len(used)-1]
				} else if len(members) > 0 {
					en = mk(members[0], msg)
					if next == 0 {
						next = 1
					}
					used = append(used, en)
				} else {
					en = outs()
				}
				en.cls = cls
				en.sig = plTwin(en.sig)
			case plSigGarbage:
				en = plEntry{cls: cls, sig: ctBytes(fmt.Sprintf("pl/garbage/%d/%d", i, j), 64), signer: -1}
			default:
				en = plEntry{cls: cls, sig: ctBytes(fmt.Sprintf("pl/short/%d/%d", i, j), 10), signer: -1}
			}
			// self-check of the ground truth (one verification per entry)
			if en.signer >= 0 {
				h := sha256.Sum256(msg)
				if ok := plKey(en.signer).PublicKey().Verify(en.sig, h[:]); ok != en.msgOK {
					harnessf("matrix entry class %d: ground truth %v, verification %v", cls, en.msgOK, ok)
				}
			}
			if f := plSigFault[cls]; f != "" && fault == "" {
				fault = f
			}
			row = append(row, en)
		}
		out = append(out, row)
	}
	return out, fault
}

func plSortedVecs(m map[int][][]byte) []int {
	var l []int
	for v := range m {
		l = append(l, v)
	}
	sort.Ints(l)
	return l
}

func plMatrixArg(mx [][]plEntry) []any {
	out := make([]any, len(mx))
	for i, row := range mx {
		r := make([]any, len(row))
		for j, en := range row {
			r[j] = en.sig
		}
		out[i] = r
	}
	return out
}

func plMatrixStr(mx [][]plEntry) string {
	names := []string{"member", "same-again", "other-vector", "outsider", "other-msg", "twin", "garbage", "short"}
	s := "["
	for i, row := range mx {
		if i > 0 {
			s += " | "
		}
		for j, en := range row {
			if j > 0 {
				s += ","
			}
			s += names[en.cls]
			if en.signer >= 0 {
				s += fmt.Sprintf("#%d", en.signer)
			}
		}
	}
	return s + "]"
}

func (e *plEngine) build(op plOp) *plTx {
	w := e.w
	if op.Kind == plVerify && len(e.sh.ro[op.Cont].reps) == 0 && len(e.sh.ro[1-op.Cont].reps) > 0 {
		// nothing to verify against here: look at the other container instead
		op.Cont = 1 - op.Cont
	}
	if op.Kind >= plVerify && len(e.sh.ro[op.Cont].reps) == 0 && (op.Kind == plVerify || op.Meta == 0) {
		// There is still nothing to verify against: the operation becomes the
		// roster step that is missing (an add, then a commit), with sizes and REP
		// numbers taken from its matrix fields. A history of nothing but
		// verifications thus builds its own roster first.
		p := plOp{Cont: op.Cont, Flush: op.Flush, Dt: op.Dt}
		if plHighest(e.sh.ro[op.Cont].pending) < 0 || op.Shape == 3 {
			p.Kind, p.NKeys, p.Vec = plAdd, op.Cls[0][0]%4, op.Shape%2
		} else {
			p.Kind = plCommit
			for i := range op.Delta {
				p.RepV[i] = op.Delta[i]
			}
		}
		op = p
	}
	bt := &plTx{op: op, kind: op.Kind, cont: op.Cont}
	ro := e.sh.ro[op.Cont]
	cid := e.cids[op.Cont]
	var script []byte
	fault := ""
	switch op.Kind {
	case plAdd:
		bt.signers, fault = AlphaSignerClass(w, op.Sig, e.stranger)
		hi := plHighest(ro.pending)
		switch op.Vec {
		case 0:
			bt.vec = hi
			if hi < 0 {
				bt.vec = 0
			}
		case 1:
			bt.vec = hi + 1
		case 2:
			bt.vec = hi + 2
			fault = orStr(fault, "arg.boundary")
		case 3:
			bt.vec = 0
		default:
			bt.vec = 255
			fault = orStr(fault, "arg.boundary")
		}
		if bt.vec > plMaxVec+2 && bt.vec != 255 {
			bt.vec = 0
		}
		cnt := e.batchSize(op.NKeys)
		total := 0
		for _, l := range ro.pending {
			total += len(l)
		}
		if total+cnt > 330 {
			cnt = 1
		}
		start := ro.nextKey
		if op.KeyBase == 1 {
			start = 0
		}
		for i := 0; i < cnt; i++ {
			bt.keys = append(bt.keys, plPub(start+i))
		}
		if start+cnt > ro.nextKey {
			ro.nextKey = start + cnt
			e.m.ro[op.Cont].nextKey = ro.nextKey // pool bookkeeping only, no state
		}
		// a key listed more than once in one batch is listed as often in the
		// roster (what counts once is its signature, not its place in the list)
		if len(bt.keys) > 0 {
			switch op.Repeat {
			case 1:
				bt.keys = append([][]byte{bt.keys[0]}, bt.keys...)
			case 2:
				bt.keys = append(bt.keys, bt.keys[0])
			case 3:
				l := bt.keys[len(bt.keys)-1]
				bt.keys = append(bt.keys, l, l)
			}
			if op.Repeat != 0 {
				e.r.Count("probe.batch_repeats_a_key")
			}
		}
		if op.BadKey != 0 {
			fault = orStr(fault, "arg.malformed")
			switch op.BadKey {
			case 1:
				bt.keys = append(bt.keys, plPub(0)[:32])
			case 2:
				bad := append(append([]byte(nil), plPub(1)...), 7)
				mid := len(bt.keys) / 2
				bt.keys = append(bt.keys[:mid:mid], append([][]byte{bad}, bt.keys[mid:]...)...)
			default:
				bt.keys = append([][]byte{{}}, bt.keys...)
			}
		}
		arg := make([]any, len(bt.keys))
		for i, k := range bt.keys {
			arg[i] = k
		}
		bt.desc = fmt.Sprintf("addNextEpochNodes(cnr%d, vector %d, %d keys from #%d, bad key class %d)", op.Cont, bt.vec, len(bt.keys), start, op.BadKey)
		script = CallScript(e.cnr, "addNextEpochNodes", cid, int64(bt.vec), arg)
	case plCommit:
		bt.signers, fault = AlphaSignerClass(w, op.Sig, e.stranger)
		nv := plHighest(ro.pending) + 1
		switch op.Reps {
		case 1:
			bt.repsNil = true
		case 2:
			nv = 0
		case 3:
			nv--
		case 4:
			nv++
		}
		if nv < 0 {
			nv = 0
		}
		if nv > plMaxVec+1 {
			nv = plMaxVec + 1
		}
		var arg any
		if !bt.repsNil {
			l := make([]any, 0, nv)
			for i := 0; i < nv; i++ {
				rep := int64([]int{1, 2, 3, 4, 0}[op.RepV[i]])
				bt.reps = append(bt.reps, rep)
				l = append(l, rep)
			}
			arg = l
		}
		bt.desc = fmt.Sprintf("commitContainerListUpdate(cnr%d, replicas %v nil=%v)", op.Cont, bt.reps, bt.repsNil)
		script = CallScript(e.cnr, "commitContainerListUpdate", cid, arg)
	case plVerify:
		bt.msg = ctBytes(fmt.Sprintf("pl/msg/%d", op.Msg), 40+op.Msg*100)
		bt.matrix, fault = e.buildMatrix(op, ro, bt.msg)
		bt.desc = fmt.Sprintf("verifyPlacementSignatures(cnr%d, msg%d, %s)", op.Cont, op.Msg, plMatrixStr(bt.matrix))
		script = CallScript(e.cnr, "verifyPlacementSignatures", cid, bt.msg, plMatrixArg(bt.matrix))
	case plSubmit:
		e.nSubmit++
		bt.oid = ctBytes(fmt.Sprintf("pl/oid/%d", e.nSubmit), 32)
		mcid, oid := cid, bt.oid
		network := int64(w.Magic)
		vub := int64(w.Height()) + 1000
		deleted := []any{ctBytes("pl/deleted", 32)}
		drop := ""
		if op.Cont == 1 {
			bt.metaBad = "the container has no meta-on-chain"
		}
		switch op.Meta {
		case 1:
			drop = []string{"cid", "oid", "network", "size", "deleted", "locked", "validuntil"}[(op.Msg+op.Dt+op.Delta[0])%7]
			bt.metaBad = "no " + drop
		case 2:
			network++
			bt.metaBad = "wrong network magic"
		case 3:
			oid = oid[:31]
			bt.metaBad = "31-byte object id"
		case 4:
			vub = 1
			bt.metaBad = "validuntil long past"
		case 5:
			mcid = ctBytes("pl/no-such-container", 32)
			bt.metaBad, bt.cont = "no such container", -1
		case 6:
			bt.metaBad = "not a map"
		case 7:
			deleted = []any{ctBytes("pl/deleted", 5)}
			bt.metaBad = "5-byte id among the deleted objects"
		case 8:
			mcid = mcid[:31]
			bt.metaBad, bt.cont = "31-byte container id", -1
		}
		if bt.metaBad != "" {
			fault = "arg.malformed"
		}
		var elems []stackitem.MapElement
		for _, kv := range []struct {
			k string
			v any
		}{{"network", network}, {"cid", mcid}, {"oid", oid}, {"size", int64(123)}, {"deleted", deleted},
			{"locked", []any{ctBytes("pl/locked", 32)}}, {"validuntil", vub}} {
			if kv.k != drop {
				elems = append(elems, stackitem.MapElement{Key: stackitem.Make(kv.k), Value: stackitem.Make(kv.v)})
			}
		}
		raw, err := stackitem.Serialize(stackitem.NewMapWithValue(elems))
		must(err)
		if op.Meta == 6 {
			raw, err = stackitem.Serialize(stackitem.Make([]any{int64(1)}))
			must(err)
		}
		bt.msg = raw
		if la := e.lastOK[op.Cont]; la != nil && op.Meta == 0 && (op.Msg+op.Dt)%3 == 0 {
			// order of two parties: the very bytes of a submission accepted
			// earlier are submitted again, with whatever signatures are drawn now
			// (often defective) and against the roster as it is now
			bt.msg, bt.oid = la.msg, la.oid
			e.r.Inject("replay.resubmit")
			e.r.Fired("replay.resubmit")
			e.r.Count("probe.accepted_meta_submitted_again")
		}
		var mf string
		bt.matrix, mf = e.buildMatrix(op, ro, bt.msg)
		fault = orStr(fault, mf)
		bt.desc = fmt.Sprintf("submitObjectPut(cnr%d, meta: %s, %s)", op.Cont, orStr(bt.metaBad, "well-formed"), plMatrixStr(bt.matrix))
		script = CallScript(e.cnr, "submitObjectPut", bt.msg, plMatrixArg(bt.matrix))
	}
	sysFee := int64(-1)
	if op.GasCut > 0 && op.Kind <= plCommit {
		p := w.WhatIf(script, bt.signers, 1)
		if p.State == vmstate.Halt && p.GAS > 0 {
			sysFee = p.GAS * int64(op.GasCut) / 100
			bt.gasCut = true
			e.r.Inject("gas.cut")
		}
	}
	bt.tx = w.Tx(script, bt.signers, sysFee)
	bt.fault = fault
	if fault != "" {
		e.r.Inject(fault)
	}
	if op.Kind <= plCommit && !bt.gasCut && fault == "" {
		if exp, apply := e.predict(e.sh, bt); exp != mustRefuse {
			apply(e.sh)
		}
	}
	return bt
}

// predict: roster operations.
func (e *plEngine) predict(st *plModel, bt *plTx) (expect, func(m *plModel)) {
	alpha0 := Witness(bt.signers, e.w.Alphabet.Hash.BytesBE(), 0)
	switch bt.kind {
	case plAdd:
		if !alpha0 {
			return mustRefuse, nil
		}
		// DON'T CARE: vector gaps, vector numbers ≥ 255, keys of wrong length and
		// empty batches — the statement does not say whether they are accepted;
		// if they are, exactly what was submitted must show up, in order.
		return dontCare, func(m *plModel) {
			ro := m.ro[bt.cont]
			before := len(ro.pending[bt.vec])
			ro.pending[bt.vec] = append(ro.pending[bt.vec], bt.keys...)
			after := len(ro.pending[bt.vec])
			if m == e.m {
				for _, b := range []int{127, 255, 256} {
					if before <= b && after > b {
						e.r.Count(fmt.Sprintf("probe.vector_counter_crossed_%d", b))
						if before > 0 {
							e.r.Count(fmt.Sprintf("probe.vector_counter_crossed_%d_by_continuation", b))
						}
					}
				}
				if before > 0 {
					e.r.Count("probe.second_batch_for_a_vector")
				}
			}
		}
	case plCommit:
		if !alpha0 {
			return mustRefuse, nil
		}
		// DON'T CARE: more or fewer REP numbers than vectors.
		return dontCare, func(m *plModel) {
			ro := m.ro[bt.cont]
			if m == e.m {
				switch {
				case len(ro.pending) == 0 && len(ro.committed) > 0:
					e.r.Count("probe.commit_clears_roster")
				case len(ro.pending) == 0:
					e.r.Count("probe.commit_of_nothing")
				case len(ro.committed) > 0:
					e.r.Count("probe.commit_replaces_roster")
				}
			}
			ro.committed = ro.pending
			ro.pending = map[int][][]byte{}
			ro.reps = append([]int64(nil), bt.reps...)
		}
	}
	return dontCare, func(*plModel) {}
}

// judge computes, from the ground truth of the entries and roster ro, whether
// accepting the matrix is sound, whether it is the honest matrix, and whether
// an unsound acceptance would be explained by counting one member repeatedly.
func (e *plEngine) judge(ro *plRoster, mx [][]plEntry) (sound, honest, dupOnly bool) {
	sound, dupOnly = true, true
	honest = len(mx) == len(ro.reps) && len(ro.reps) > 0
	for i, rep := range ro.reps {
		distinct := map[int]bool{}
		mult := 0
		if i < len(mx) {
			for _, en := range mx[i] {
				if en.signer >= 0 && en.msgOK && plMember(ro.committed[i], plPub(en.signer)) {
					distinct[en.signer] = true
					mult++
				}
			}
		}
		if i >= len(mx) || int64(len(distinct)) < rep {
			sound = false
		}
		if i >= len(mx) || int64(mult) < rep {
			dupOnly = false
		}
		// the honest matrix: exactly REP_i ≥ 1 signatures, all of distinct members
		if i >= len(mx) || rep < 1 || int64(len(mx[i])) != rep || int64(len(distinct)) != rep {
			honest = false
		} else {
			for _, en := range mx[i] {
				if en.cls != plSigMember {
					honest = false
				}
			}
		}
	}
	for _, l := range ro.committed {
		for _, k := range l {
			if len(k) != 33 {
				honest = false // a roster with malformed keys (only if they were accepted)
			}
		}
	}
	return sound, honest, dupOnly && !sound
}

func (e *plEngine) block(pending []*plTx, dt uint64) {
	r, w, m := e.r, e.w, e.m
	txs := make([]*transaction.Transaction, len(pending))
	for i, bt := range pending {
		txs[i] = bt.tx
	}
	aers := w.AddBlock(txs, dt)
	r.AddBlock(len(txs), dt)
	if len(pending) > 1 {
		r.Inject("sched.pack")
		r.Fired("sched.pack")
	}
	for i, bt := range pending {
		aer := aers[i]
		halted := aer.VMState == vmstate.Halt
		outcome := "refused"
		if halted {
			outcome = "ok"
		}
		if bt.gasCut && !halted && GasFault(aer.FaultException) {
			r.Fired("gas.cut")
			outcome = "gasfault"
		}
		if bt.fault != "" {
			r.Fired(bt.fault)
		}
		fk := bt.fault
		if bt.gasCut {
			fk = orStr(fk, "gas.cut")
		}
		accepted := halted
		sound, honest, dupOnly := true, false, false
		if bt.kind >= plVerify {
			if bt.kind == plVerify && halted {
				if len(aer.Stack) != 1 {
					r.Violation("C14/verify-result", "", "%s: %d results", bt.desc, len(aer.Stack))
				}
				b, err := aer.Stack[0].TryBool()
				if err != nil {
					r.Violation("C14/verify-result", "", "%s: result is %s", bt.desc, aer.Stack[0].Type())
				}
				accepted = b
			}
			if bt.cont >= 0 {
				sound, honest, dupOnly = e.judge(m.ro[bt.cont], bt.matrix)
			}
			if accepted {
				outcome = "accepted"
			} else if halted {
				outcome = "rejected"
			}
		}
		r.Tok(plKindName[bt.kind], fk, outcome)
		r.Count("outcome." + plKindName[bt.kind] + "." + outcome)
		r.Tracef("h=%d tx%d %s signers=%s fault=%s → %s %s %s", w.Height(), i, bt.desc, signerNames(bt.signers), fk, aer.VMState, outcome, clipStr(aer.FaultException, 90))
		switch bt.kind {
		case plAdd, plCommit:
			exp, apply := e.predict(m, bt)
			if halted && exp == mustRefuse {
				r.Violation("C03/container-call-accepted-without-alphabet-witness", "", "%s by %s succeeded", bt.desc, signerNames(bt.signers))
				_, apply = e.predict(m, &plTx{kind: bt.kind, cont: bt.cont, vec: bt.vec, keys: bt.keys, reps: bt.reps, signers: []Signer{w.Alphabet}})
			}
			if halted {
				apply(m)
				r.Changed()
			} else if bt.fault == "" && !bt.gasCut {
				// no statement obliges these calls to succeed: counted only
				r.Count("unexpected_refusal." + plKindName[bt.kind])
			}
		case plVerify, plSubmit:
			for _, row := range bt.matrix {
				for _, en := range row {
					r.Cell("C14.entry", fmt.Sprintf("%d/%s", en.cls, outcome))
				}
			}
			if bt.cont >= 0 {
				for i, rep := range m.ro[bt.cont].reps {
					if i < len(bt.matrix) {
						r.Cell("C14.rep", fmt.Sprintf("rep%d/sigs%d/sound=%v/%s", rep, len(bt.matrix[i]), sound, outcome))
					}
				}
			}
			if accepted && !sound {
				if dupOnly {
					// the shape of the defect fixed by 4592671 (one member counted repeatedly)
					r.Count("probe.unsound_accept_explained_by_repeats")
				}
				r.Violation("C14/unsound-accept", "", "%s accepted; committed REP numbers %v, roster sizes %v; some vector has fewer distinct members with a valid signature of the message than its REP", bt.desc, m.ro[bt.cont].reps, e.sizes(m.ro[bt.cont]))
			}
			if bt.kind == plSubmit && accepted && bt.metaBad != "" {
				r.Violation("C14/submit-accepted-malformed-meta", "", "%s HALTed although: %s", bt.desc, bt.metaBad)
			}
			if honest && bt.metaBad == "" && !accepted {
				// sanity: the honest matrix (and well-formed meta) is accepted
				r.Violation("C14/honest-matrix-rejected", "", "%s not accepted (%s %s); REP numbers %v, roster sizes %v", bt.desc, aer.VMState, clipStr(aer.FaultException, 80), m.ro[bt.cont].reps, e.sizes(m.ro[bt.cont]))
			}
			if bt.kind == plSubmit && accepted {
				n := 0
				for _, ev := range aer.Events {
					if ev.ScriptHash != e.cnr || ev.Name != "ObjectPut" {
						continue
					}
					n++
					items := ItemArr(ev.Item)
					if len(items) != 3 || !bytes.Equal(ItemBytes(items[0]), e.cids[bt.op.Cont]) || !bytes.Equal(ItemBytes(items[1]), bt.oid) {
						r.Violation("C14/objectput-notification", "", "%s: notification names another container/object", bt.desc)
					}
				}
				if n != 1 {
					r.Violation("C14/objectput-notification", "", "%s: %d ObjectPut notifications", bt.desc, n)
				}
				r.Changed()
				if bt.metaBad == "" && bt.cont >= 0 {
					// what was accepted once may be submitted again (by anybody)
					e.lastOK[bt.op.Cont] = &plAccepted{msg: bt.msg, oid: bt.oid}
				}
			}
			if honest {
				r.Count("probe.honest_matrix")
			}
			if bt.cont >= 0 && len(m.ro[bt.cont].reps) == 0 {
				r.Count("probe.matrix_against_no_rep_numbers")
			}
			if !sound {
				r.Count("probe.unsound_matrix." + outcome)
			}
		}
	}
	e.checkRosters()
	r.Checkpoint()
}

func (e *plEngine) sizes(ro *plRoster) []int {
	var out []int
	for v := 0; v <= plHighest(ro.committed); v++ {
		out = append(out, len(ro.committed[v]))
	}
	return out
}

// checkRosters: state and read-API layer after every block.
func (e *plEngine) checkRosters() {
	r, w, m := e.r, e.w, e.m
	var calls []ctCall
	type slot struct{ cont, vec int }
	var slots []slot
	for c := range m.ro {
		calls = append(calls, ctCall{e.cnr, "replicasNumbers", []any{e.cids[c]}})
		slots = append(slots, slot{c, -1})
		hi := plHighest(m.ro[c].committed)
		if p := plHighest(m.ro[c].pending); p > hi {
			hi = p
		}
		vset := map[int]bool{}
		for v := 0; v <= hi+1 && v <= plMaxVec+3; v++ {
			vset[v] = true
		}
		for _, v := range append(plSortedVecs(m.ro[c].committed), plSortedVecs(m.ro[c].pending)...) {
			vset[v] = true
		}
		var vecs []int
		for v := range vset {
			vecs = append(vecs, v)
		}
		sort.Ints(vecs)
		for _, v := range vecs {
			calls = append(calls, ctCall{e.cnr, "nodes", []any{e.cids[c], int64(v)}})
			slots = append(slots, slot{c, v})
		}
	}
	res, fault := ctReadMany(w, calls)
	if res == nil {
		r.Violation("C14/roster-mismatch", "", "nodes/replicasNumbers FAULT: %s", fault)
		return
	}
	for i, s := range slots {
		arr := ItemArr(res[i])
		ro := m.ro[s.cont]
		if s.vec < 0 {
			var got []int64
			for _, it := range arr {
				got = append(got, ItemInt(it).Int64())
			}
			if fmt.Sprint(got) != fmt.Sprint(ro.reps) {
				r.Violation("C14/replicas-mismatch", "", "replicasNumbers(cnr%d) = %v, last commit fixed %v", s.cont, got, ro.reps)
			}
			continue
		}
		want := ro.committed[s.vec]
		ok := len(arr) == len(want)
		for j := 0; ok && j < len(arr); j++ {
			ok = bytes.Equal(ItemBytes(arr[j]), want[j])
		}
		if !ok {
			r.Violation("C14/roster-mismatch", "", "nodes(cnr%d, %d): %d keys, the last commit fixed %d%s", s.cont, s.vec, len(arr), len(want), plFirstDiff(arr, want))
		}
	}
	// the pending roster ('u' keys of doc.go): exactly what was added since the
	// last commit, in submission order
	// (the documented shape must occur at all where the model expects pending
	// keys; otherwise the layout in use is another one and this raw rule does
	// not apply — the committed roster is judged through the read API above)
	rawTotal, wantTotal := 0, 0
	for c := range m.ro {
		rawTotal += len(w.Scan(e.cnrID, append([]byte{'u'}, e.cids[c]...)))
		for _, l := range m.ro[c].pending {
			wantTotal += len(l)
		}
	}
	if rawTotal == 0 && wantTotal > 0 {
		r.Count("raw_layout_unrecognised.pending-roster")
		return
	}
	for c := range m.ro {
		got := map[int][][]byte{}
		for _, kv := range w.Scan(e.cnrID, append([]byte{'u'}, e.cids[c]...)) {
			if len(kv.K) != 36 {
				r.Violation("C14/pending-mismatch", "", "pending roster key of %d bytes", len(kv.K))
			}
			v := int(kv.K[33])
			got[v] = append(got[v], kv.V)
		}
		vs := map[int]bool{}
		for v := range got {
			vs[v] = true
		}
		for v, l := range m.ro[c].pending {
			if len(l) > 0 {
				vs[v] = true
			}
		}
		var sorted []int
		for v := range vs {
			sorted = append(sorted, v)
		}
		sort.Ints(sorted)
		for _, v := range sorted {
			g, want := got[v], m.ro[c].pending[v]
			ok := len(g) == len(want)
			for j := 0; ok && j < len(g); j++ {
				ok = bytes.Equal(g[j], want[j])
			}
			if !ok {
				r.Violation("C14/pending-mismatch", "", "pending roster of cnr%d vector %d holds %d keys, %d were added since the last commit (or the order differs)", c, v, len(g), len(want))
			}
		}
	}
}

func plFirstDiff(arr []stackitem.Item, want [][]byte) string {
	for j := 0; j < len(arr) && j < len(want); j++ {
		if !bytes.Equal(ItemBytes(arr[j]), want[j]) {
			return fmt.Sprintf("; first difference at position %d: %.6x… instead of %.6x…", j, ItemBytes(arr[j]), want[j])
		}
	}
	return ""
}
