package siml

// Container engine: decides C04 (registry = live set; deletion complete and
// final) and C05 (creation fee exact and atomic). One workload, one reference
// model; the workload bias and the rules that are reported are selected by
// VERIF_PROP. See DESIGN.md §5.
//
// Reference model (written from the statements of C04/C05 and from doc.go of
// the Container contract, which documents the per-container storage keys):
//
//	live   id → {blob, owner, credentials of the last successful put, eACL of
//	             the last successful setEACL, names given so far (the last one
//	             is "the alias"), meta flag}
//	dead   id → tombstone (+ the names the container had)
//	fees   ContainerFee, ContainerAliasFee as configured in Netmap right now
//	money  NEOFS balance of every owner and of every Alphabet node's account
//
// Deliberately silent zones ("don't care"), each commented where it is coded:
//   - `delete` of an id that is not live: a HALT is accepted as a silent no-op
//     whoever signs it (and so is a FAULT); only "no effect" is demanded.
//   - the order of refusals of `put` (funds are looked at before the witness):
//     only the outcome class and the zero diff are compared.
//   - no statement obliges put/putNamed/delete/setEACL to *succeed*; refusals of
//     calls the model has nothing against (name taken or owned by somebody
//     else in NNS, NNS refusing the clean-up, nested witness scopes, …) are
//     followed and counted (`unexpected_refusal.*`), then all effects are
//     checked strictly.
//   - iteration order of list/containersOf: compared as sets.
//   - re-put of a live container without the meta flag: the statement does not
//     say whether the flag is cleared; the model follows storage for that bit.
//   - zero-amount Transfer/TransferX notifications (fee 0): not compared.
//   - NNS record of a name that was given before a ≥10-year clock jump and is
//     released (container deleted, or put again under another name) after it:
//     the name has expired, the contract's tolerant clean-up cannot reach the
//     record, and its reappearance after somebody re-registers the name is
//     NNS's business (C12), not judged here.

import (
	"bytes"
	"crypto/sha256"
	"fmt"
	"math/big"
	"sort"
	"strings"
	"testing"

	"github.com/nspcc-dev/neo-go/pkg/core/state"
	"github.com/nspcc-dev/neo-go/pkg/core/transaction"
	"github.com/nspcc-dev/neo-go/pkg/crypto/hash"
	"github.com/nspcc-dev/neo-go/pkg/crypto/keys"
	"github.com/nspcc-dev/neo-go/pkg/util"
	"github.com/nspcc-dev/neo-go/pkg/vm/stackitem"
	"github.com/nspcc-dev/neo-go/pkg/vm/vmstate"
	"pgregory.net/rapid"
)

// ---- abstract operations (drawn up-front so that rapid can delete steps) ----

const (
	ctPut = iota
	ctPutNamed
	ctPutMeta
	ctDelete
	ctSetEACL
	ctNNS
	ctSetFee
	ctJump
	ctFund // never drawn: emitted in front of a put whose Fund class asks for it
)

var ctKindName = []string{"put", "putNamed", "putMeta", "delete", "setEACL", "nns", "setConfig", "jump", "fund"}

const (
	ctNBlobs     = 8
	ctTenYearsMs = uint64(10*365*24*3600+24*3600) * 1000
	ctPlenty     = int64(100_000_000_000)
	ctTXT        = int64(16)
)

var (
	ctFeeVals  = []int64{0, 1, 7, 1_000_000_000}
	ctNames    = []string{"alpha", "bravo", "charlie", "delta"}
	ctZones    = []string{"", "ctzone"} // "" = the contract's default zone ("container")
	ctBlobOffs = []int{0, 1, 4, 20, 0, 33, 2, 100}
)

type ctOp struct {
	Kind   int
	Blob   int // 0..7 blobs of the pool; 8, 9: malformed blobs (put) / foreign ids
	Name   int
	Zone   int
	Meta   int // putMeta: the flag
	Cred   int // credentials variant; 2 = no session token (NeoFSID.addKey path)
	Sig    int // signer class, see ctSigners
	Fund   int // put*: 0 leave the balance, 1 = need, 2 = need−1, 3 = need+1, 4 plenty, 5 nothing
	EACL   int // setEACL blob variant
	IDArg  int // delete: 0 the blob's id, 1 an id nobody ever registered, 2 a 31-byte id
	Nns    int
	FeeKey int
	FeeVal int
	GasCut int
	Flush  int
	Dt     int
}

func ctGenOp(t *rapid.T) ctOp {
	op := ctOp{}
	//            put pNm pMe del eACL nns fee jump
	kw := []int{20, 18, 10, 15, 12, 10, 4, 4}
	fw := []int{80, 2, 4, 2, 10, 2}
	if Prop() == "C05" {
		kw = []int{30, 26, 5, 8, 2, 5, 22, 0}
		fw = []int{22, 22, 22, 22, 6, 6}
	}
	op.Kind = Weighted(t, "kind", kw)
	// only the fields the kind looks at are drawn (shorter choice sequences
	// shrink faster)
	blob := func() { op.Blob = Weighted(t, "blob", []int{14, 14, 12, 12, 10, 10, 8, 8, 3, 3}) }
	cred := func() { op.Cred = Weighted(t, "cred", []int{60, 25, 15}) }
	sig := func() { op.Sig = Weighted(t, "sig", []int{68, 4, 4, 4, 4, 4, 3, 4, 5}) }
	name := func() {
		op.Name = rapid.IntRange(0, len(ctNames)-1).Draw(t, "name")
		op.Zone = Weighted(t, "zone", []int{65, 35})
	}
	switch op.Kind {
	case ctPut, ctPutNamed, ctPutMeta:
		blob()
		cred()
		sig()
		op.Fund = Weighted(t, "fund", fw)
		if op.Kind == ctPutNamed {
			name()
		}
		if op.Kind == ctPutMeta {
			op.Meta = Weighted(t, "meta", []int{40, 60})
		}
	case ctDelete:
		blob()
		cred()
		sig()
		op.IDArg = Weighted(t, "idarg", []int{84, 10, 6})
	case ctSetEACL:
		blob()
		cred()
		sig()
		op.EACL = Weighted(t, "eacl", []int{45, 28, 5, 5, 5, 12})
	case ctNNS:
		name()
		op.Nns = Weighted(t, "nns", []int{30, 25, 20, 25})
	case ctSetFee:
		sig()
		op.FeeKey = Weighted(t, "feekey", []int{60, 40})
		op.FeeVal = rapid.IntRange(0, len(ctFeeVals)-1).Draw(t, "feeval")
	}
	if Chance(t, "gascut?", 7) {
		op.GasCut = rapid.IntRange(5, 95).Draw(t, "gascut")
	}
	op.Flush = Weighted(t, "flush", []int{45, 50, 5})
	op.Dt = rapid.IntRange(1, 3).Draw(t, "dt")
	return op
}

// ---- reference model --------------------------------------------------------

type ctAlias struct {
	domain string
	era    int // number of ≥10-year clock jumps before the name was given
	rel    int // … before it was released (container deleted or put under another name); -1: still borne
}

// expired: the name was given before a jump that preceded its release.
func (a ctAlias) expired() bool { return a.rel >= 0 && a.era < a.rel }

type ctTable struct{ value, sig, pub, token []byte }

type ctCont struct {
	blob            int
	owner           int
	sig, pub, token []byte
	eacl            *ctTable
	aliases         []ctAlias // in the order given; the last one is the alias
	meta            bool
	metaDC          bool // don't care: flag after a re-put without it (follows storage)
}

func (c *ctCont) alias() string {
	if len(c.aliases) == 0 {
		return ""
	}
	return c.aliases[len(c.aliases)-1].domain
}

type ctDead struct {
	aliases []ctAlias
}

type ctModel struct {
	live      map[string]*ctCont
	dead      map[string]*ctDead
	fee, afee int64
	bal       map[string]int64 // 20-byte account → NEOFS
}

func (m *ctModel) clone() *ctModel {
	c := &ctModel{live: map[string]*ctCont{}, dead: map[string]*ctDead{}, fee: m.fee, afee: m.afee, bal: map[string]int64{}}
	for k, v := range m.live {
		cp := *v
		cp.aliases = append([]ctAlias(nil), v.aliases...)
		c.live[k] = &cp
	}
	for k, v := range m.dead {
		c.dead[k] = v
	}
	for k, v := range m.bal {
		c.bal[k] = v
	}
	return c
}

type ctEvent struct {
	name string
	a, b string
	amt  int64
	det  string
}

func (e ctEvent) key() string {
	return fmt.Sprintf("%s|%x|%x|%d|%x", e.name, e.a, e.b, e.amt, e.det)
}

// ctPred is what the model says about one transaction in one state.
type ctPred struct {
	exp    expect
	reason string           // why it must be refused
	rule   string           // the rule broken if it is accepted nevertheless
	apply  func(m *ctModel) // effects of success (nil: cannot be followed)
	cevs   []ctEvent        // Container notifications of success
	bevs   []ctEvent        // Balance notifications of success
	state  bool             // success changes state
	honest bool             // nothing known to the model stands in the way
}

// ---- the run ---------------------------------------------------------------

type ctOwner struct {
	name string
	key  *keys.PrivateKey
	id   []byte // 25-byte owner ID
	acc  string // 20-byte account
}

type ctBlob struct {
	value []byte
	id    []byte
	owner int
}

type ctTx struct {
	op      ctOp
	kind    int
	tx      *transaction.Transaction
	signers []Signer
	desc    string
	fault   string
	gasCut  bool

	blob                   int // -1: not one of the pool
	cid                    []byte
	value, sig, pub, token []byte
	malformed              bool
	named                  bool
	domain                 string
	meta                   bool
	eaclCID                bool // setEACL: the table names a container id at all
	feeKey                 string
	feeVal                 int64
	fundAcc                string
	fundAmt                int64 // >0 mint, <0 burn
}

type ctEngine struct {
	r                 *Run
	w                 *World
	n                 int
	cnr, bal, nm, nns util.Uint160
	cnrID, balID      int32
	owners            []ctOwner
	nodes             []string // Alphabet nodes' accounts
	blobs             []ctBlob
	m, sh             *ctModel
	stranger, nnsUser *keys.PrivateKey
	namedPut          map[string]string
	namedEra          int
	era               int
	allowJump         bool
	shortMs           uint64 // time passed in steps shorter than a name's lifetime
	nForeign          int
	prevC, prevB      []KV
	known             map[string]int // id → blob index
	preReg            map[string]bool
	recCache          map[string][]string
}

func TestContainer(t *testing.T) { Sim(t, ctBody) }

func init() { RegisterEngine("container", []string{"C04", "C05"}, ctBody) }

// ctBody is the engine body (one simulated run).
func ctBody(r *Run) {
	e := &ctEngine{r: r}
	e.run()
}

// ctDrawOps draws the abstract operation list up-front. rapid's slices average
// min+5 elements whatever the maximum is, so the list is the concatenation of
// four slices of 0..15: ≈ 20 operations on average, at most 60, and shrinkable
// down to nothing (a slice with a minimum of 1 would keep one idle operation
// in every minimised history whose steps sit in the other slices).
func ctDrawOps[T any](t *rapid.T, gen func(*rapid.T) T) []T {
	var ops []T
	for i := 0; i < 4; i++ {
		ops = append(ops, rapid.SliceOfN(rapid.Custom(gen), 0, 15).Draw(t, fmt.Sprintf("ops%d", i))...)
	}
	return ops
}

func ctBytes(label string, n int) []byte {
	out := make([]byte, 0, n+32)
	h := sha256.Sum256([]byte(label))
	for len(out) < n {
		out = append(out, h[:]...)
		h = sha256.Sum256(h[:])
	}
	return out[:n]
}

func ctOwnerID(k *keys.PrivateKey) []byte {
	b := append([]byte{0x35}, k.GetScriptHash().BytesBE()...)
	return append(b, hash.Checksum(b)...)
}

const ctB58 = "123456789ABCDEFGHJKLMNPQRSTUVWXYZabcdefghijkmnopqrstuvwxyz"

// ctBase58 is plain Base58 (what StdLib.base58Encode produces).
func ctBase58(b []byte) string {
	x := new(big.Int).SetBytes(b)
	base, mod := big.NewInt(58), new(big.Int)
	var out []byte
	for x.Sign() > 0 {
		x.DivMod(x, base, mod)
		out = append(out, ctB58[mod.Int64()])
	}
	for _, c := range b {
		if c != 0 {
			break
		}
		out = append(out, ctB58[0])
	}
	for i, j := 0, len(out)-1; i < j; i, j = i+1, j-1 {
		out[i], out[j] = out[j], out[i]
	}
	return string(out)
}

func ctDomain(name, zone int) string {
	z := ctZones[zone]
	if z == "" {
		z = "container"
	}
	return ctNames[name] + "." + z
}

// ctSigners: classes 0..7 of AlphaSignerClass plus 8 = Alphabet and committee
// together (what a name registered in advance by the committee needs when the
// two accounts differ).
func ctSigners(w *World, class int, stranger *keys.PrivateKey) ([]Signer, string) {
	if class == 8 {
		return []Signer{w.Alphabet, w.Committee}, ""
	}
	return AlphaSignerClass(w, class, stranger)
}

func (e *ctEngine) run() {
	t := e.r.T
	ns := []int{1, 3, 4, 7}
	if !Thorough() && Chance(t, "rareN", 12) {
		// sizes with 3k+2 members and the larger even one, now and then
		ns = []int{2, 5, 6}
	}
	if Prop() == "C05" {
		ns = []int{1, 4, 7}
	}
	if Thorough() {
		ns = []int{1, 3, 4, 7, 2, 5, 6}
	}
	e.n = ns[Pick(t, "n", len(ns))]
	fee0 := ctFeeVals[Weighted(t, "fee0", []int{20, 35, 30, 15})]
	afee0 := ctFeeVals[Weighted(t, "afee0", []int{25, 35, 25, 15})]
	poor := make([]bool, 3)
	for i := range poor {
		poor[i] = Chance(t, "poor", 12)
	}
	e.allowJump = Prop() != "C05" && Chance(t, "allowJump", 30)
	ownerIsNode, nodeOwner := Chance(t, "ownerIsNode", 25), Pick(t, "nodeOwner", 7)
	ops := OpsSlice(t, rapid.Custom(ctGenOp), 60)

	w := e.r.Own(NewFSWorld(FSOpts{N: e.n, Label: "ct", With: []string{"netmap", "balance", "neofsid", "container"},
		NetmapCfg: []any{"ContainerFee", fee0, "ContainerAliasFee", afee0}, TLDs: []string{ctZones[1]}}))
	e.w = w
	e.cnr, e.bal, e.nm, e.nns = w.C["container"].Hash, w.C["balance"].Hash, w.C["netmap"].Hash, w.C["nns"].Hash
	e.cnrID, e.balID = w.C["container"].ID, w.C["balance"].ID
	e.m = &ctModel{live: map[string]*ctCont{}, dead: map[string]*ctDead{}, fee: fee0, afee: afee0, bal: map[string]int64{}}
	e.known = map[string]int{}
	e.preReg = map[string]bool{}
	for i := 0; i < 3; i++ {
		k := DetKey(fmt.Sprintf("ct/owner/%d", i))
		if i == 2 && ownerIsNode {
			// the owner who is an Alphabet node itself: one of the per-node fee
			// payments goes from its account to its account
			k = w.Privs[nodeOwner%len(w.Privs)]
		}
		e.owners = append(e.owners, ctOwner{name: fmt.Sprintf("o%d", i), key: k, id: ctOwnerID(k), acc: string(k.GetScriptHash().BytesBE())})
	}
	for _, p := range w.Pubs {
		e.nodes = append(e.nodes, string(p.GetScriptHash().BytesBE()))
	}
	for i := 0; i < ctNBlobs; i++ {
		off := ctBlobOffs[i]
		v := ctBytes(fmt.Sprintf("ct/blob/%d", i), 2+off+4+25+7+3*i)
		v[1] = byte(off)
		copy(v[2+off+4:], e.owners[i%3].id)
		id := sha256.Sum256(v)
		e.blobs = append(e.blobs, ctBlob{value: v, id: id[:], owner: i % 3})
		e.known[string(id[:])] = i
	}
	e.stranger = DetKey("ct/stranger")
	e.nnsUser = DetKey("ct/nnsuser")
	e.r.Tracef("world n=%d alphabet=%d-of-%d committee=%d-of-%d fee=%d aliasFee=%d poor=%v jump=%v", e.n, e.n*2/3+1, e.n, e.n/2+1, e.n, fee0, afee0, poor, e.allowJump)

	e.r.Sweep = e.readAPI

	// set-up block (part of the history): ordinary Alphabet mints; with clock
	// jumps enabled the committee prolongs both zones so that names can expire
	// while their zone is alive
	var pending []*ctTx
	for i, o := range e.owners {
		if !poor[i] {
			pending = append(pending, e.fundTx(o.acc, ctPlenty))
		}
	}
	if len(pending) > 0 {
		e.block(pending, 1)
		pending = nil
	}
	if e.allowJump {
		var txs []*transaction.Transaction
		for _, z := range []string{"container", ctZones[1]} {
			txs = append(txs, w.CallTx([]Signer{w.Committee}, -1, e.nns, "renew", z, int64(5)))
		}
		for _, aer := range w.AddBlock(txs, 1) {
			if aer.VMState != vmstate.Halt {
				harnessf("zone renewal: %s", aer.FaultException)
			}
		}
		e.r.AddBlock(len(txs), 1)
	}
	e.prevC, e.prevB = w.Scan(e.cnrID, nil), w.Scan(e.balID, nil)
	e.sh = e.m.clone()

	flush := func(extraEmpty int, dt uint64) {
		e.block(pending, dt)
		pending = nil
		for i := 0; i < extraEmpty; i++ {
			e.block(nil, 1)
		}
		e.sh = e.m.clone()
	}
	for _, op := range ops {
		if op.Kind == ctJump {
			if !e.allowJump {
				continue
			}
			if e.era == 0 && op.Dt != 1 {
				// a shorter passage of time (two hours, a year; less than nine
				// years in all): every name given so far is well within its
				// lifetime and must go on being served
				step := uint64(2 * 3600 * 1000)
				if op.Dt == 3 {
					step = 365 * 24 * 3600 * 1000
				}
				if e.shortMs+step < 9*365*24*3600*1000 {
					e.shortMs += step
					e.r.Inject("clock.jump")
					e.r.Fired("clock.jump")
					e.r.Count("probe.clock_step_within_name_lifetime")
					e.r.Tok("step", "clock.jump", "ok")
					e.r.Tracef("clock step of %d h", step/3600000)
					flush(0, step)
					continue
				}
			}
			// the block closing now is the first one after the jump
			e.era++
			e.r.Inject("clock.jump")
			named := false
			for _, id := range e.sortedLive() {
				if len(e.m.live[id].aliases) > 0 {
					named = true
				}
			}
			if named {
				e.r.Fired("clock.jump")
			}
			e.r.Tok("jump", "clock.jump", "ok")
			e.r.Tracef("clock jump of ten years (era %d)", e.era)
			flush(0, ctTenYearsMs)
			continue
		}
		pending = append(pending, e.build(op)...)
		if op.Flush > 0 || len(pending) >= 6 {
			extra := 0
			if op.Flush == 2 {
				extra = 2
			}
			flush(extra, uint64(op.Dt))
		}
	}
	if len(pending) > 0 {
		flush(0, 1)
	}
	e.sweep(nil, true)
	e.r.Checkpoint()
}

func (e *ctEngine) sortedLive() []string {
	l := make([]string, 0, len(e.m.live))
	for id := range e.m.live {
		l = append(l, id)
	}
	sort.Strings(l)
	return l
}

func (e *ctEngine) sortedDead() []string {
	l := make([]string, 0, len(e.m.dead))
	for id := range e.m.dead {
		l = append(l, id)
	}
	sort.Strings(l)
	return l
}

func (e *ctEngine) idName(id string) string {
	if b, ok := e.known[id]; ok {
		return fmt.Sprintf("c%d", b)
	}
	return fmt.Sprintf("id:%.4x", id)
}

// preferLive resolves the blob index of a delete/setEACL: mostly (by the
// otherwise unused credentials class) towards a container that is live in the
// shadow model, else literally (missing, deleted, twice).
func (e *ctEngine) preferLive(op ctOp) int {
	if op.Cred != 2 && len(e.sh.live) > 0 {
		var l []int
		for _, c := range e.sh.live {
			l = append(l, c.blob)
		}
		sort.Ints(l)
		return l[op.Blob%len(l)]
	}
	return op.Blob
}

// preRegList: the names other parties registered so far, sorted.
func (e *ctEngine) preRegList() []string {
	l := make([]string, 0, len(e.preReg))
	for d := range e.preReg {
		l = append(l, d)
	}
	sort.Strings(l)
	return l
}

// fundTx is an honest Alphabet mint (amt > 0) or burn (amt < 0).
func (e *ctEngine) fundTx(acc string, amt int64) *ctTx {
	bt := &ctTx{kind: ctFund, blob: -1, fundAcc: acc, fundAmt: amt, signers: []Signer{e.w.Alphabet}}
	who := "?"
	for _, o := range e.owners {
		if o.acc == acc {
			who = o.name
		}
	}
	if amt >= 0 {
		bt.desc = fmt.Sprintf("balance.mint(%s, %d)", who, amt)
		bt.tx = e.w.CallTx(bt.signers, -1, e.bal, "mint", []byte(acc), amt, []byte("fund"))
	} else {
		bt.desc = fmt.Sprintf("balance.burn(%s, %d)", who, -amt)
		bt.tx = e.w.CallTx(bt.signers, -1, e.bal, "burn", []byte(acc), -amt, []byte("fund"))
	}
	if e.sh != nil {
		e.sh.bal[acc] += amt
	}
	return bt
}

// build resolves an abstract operation against the shadow model (the model as
// it will be if the transactions collected for the current block do what the
// model expects) and returns the transactions it stands for.
func (e *ctEngine) build(op ctOp) []*ctTx {
	w := e.w
	bt := &ctTx{op: op, kind: op.Kind, blob: -1}
	var out []*ctTx
	var script []byte
	signers, fault := ctSigners(w, op.Sig, e.stranger)
	bt.signers = signers
	switch op.Kind {
	case ctPut, ctPutNamed, ctPutMeta:
		switch {
		case op.Blob < ctNBlobs:
			b := e.blobs[op.Blob]
			bt.blob, bt.value, bt.cid = op.Blob, b.value, b.id
		case op.Blob == ctNBlobs:
			// the version length points behind the end of the blob: no owner in it
			bt.value, bt.malformed = []byte{0x0a, 40, 1, 2, 3, 4, 5, 6, 7, 8, 9, 10, 11, 12, 13, 14, 15, 16, 17, 18, 19, 20, 21, 22, 23, 24, 25, 26, 27, 28, 29, 30}, true
			fault = orStr(fault, "arg.malformed")
		default:
			bt.value, bt.malformed = []byte{0x0a}, true
			fault = orStr(fault, "arg.malformed")
		}
		if bt.cid == nil {
			id := sha256.Sum256(bt.value)
			bt.cid = id[:]
		}
		if e.sh.dead[string(bt.cid)] != nil {
			fault = orStr(fault, "replay.resubmit")
		}
		signer := DetKey(fmt.Sprintf("ct/signer/%d", op.Cred))
		bt.sig = ctBytes(fmt.Sprintf("ct/sig/%d/%d", op.Blob, op.Cred), 64)
		bt.pub = signer.PublicKey().Bytes()
		if op.Cred != 2 {
			bt.token = ctBytes(fmt.Sprintf("ct/token/%d", op.Cred), 42)
		} else {
			bt.token = []byte{}
		}
		bn := fmt.Sprintf("c%d", op.Blob)
		if bt.malformed {
			bn = fmt.Sprintf("malformed-blob-%d", op.Blob-ctNBlobs)
		}
		switch op.Kind {
		case ctPut:
			bt.desc = fmt.Sprintf("put(%s, cred%d)", bn, op.Cred)
			script = CallScript(e.cnr, "put", bt.value, bt.sig, bt.pub, bt.token)
		case ctPutMeta:
			bt.meta = op.Meta == 1
			bt.desc = fmt.Sprintf("put(%s, cred%d, meta=%v)", bn, op.Cred, bt.meta)
			script = CallScript(e.cnr, "put", bt.value, bt.sig, bt.pub, bt.token, bt.meta)
		default:
			name, zone := ctNames[op.Name], ctZones[op.Zone]
			bt.named, bt.domain = true, ctDomain(op.Name, op.Zone)
			if pre := e.preRegList(); len(pre) > 0 && op.Cred >= 1 {
				// a name somebody registered in advance (zone given explicitly)
				bt.domain = pre[(op.Name+4*op.Zone)%len(pre)]
				name, zone, _ = strings.Cut(bt.domain, ".")
				if op.Sig == 0 {
					// the honest signer set for a committee-owned name
					bt.signers, _ = ctSigners(w, 8, e.stranger)
				}
			}
			bt.desc = fmt.Sprintf("putNamed(%s, cred%d, %q, %q)", bn, op.Cred, name, zone)
			script = CallScript(e.cnr, "putNamed", bt.value, bt.sig, bt.pub, bt.token, name, zone)
		}
		if op.Fund != 0 && bt.blob >= 0 {
			acc := e.owners[e.blobs[bt.blob].owner].acc
			per := e.sh.fee
			if bt.named {
				per += e.sh.afee
			}
			target := per * int64(e.n)
			switch op.Fund {
			case 2:
				target--
			case 3:
				target++
			case 4:
				target += ctPlenty
			case 5:
				target = 0
			}
			if target < 0 {
				target = 0
			}
			if d := target - e.sh.bal[acc]; d != 0 {
				out = append(out, e.fundTx(acc, d))
			}
			if op.Fund == 2 || op.Fund == 5 {
				if target < per*int64(e.n) {
					fault = orStr(fault, "arg.boundary")
				}
			}
		}
	case ctDelete:
		switch {
		case op.IDArg == 1 || op.Blob >= ctNBlobs:
			bt.cid = ctBytes("ct/never-registered", 32)
			fault = orStr(fault, "arg.stale_id")
		case op.IDArg == 2:
			bt.cid = e.blobs[op.Blob].id[:31]
			fault = orStr(fault, "arg.malformed")
		default:
			bt.blob = e.preferLive(op)
			bt.cid = e.blobs[bt.blob].id
			if e.sh.live[string(bt.cid)] == nil {
				fault = orStr(fault, "arg.stale_id")
			}
		}
		bt.desc = fmt.Sprintf("delete(%s)", e.idName(string(bt.cid)))
		script = CallScript(e.cnr, "delete", bt.cid, ctBytes("ct/delsig", 64), []byte{})
	case ctSetEACL:
		if op.Blob < ctNBlobs {
			bt.blob = e.preferLive(op)
			bt.cid = e.blobs[bt.blob].id
		} else {
			bt.cid = ctBytes("ct/never-registered", 32)
		}
		tag := fmt.Sprintf("ct/eacl/%d/%d", op.Blob, op.EACL)
		switch op.EACL {
		case 0, 1, 5:
			off := []int{0, 20, 0, 0, 0, 7}[op.EACL]
			v := ctBytes(tag, 2+off+4+32+5+op.EACL)
			v[1] = byte(off)
			copy(v[2+off+4:], bt.cid)
			bt.value, bt.eaclCID = v, true
		case 2:
			bt.value, bt.malformed = []byte{}, true
		case 3:
			bt.value, bt.malformed = []byte{0}, true
		default:
			// version length says 20 but the table ends before the container id
			v := ctBytes(tag, 2+20+4+31)
			v[1] = 20
			bt.value, bt.malformed = v, true
		}
		if bt.malformed {
			fault = orStr(fault, "arg.malformed")
		} else if e.sh.live[string(bt.cid)] == nil {
			fault = orStr(fault, "arg.stale_id")
		}
		bt.sig = ctBytes(tag+"/sig", 64)
		bt.pub = DetKey("ct/eaclsigner").PublicKey().Bytes()
		bt.token = ctBytes(tag+"/tok", 10)
		bt.desc = fmt.Sprintf("setEACL(%s, variant %d)", e.idName(string(bt.cid)), op.EACL)
		script = CallScript(e.cnr, "setEACL", bt.value, bt.sig, bt.pub, bt.token)
	case ctSetFee:
		bt.feeKey = []string{"ContainerFee", "ContainerAliasFee"}[op.FeeKey]
		bt.feeVal = ctFeeVals[op.FeeVal]
		bt.desc = fmt.Sprintf("netmap.setConfig(%s, %d)", bt.feeKey, bt.feeVal)
		script = CallScript(e.nm, "setConfig", []byte("cfg"), []byte(bt.feeKey), bt.feeVal)
	case ctNNS:
		// other parties working on the same names; NNS itself is not judged here
		bt.domain = ctDomain(op.Name, op.Zone)
		if pre := e.preRegList(); len(pre) > 0 && op.Nns >= 2 {
			// records are added and deleted where a registration is known
			bt.domain = pre[(op.Name+4*op.Zone)%len(pre)]
		}
		user := Single("nnsuser", e.nnsUser)
		fault = ""
		switch op.Nns {
		case 0:
			bt.signers = []Signer{w.Committee}
			bt.desc = fmt.Sprintf("nns.register(%s) for the committee", bt.domain)
			script = CallScript(e.nns, "register", bt.domain, w.Committee.Hash, "ops@nspcc.io", int64(3600), int64(600), int64(10*365*24*3600), int64(3600))
		case 1:
			bt.signers = []Signer{user}
			bt.desc = fmt.Sprintf("nns.register(%s) for a user", bt.domain)
			script = CallScript(e.nns, "register", bt.domain, e.nnsUser.GetScriptHash(), "ops@nspcc.io", int64(3600), int64(600), int64(10*365*24*3600), int64(3600))
		case 2:
			e.nForeign++
			bt.signers = []Signer{w.Committee, user}
			bt.desc = fmt.Sprintf("nns.addRecord(%s, TXT, foreign-%d) by committee+user", bt.domain, e.nForeign)
			script = CallScript(e.nns, "addRecord", bt.domain, ctTXT, fmt.Sprintf("foreign-%d", e.nForeign))
		default:
			bt.signers = []Signer{w.Committee, user}
			bt.desc = fmt.Sprintf("nns.deleteRecords(%s, TXT) by committee+user", bt.domain)
			script = CallScript(e.nns, "deleteRecords", bt.domain, ctTXT)
		}
	}
	sysFee := int64(-1)
	if op.GasCut > 0 {
		p := w.WhatIf(script, bt.signers, 1)
		if p.State == vmstate.Halt && p.GAS > 0 {
			sysFee = p.GAS * int64(op.GasCut) / 100
			bt.gasCut = true
			e.r.Inject("gas.cut")
		}
	}
	bt.tx = w.Tx(script, bt.signers, sysFee)
	bt.fault = fault
	if fault != "" {
		e.r.Inject(fault)
	}
	// advance the shadow model by what the model expects of this transaction
	if p := e.predict(e.sh, bt); p.exp != mustRefuse && p.apply != nil && !bt.gasCut && (bt.fault == "" || bt.fault == "arg.stale_id") {
		p.apply(e.sh)
	}
	return append(out, bt)
}

// predict computes, from the property statements, what tx must do in state st.
func (e *ctEngine) predict(st *ctModel, bt *ctTx) ctPred {
	alpha := e.w.Alphabet.Hash.BytesBE()
	alpha0 := Witness(bt.signers, alpha, 0)
	alpha1 := Witness(bt.signers, alpha, 1)
	refuse := func(reason, rule string) ctPred { return ctPred{exp: mustRefuse, reason: reason, rule: rule} }
	const witnessRule = "C03/container-call-accepted-without-alphabet-witness"
	switch bt.kind {
	case ctPut, ctPutNamed, ctPutMeta:
		if bt.malformed {
			return refuse("no owner in the blob", "C04/malformed-accepted")
		}
		id := string(bt.cid)
		b := e.blobs[bt.blob]
		acc := e.owners[b.owner].acc
		per := st.fee
		if bt.named {
			per += st.afee
		}
		need := per * int64(e.n)
		// DON'T CARE: the order of refusals. Several reasons may hold at once;
		// the one belonging to the property being decided is named first.
		var reasons []ctPred
		if st.dead[id] != nil {
			reasons = append(reasons, refuse("id was deleted before", "C04/deleted-id-registered-again"))
		}
		if st.bal[acc] < need {
			reasons = append(reasons, refuse(fmt.Sprintf("owner has %d, needs %d", st.bal[acc], need), "C05/put-accepted-without-funds"))
		}
		if !alpha0 {
			reasons = append(reasons, refuse("no Alphabet witness", witnessRule))
		}
		p := ctPred{exp: dontCare, state: true}
		if len(reasons) > 0 {
			p = reasons[0]
			for _, q := range reasons {
				if strings.HasPrefix(q.rule, Prop()+"/") {
					p = q
					break
				}
			}
		}
		// nothing the model knows stands in the way of an unnamed put whose
		// witness also reaches the contracts it calls (Balance, NeoFSID)
		p.honest = len(reasons) == 0 && alpha1 && !bt.named
		p.cevs = []ctEvent{{name: "PutSuccess", a: id, b: string(bt.pub)}}
		det := string(append([]byte{0x10}, bt.cid...))
		for _, node := range e.nodes {
			p.bevs = append(p.bevs, ctEvent{name: "Transfer", a: acc, b: node, amt: per}, ctEvent{name: "TransferX", a: acc, b: node, amt: per, det: det})
		}
		era := e.era
		p.apply = func(m *ctModel) {
			c := m.live[id]
			if c == nil {
				c = &ctCont{blob: bt.blob, owner: b.owner, meta: bt.meta}
				m.live[id] = c
			} else if bt.meta {
				c.meta, c.metaDC = true, false
			} else if c.meta {
				// DON'T CARE: the statement does not say whether a re-put without
				// the flag clears it; the model follows storage for this bit.
				c.metaDC = true
			}
			c.sig, c.pub, c.token = bt.sig, bt.pub, bt.token
			if bt.named {
				// a live container put under another name gives up the previous one
				if n := len(c.aliases); n > 0 && c.aliases[n-1].domain != bt.domain {
					c.aliases[n-1].rel = era
				}
				c.aliases = append(c.aliases, ctAlias{domain: bt.domain, era: era, rel: -1})
			}
			m.bal[acc] -= need
			for _, node := range e.nodes {
				m.bal[node] += per
			}
		}
		return p
	case ctDelete:
		id := string(bt.cid)
		c := st.live[id]
		if c == nil {
			// DON'T CARE: delete of an id that is not live (never registered,
			// already deleted, malformed). The contract HALTs without doing
			// anything whoever signs; the statement only needs "no effect".
			return ctPred{exp: dontCare, apply: func(*ctModel) {}}
		}
		if !alpha0 {
			return refuse("no Alphabet witness", witnessRule)
		}
		era := e.era
		return ctPred{exp: dontCare, state: true, honest: len(c.aliases) == 0,
			cevs: []ctEvent{{name: "DeleteSuccess", a: id}},
			apply: func(m *ctModel) {
				c := m.live[id]
				d := &ctDead{aliases: append([]ctAlias(nil), c.aliases...)}
				for j := range d.aliases {
					if d.aliases[j].rel < 0 {
						d.aliases[j].rel = era
					}
				}
				delete(m.live, id)
				m.dead[id] = d
			}}
	case ctSetEACL:
		if bt.malformed {
			return refuse("table without version or container id", "C04/malformed-accepted")
		}
		id := string(bt.cid)
		if st.live[id] == nil {
			return refuse("container is not live", "C04/eacl-accepted-for-non-live")
		}
		if !alpha0 {
			return refuse("no Alphabet witness", witnessRule)
		}
		return ctPred{exp: dontCare, state: true, honest: true,
			cevs: []ctEvent{{name: "SetEACLSuccess", a: id, b: string(bt.pub)}},
			apply: func(m *ctModel) {
				m.live[id].eacl = &ctTable{value: bt.value, sig: bt.sig, pub: bt.pub, token: bt.token}
			}}
	case ctSetFee:
		if !alpha0 {
			return refuse("no Alphabet witness", "C03/netmap-setconfig-accepted-without-alphabet-witness")
		}
		return ctPred{exp: dontCare, honest: true, apply: func(m *ctModel) {
			if bt.feeKey == "ContainerFee" {
				m.fee = bt.feeVal
			} else {
				m.afee = bt.feeVal
			}
		}}
	case ctFund:
		amt, acc := bt.fundAmt, bt.fundAcc
		p := ctPred{exp: dontCare, honest: true, apply: func(m *ctModel) { m.bal[acc] += amt }}
		if amt > 0 {
			p.bevs = []ctEvent{{name: "Transfer", b: acc, amt: amt}, {name: "TransferX", b: acc, amt: amt, det: "\x01fund"}}
		} else {
			p.bevs = []ctEvent{{name: "Transfer", a: acc, amt: -amt}, {name: "TransferX", a: acc, amt: -amt, det: "\x02fund"}}
		}
		return p
	case ctNNS:
		return ctPred{exp: dontCare, apply: func(*ctModel) {}}
	}
	harnessf("unknown op kind %d", bt.kind)
	return ctPred{}
}

func (e *ctEngine) events(aer *state.AppExecResult) (cevs, bevs []ctEvent) {
	for _, ev := range aer.Events {
		items, ok := ev.Item.Value().([]stackitem.Item)
		if !ok {
			continue
		}
		switch ev.ScriptHash {
		case e.cnr:
			switch ev.Name {
			case "PutSuccess", "SetEACLSuccess":
				cevs = append(cevs, ctEvent{name: ev.Name, a: string(ItemBytes(items[0])), b: string(ItemBytes(items[1]))})
			case "DeleteSuccess":
				cevs = append(cevs, ctEvent{name: ev.Name, a: string(ItemBytes(items[0]))})
			}
		case e.bal:
			switch ev.Name {
			case "Transfer":
				bevs = append(bevs, ctEvent{name: ev.Name, a: string(ItemBytes(items[0])), b: string(ItemBytes(items[1])), amt: ItemInt(items[2]).Int64()})
			case "TransferX":
				bevs = append(bevs, ctEvent{name: ev.Name, a: string(ItemBytes(items[0])), b: string(ItemBytes(items[1])), amt: ItemInt(items[2]).Int64(), det: string(ItemBytes(items[3]))})
			}
		}
	}
	return
}

func ctSameEvents(exp, got []ctEvent, dropZero bool) bool {
	cnt := map[string]int{}
	for _, e := range exp {
		if dropZero && e.amt == 0 {
			continue
		}
		cnt[e.key()]++
	}
	for _, g := range got {
		if dropZero && g.amt == 0 {
			continue
		}
		cnt[g.key()]--
	}
	for _, v := range cnt {
		if v != 0 {
			return false
		}
	}
	return true
}

func ctEvStr(l []ctEvent) string {
	var sb strings.Builder
	sb.WriteString("[")
	for _, e := range l {
		fmt.Fprintf(&sb, "%s(%.4x,%.4x,%d,%.3x) ", e.name, e.a, e.b, e.amt, e.det)
	}
	return sb.String() + "]"
}

// block executes the pending transactions as one block and runs all oracles.
func (e *ctEngine) block(pending []*ctTx, dt uint64) {
	r, w, m := e.r, e.w, e.m
	txs := make([]*transaction.Transaction, len(pending))
	for i, bt := range pending {
		txs[i] = bt.tx
	}
	h0 := w.Height()
	aers := w.AddBlock(txs, dt)
	hooked := w.Height() != h0+1 // a block hook (C16 upgrades) put blocks of its own in front
	r.AddBlock(len(txs), dt)
	if len(pending) > 1 {
		r.Inject("sched.pack")
		r.Fired("sched.pack")
	}
	touched := map[string]bool{}
	// domain → id of the last successful putNamed not disturbed since (by the
	// name's other users, a deletion, or a ten-year jump: names given before it
	// have expired). Kept across blocks: what other containers do later must
	// not take the record away.
	if e.namedPut == nil || e.namedEra != e.era {
		e.namedPut, e.namedEra = map[string]string{}, e.era
	}
	namedPut := e.namedPut
	anyTook := false
	var deferred []func()
	for i, bt := range pending {
		aer := aers[i]
		pred := e.predict(m, bt)
		halted := aer.VMState == vmstate.Halt
		outcome := "refused"
		if halted {
			outcome = "ok"
			if bt.kind == ctDelete && !pred.state {
				outcome = "noop"
			}
		}
		if bt.gasCut && !halted && GasFault(aer.FaultException) {
			r.Fired("gas.cut")
			outcome = "gasfault"
		}
		if bt.fault != "" {
			r.Fired(bt.fault)
		}
		fk := bt.fault
		if bt.gasCut {
			fk = orStr(fk, "gas.cut")
		}
		r.Tok(ctKindName[bt.kind], fk, outcome)
		r.Count("outcome." + ctKindName[bt.kind] + "." + outcome)
		r.Tracef("h=%d tx%d %s signers=%s fault=%s → %s %s", w.Height(), i, bt.desc, signerNames(bt.signers), fk, aer.VMState, clipStr(aer.FaultException, 90))
		if bt.cid != nil {
			touched[string(bt.cid)] = true
			ids := "never"
			if m.live[string(bt.cid)] != nil {
				ids = "live"
			} else if m.dead[string(bt.cid)] != nil {
				ids = "deleted"
			}
			r.Cell("C04.op", ctKindName[bt.kind]+"/"+ids+"/"+outcome)
		}
		if bt.kind <= ctPutMeta && bt.blob >= 0 && bt.op.Fund != 0 {
			r.Cell("C05.boundary", fmt.Sprintf("n%d/named=%v/fund%d/%s", e.n, bt.named, bt.op.Fund, outcome))
		}
		var cevs, bevs []ctEvent
		if halted {
			// the ledger discards everything a FAULTed transaction did; its
			// notifications reach no subscriber
			cevs, bevs = e.events(aer)
		}
		if !halted {
			if pred.exp == mustRefuse {
				r.Count("refused_as_demanded." + ctKindName[bt.kind] + "." + strings.SplitN(pred.rule, "/", 2)[1])
			} else if !bt.gasCut {
				r.Count("refused_otherwise." + ctKindName[bt.kind])
			}
			if pred.honest && !bt.gasCut {
				// no statement obliges these calls to succeed: counted only
				r.Count("unexpected_refusal." + ctKindName[bt.kind])
			}
			continue
		}
		anyTook = true
		if pred.exp == mustRefuse {
			if pred.apply == nil {
				// cannot be followed: the model is out of step from here on
				r.Violation(pred.rule, "", "%s by %s succeeded although %s", bt.desc, signerNames(bt.signers), pred.reason)
				r.Checkpoint()
				return
			}
			// followed below: a rule of the other property does not end the run
			r.ViolationSynced(pred.rule, "", "%s by %s succeeded although %s", bt.desc, signerNames(bt.signers), pred.reason)
		}
		if !ctSameEvents(pred.cevs, cevs, false) {
			r.Violation("C04/notification-mismatch", "", "%s: expected %s got %s", bt.desc, ctEvStr(pred.cevs), ctEvStr(cevs))
		}
		// DON'T CARE: zero-amount Transfer/TransferX notifications (fee 0)
		if bt.kind != ctNNS && !ctSameEvents(pred.bevs, bevs, true) {
			// raised after the balances themselves have been compared, so that
			// wrong money is reported as such (C05/fee-mismatch)
			desc, want, got := bt.desc, ctEvStr(pred.bevs), ctEvStr(bevs)
			deferred = append(deferred, func() {
				r.Violation("C05/transfer-notification-mismatch", "", "%s: expected %s got %s", desc, want, got)
			})
		}
		pred.apply(m)
		if pred.state {
			r.Changed()
		}
		switch bt.kind {
		case ctPutNamed:
			namedPut[bt.domain] = string(bt.cid)
			if e.preReg[bt.domain] {
				r.Count("probe.put_named_on_name_registered_in_advance")
			}
			if len(m.live[string(bt.cid)].aliases) > 1 {
				r.Count("probe.live_container_named_again")
			}
		case ctDelete:
			if pred.state {
				d := m.dead[string(bt.cid)]
				for j, a := range d.aliases {
					if namedPut[a.domain] == string(bt.cid) {
						delete(namedPut, a.domain)
					}
					if j == len(d.aliases)-1 && a.expired() {
						r.Count("probe.delete_after_alias_expired")
					}
				}
			}
		case ctNNS:
			delete(namedPut, bt.domain)
			switch {
			case bt.op.Nns <= 1:
				// register reports a name that is taken by returning false
				if len(aer.Stack) == 1 {
					if ok, err := aer.Stack[0].TryBool(); err == nil && ok {
						e.preReg[bt.domain] = true
					}
				}
			case bt.op.Nns == 3:
				for _, id := range e.sortedLive() {
					if m.live[id].alias() == bt.domain {
						r.Count("probe.alias_records_deleted_behind_the_contracts_back")
					}
				}
			}
		}
	}
	// ---- state oracles after the block ----
	curC, curB := w.Scan(e.cnrID, nil), w.Scan(e.balID, nil)
	if len(pending) == 1 && !anyTook && !hooked {
		rule := "C04/refused-call-changed-state"
		if pending[0].kind <= ctPutMeta {
			rule = "C05/refused-put-changed-state"
		}
		if d := DiffKV(e.prevC, curC); d != "" {
			r.Violation(rule, "", "%s: Container storage changed: %s", pending[0].desc, d)
		}
		if d := DiffKV(e.prevB, curB); d != "" {
			r.Violation(rule, "", "%s: Balance storage changed: %s", pending[0].desc, d)
		}
	}
	e.prevC, e.prevB = curC, curB
	e.recCache = map[string][]string{}
	e.checkMoney(curB)
	for _, f := range deferred {
		f()
	}
	e.checkStorage(curC)
	e.sweep(touched, false)
	e.checkNNS(namedPut)
	r.Checkpoint()
}

// checkMoney: C05, state layer. Every NEOFS account equals the model; nobody
// else holds anything.
func (e *ctEngine) checkMoney(cur []KV) {
	r, w, m := e.r, e.w, e.m
	for _, key := range []string{"ContainerFee", "ContainerAliasFee"} {
		want := m.fee
		if key == "ContainerAliasFee" {
			want = m.afee
		}
		if got := w.ReadInt(e.nm, "config", []byte(key)).Int64(); got != want {
			r.Violation("C20/netmap-config-mismatch", "", "%s is %d, model %d", key, got, want)
		}
	}
	raw := map[string]int64{}
	for a, rec := range RawBalanceAccounts(cur) {
		raw[a] = rec.Balance.Int64()
	}
	var accs []string
	var calls []ctCall
	for _, o := range e.owners {
		accs = append(accs, o.acc)
	}
	accs = append(accs, e.nodes...)
	known := map[string]bool{}
	for _, a := range accs {
		known[a] = true
		calls = append(calls, ctCall{e.bal, "balanceOf", []any{[]byte(a)}})
	}
	res, fault := ctReadMany(w, calls)
	if res == nil {
		harnessf("balanceOf sweep: %s", fault)
	}
	for i, a := range accs {
		api := ItemInt(res[i]).Int64()
		if api != m.bal[a] || raw[a] != m.bal[a] {
			r.Violation("C05/fee-mismatch", "", "account %s: balanceOf %d, storage %d, model %d (n=%d fee=%d aliasFee=%d)", e.accName(a), api, raw[a], m.bal[a], e.n, m.fee, m.afee)
		}
	}
	var others []string
	for a := range raw {
		if !known[a] {
			others = append(others, a)
		}
	}
	sort.Strings(others)
	for _, a := range others {
		if raw[a] != 0 {
			r.Violation("C05/foreign-account-moved", "", "account %x holds %d", a, raw[a])
		}
	}
}

func (e *ctEngine) accName(a string) string {
	for _, o := range e.owners {
		if o.acc == a {
			return o.name
		}
	}
	for i, n := range e.nodes {
		if n == a {
			return fmt.Sprintf("alphabet-node-%d", i)
		}
	}
	return fmt.Sprintf("%x", a)
}

// checkStorage: C04, state layer. The per-container keys documented in doc.go
// (x, o, d, nnsHasAlias) and named by the property (eACL, m) exist exactly for
// live ids, tombstones exactly for deleted ones.
func (e *ctEngine) checkStorage(cur []KV) {
	r, m := e.r, e.m
	type rawC struct {
		x, d, m, eacl, hasAlias bool
		alias                   string
		o                       []string // owner ids indexing it
		oval                    [][]byte
	}
	raw := map[string]*rawC{}
	get := func(id []byte) *rawC {
		c := raw[string(id)]
		if c == nil {
			c = &rawC{}
			raw[string(id)] = c
		}
		return c
	}
	for _, kv := range cur {
		k := kv.K
		switch {
		case len(k) == 33 && k[0] == 'x':
			get(k[1:]).x = true
		case len(k) == 33 && k[0] == 'd':
			get(k[1:]).d = true
		case len(k) == 33 && k[0] == 'm':
			get(k[1:]).m = true
		case len(k) == 58 && k[0] == 'o':
			c := get(k[26:])
			c.o = append(c.o, string(k[1:26]))
			c.oval = append(c.oval, kv.V)
		case len(k) == 36 && string(k[:4]) == "eACL":
			get(k[4:]).eacl = true
		case len(k) == 43 && string(k[:11]) == "nnsHasAlias":
			c := get(k[11:])
			c.hasAlias, c.alias = true, string(kv.V)
		default:
			// contract references, roster and estimation stores: not this
			// property's state
		}
	}
	// Which of the documented key shapes occur at all. A shape that the model
	// expects somewhere but that occurs nowhere means the layout in use is not
	// the documented one (a renamed prefix, say): the absence rules of that
	// shape are then not applied (counted), the read API rules stay in force.
	var seen rawC
	for _, c := range raw {
		seen.x = seen.x || c.x
		seen.d = seen.d || c.d
		seen.m = seen.m || c.m
		seen.eacl = seen.eacl || c.eacl
		seen.hasAlias = seen.hasAlias || c.hasAlias
		if len(c.o) > 0 {
			seen.o = []string{"seen"}
		}
	}
	unrec := func(shape string) { r.Count("raw_layout_unrecognised." + shape) }
	ids := map[string]bool{}
	for id := range raw {
		ids[id] = true
	}
	for id := range m.live {
		ids[id] = true
	}
	for id := range m.dead {
		ids[id] = true
	}
	var sorted []string
	for id := range ids {
		sorted = append(sorted, id)
	}
	sort.Strings(sorted)
	for _, id := range sorted {
		c := raw[id]
		if c == nil {
			c = &rawC{}
		}
		name := e.idName(id)
		switch {
		case m.live[id] != nil:
			l := m.live[id]
			if c.d {
				r.Violation("C04/tombstone-mismatch", "", "%s is live but has a tombstone", name)
			}
			own := e.owners[l.owner].id
			xOK := c.x || !seen.x
			oOK := len(c.o) == 1 && c.o[0] == string(own) && bytes.Equal(c.oval[0], []byte(id)) || len(c.o) == 0 && len(seen.o) == 0
			if !xOK || !oOK {
				r.Violation("C04/index-mismatch", "", "%s is live: descriptor key %v, owner index entries %x (values %x), expected one for %x", name, c.x, c.o, c.oval, own)
			}
			if !c.x && !seen.x {
				unrec("descriptor")
			}
			if len(c.o) == 0 && len(seen.o) == 0 {
				unrec("owner-index")
			}
			switch {
			case !c.hasAlias && l.alias() != "" && !seen.hasAlias:
				unrec("alias")
			case c.hasAlias != (l.alias() != "") || c.alias != l.alias():
				r.Violation("C04/index-mismatch", "", "%s: stored alias %q (present %v), model %q", name, c.alias, c.hasAlias, l.alias())
			}
			switch {
			case !c.eacl && l.eacl != nil && !seen.eacl:
				unrec("eacl")
			case c.eacl != (l.eacl != nil):
				r.Violation("C04/index-mismatch", "", "%s: eACL key present %v, model %v", name, c.eacl, l.eacl != nil)
			}
			if l.metaDC {
				l.meta, l.metaDC = c.m, false
			}
			switch {
			case !c.m && l.meta && !seen.m:
				unrec("meta")
			case c.m != l.meta:
				r.Violation("C04/index-mismatch", "", "%s: meta flag %v, model %v", name, c.m, l.meta)
			}
		case m.dead[id] != nil:
			switch {
			case !c.d && !seen.d:
				unrec("tombstone")
			case !c.d:
				r.Violation("C04/tombstone-mismatch", "", "%s was deleted but has no tombstone", name)
			}
			if c.x || len(c.o) > 0 || c.eacl || c.hasAlias || c.m {
				r.Violation("C04/trace-left-after-delete", "", "%s was deleted; still stored: descriptor %v, owner index %d, eACL %v, alias %v (%q), meta flag %v", name, c.x, len(c.o), c.eacl, c.hasAlias, c.alias, c.m)
			}
		default:
			if c.d {
				r.Violation("C04/tombstone-mismatch", "", "%s was never deleted but has a tombstone", name)
			}
			if c.x || len(c.o) > 0 || c.eacl || c.hasAlias || c.m {
				r.Violation("C04/index-mismatch", "", "%s was never registered; stored: descriptor %v, owner index %d, eACL %v, alias %v, meta flag %v", name, c.x, len(c.o), c.eacl, c.hasAlias, c.m)
			}
		}
	}
}

// ctSweep collects deterministic "contract.method(args)=value" lines (the
// read-API view C16 compares across an upgrade).
type ctSweep struct {
	w   *World
	out []string
}

// add reads one getter; a FAULT is the value "FAULT"; with asSet the elements
// of a returned list (or drained iterator) are sorted.
func (s *ctSweep) add(h util.Uint160, contract, method string, asSet bool, args ...any) {
	it, err := s.w.Read(h, method, args...)
	var sb strings.Builder
	switch {
	case err != nil:
		sb.WriteString("FAULT")
	case asSet:
		if arr, ok := it.Value().([]stackitem.Item); ok {
			var l []string
			for _, x := range arr {
				var eb strings.Builder
				itemRepr(&eb, x, 0)
				l = append(l, eb.String())
			}
			sort.Strings(l)
			sb.WriteString("{" + strings.Join(l, ",") + "}")
		} else {
			itemRepr(&sb, it, 0)
		}
	default:
		itemRepr(&sb, it, 0)
	}
	s.out = append(s.out, fmt.Sprintf("%s.%s(%x)=%s", contract, method, args, sb.String()))
}

// versions adds version() of every deployed FS contract of the world.
func (s *ctSweep) versions() {
	for _, name := range []string{"balance", "container", "neofsid", "netmap", "nns"} {
		if d := s.w.C[name]; d != nil {
			s.add(d.Hash, name, "version", false)
		}
	}
}

// readAPI is the engine's complete read-API view of its world (r.Sweep).
func (e *ctEngine) readAPI() []string {
	s := &ctSweep{w: e.w}
	ids := [][]byte{ctBytes("ct/never-registered", 32)}
	for _, b := range e.blobs {
		ids = append(ids, b.id)
	}
	for _, id := range ids {
		for _, g := range []string{"get", "owner", "alias", "eACL"} {
			s.add(e.cnr, "container", g, false, id)
		}
	}
	s.add(e.cnr, "container", "count", false)
	s.add(e.cnr, "container", "list", true, []byte{})
	s.add(e.cnr, "container", "containersOf", true, []byte{})
	for _, o := range e.owners {
		s.add(e.cnr, "container", "list", true, o.id)
		s.add(e.cnr, "container", "containersOf", true, o.id)
	}
	for _, o := range e.owners {
		s.add(e.bal, "balance", "balanceOf", false, []byte(o.acc))
	}
	for _, n := range e.nodes {
		s.add(e.bal, "balance", "balanceOf", false, []byte(n))
	}
	s.add(e.bal, "balance", "totalSupply", false)
	s.add(e.nm, "netmap", "config", false, []byte("ContainerFee"))
	s.add(e.nm, "netmap", "config", false, []byte("ContainerAliasFee"))
	s.add(e.nm, "netmap", "epoch", false)
	for z := range ctZones {
		for n := range ctNames {
			s.add(e.nns, "nns", "getRecords", false, ctDomain(n, z), ctTXT)
		}
	}
	s.versions()
	return s.out
}

// ctCall is one read-only invocation.
type ctCall struct {
	h      util.Uint160
	method string
	args   []any
}

// ctReadMany runs several getters that are expected to HALT in ONE test VM and
// returns their results in order (iterators drained); nil and the fault text if
// the script FAULTs.
func ctReadMany(w *World, calls []ctCall) ([]stackitem.Item, string) {
	if len(calls) == 0 {
		return []stackitem.Item{}, ""
	}
	var script []byte
	for _, c := range calls {
		script = append(script, CallScript(c.h, c.method, c.args...)...)
	}
	p := w.WhatIf(script, nil, 0)
	if p.State != vmstate.Halt {
		return nil, p.Fault
	}
	if len(p.Stack) != len(calls) {
		harnessf("ctReadMany: %d results for %d calls", len(p.Stack), len(calls))
	}
	return p.Stack, ""
}

func ctItemBytes(it stackitem.Item) ([]byte, bool) {
	if _, ok := it.(stackitem.Null); ok {
		return nil, true
	}
	b, err := it.TryBytes()
	return b, err == nil
}

func ctStruct4(it stackitem.Item) ([4][]byte, bool) {
	var out [4][]byte
	arr, ok := it.Value().([]stackitem.Item)
	if !ok || len(arr) != 4 {
		return out, false
	}
	for i := range arr {
		b, ok := ctItemBytes(arr[i])
		if !ok {
			return out, false
		}
		out[i] = b
	}
	return out, true
}

func ctIDSet(it stackitem.Item) ([]string, bool) {
	if _, ok := it.(stackitem.Null); ok {
		return nil, true
	}
	arr, ok := it.Value().([]stackitem.Item)
	if !ok {
		return nil, false
	}
	var out []string
	for _, x := range arr {
		b, ok := ctItemBytes(x)
		if !ok {
			return nil, false
		}
		out = append(out, string(b))
	}
	// DON'T CARE: iteration order of list/containersOf (compared as sets; a
	// repeated id would still show as a length difference)
	sort.Strings(out)
	return out, true
}

// sweep: C04, read-API layer, after every block: every getter and lister for
// the live containers; "not found" from every getter for the ids that an
// operation of the block named and that are not live — and for the whole pool
// at the end of the run (getters are functions of the storage, and the raw
// scan judges the storage of every id after every block).
func (e *ctEngine) sweep(touched map[string]bool, all bool) {
	r, w, m := e.r, e.w, e.m
	live := e.sortedLive()
	var calls []ctCall
	for _, id := range live {
		for _, g := range []string{"get", "owner", "alias", "eACL"} {
			calls = append(calls, ctCall{e.cnr, g, []any{[]byte(id)}})
		}
	}
	base := len(calls)
	calls = append(calls, ctCall{e.cnr, "count", nil}, ctCall{e.cnr, "list", []any{[]byte{}}}, ctCall{e.cnr, "containersOf", []any{[]byte{}}})
	listOwners := append([]ctOwner(nil), e.owners...)
	sk := DetKey("ct/owner/none")
	listOwners = append(listOwners, ctOwner{name: "nobody", id: ctOwnerID(sk)})
	for _, o := range listOwners {
		calls = append(calls, ctCall{e.cnr, "list", []any{o.id}}, ctCall{e.cnr, "containersOf", []any{o.id}})
	}
	res, fault := ctReadMany(w, calls)
	if res == nil {
		// some getter that must answer FAULTed: find out which
		for _, c := range calls {
			if _, err := w.Read(c.h, c.method, c.args...); err != nil {
				r.Violation("C04/getter-mismatch", "", "%s(%x) FAULTs: %v", c.method, c.args, err)
			}
		}
		harnessf("getter sweep FAULTs only as a whole: %s", fault)
	}
	for i, id := range live {
		c := m.live[id]
		b := e.blobs[c.blob]
		name := e.idName(id)
		got, ok := ctStruct4(res[4*i])
		if !ok {
			r.Violation("C04/getter-mismatch", "", "get(%s) is not a structure of four byte strings", name)
		}
		if h := sha256.Sum256(got[0]); string(h[:]) != id {
			r.Violation("C04/id-not-hash-of-blob", "", "sha256(get(%s).value) = %x", name, h)
		}
		if !bytes.Equal(got[0], b.value) || !bytes.Equal(got[1], c.sig) || !bytes.Equal(got[2], c.pub) || !bytes.Equal(got[3], c.token) {
			r.Violation("C04/getter-mismatch", "", "get(%s) = {%.8x… %.4x… %.4x… %.4x…}, model {%.8x… %.4x… %.4x… %.4x…}", name, got[0], got[1], got[2], got[3], b.value, c.sig, c.pub, c.token)
		}
		if ob, ok := ctItemBytes(res[4*i+1]); !ok || !bytes.Equal(ob, e.owners[c.owner].id) {
			r.Violation("C04/getter-mismatch", "", "owner(%s) = %x, model %x", name, ob, e.owners[c.owner].id)
		}
		if ab, ok := ctItemBytes(res[4*i+2]); !ok || string(ab) != c.alias() {
			r.Violation("C04/getter-mismatch", "", "alias(%s) = %q, model %q", name, ab, c.alias())
		}
		tbl, ok := ctStruct4(res[4*i+3])
		want := ctTable{}
		if c.eacl != nil {
			want = *c.eacl
		}
		if !ok || !bytes.Equal(tbl[0], want.value) || !bytes.Equal(tbl[1], want.sig) || !bytes.Equal(tbl[2], want.pub) || !bytes.Equal(tbl[3], want.token) {
			r.Violation("C04/getter-mismatch", "", "eACL(%s) = {%.8x… %.4x… %.4x… %.4x…}, model {%.8x… %.4x… %.4x… %.4x…}", name, tbl[0], tbl[1], tbl[2], tbl[3], want.value, want.sig, want.pub, want.token)
		}
	}
	if cnt := ItemInt(res[base]).Int64(); cnt != int64(len(live)) {
		r.Violation("C04/getter-mismatch", "", "count = %d, live containers %d", cnt, len(live))
	}
	cmpSet := func(what string, it stackitem.Item, want []string) {
		got, ok := ctIDSet(it)
		if !ok || strings.Join(got, "|") != strings.Join(want, "|") {
			var gn, wn []string
			for _, id := range got {
				gn = append(gn, e.idName(id))
			}
			for _, id := range want {
				wn = append(wn, e.idName(id))
			}
			r.Violation("C04/getter-mismatch", "", "%s = %v, model %v", what, gn, wn)
		}
	}
	cmpSet("list(∅)", res[base+1], live)
	cmpSet("containersOf(∅)", res[base+2], live)
	for j, o := range listOwners {
		var want []string
		for _, id := range live {
			if j < len(e.owners) && m.live[id].owner == j {
				want = append(want, id)
			}
		}
		cmpSet("list("+o.name+")", res[base+3+2*j], want)
		cmpSet("containersOf("+o.name+")", res[base+4+2*j], want)
	}
	// ids that are not live: every getter refuses
	cs := map[string]bool{}
	if all {
		cs[string(ctBytes("ct/never-registered", 32))] = true
		for _, b := range e.blobs {
			cs[string(b.id)] = true
		}
	}
	for id := range touched {
		cs[id] = true
	}
	var cand []string
	for id := range cs {
		cand = append(cand, id)
	}
	sort.Strings(cand)
	for _, id := range cand {
		if m.live[id] != nil {
			continue
		}
		for _, g := range []string{"get", "owner", "alias", "eACL"} {
			it, err := w.Read(e.cnr, g, []byte(id))
			if err == nil {
				r.Violation("C04/getter-answers-for-non-live", "", "%s(%s) returns %v although the container is not live (deleted: %v)", g, e.idName(id), it.Type(), m.dead[id] != nil)
			} else if !strings.Contains(err.Error(), "container does not exist") {
				r.Count("probe.not_found_reported_with_another_message")
			}
		}
	}
}

// records returns the TXT records NNS serves for a domain (nothing if NNS
// refuses: unknown or expired name).
func (e *ctEngine) records(domain string) []string {
	if l, ok := e.recCache[domain]; ok {
		return l
	}
	var out []string
	if it, err := e.w.Read(e.nns, "getRecords", domain, ctTXT); err == nil {
		if arr, ok := it.Value().([]stackitem.Item); ok {
			for _, x := range arr {
				if b, ok := ctItemBytes(x); ok {
					out = append(out, string(b))
				}
			}
		}
	}
	e.recCache[domain] = out
	return out
}

// checkNNS: C04, the NNS side of aliases.
func (e *ctEngine) checkNNS(namedPut map[string]string) {
	r, m := e.r, e.m
	has := func(domain, id string) bool {
		want := ctBase58([]byte(id))
		for _, x := range e.records(domain) {
			if x == want {
				return true
			}
		}
		return false
	}
	var doms []string
	for d := range namedPut {
		doms = append(doms, d)
	}
	sort.Strings(doms)
	for _, d := range doms {
		// only the name the container currently bears: putting a live container
		// again under another name releases the previous one (judged below)
		if id := namedPut[d]; m.live[id] != nil && len(m.live[id].aliases) > 0 && m.live[id].aliases[len(m.live[id].aliases)-1].domain == d && !has(d, id) {
			r.Violation("C04/alias-record-missing", "", "putNamed(%s, %s) succeeded and nobody else touched the name since, but NNS has no TXT record of the container under it (records %q)", e.idName(id), d, e.records(d))
		}
	}
	// released names: of live containers (put again under another name) and of
	// deleted ones (every name they ever bore)
	judge := func(id string, aliases []ctAlias, current string, dead bool) {
		for j, a := range aliases {
			if a.rel < 0 || (!dead && a.domain == current) {
				continue // the name the container bears now (possibly once more)
			}
			if a.expired() {
				// DON'T CARE: the name was given before a ten-year jump and
				// released after it; the record is out of the contract's reach
				// and NNS's treatment of expired names is C12's business.
				if has(a.domain, id) {
					r.Count("probe.expired_alias_record_served_again")
				}
				continue
			}
			if !has(a.domain, id) {
				continue
			}
			rec := ctBase58([]byte(id))
			switch {
			case !dead:
				r.Violation("C04/previous-alias-not-released", "", "%s bore the name %s and was put again as %s; NNS still serves TXT %s under %s", e.idName(id), a.domain, current, rec, a.domain)
			case j == len(aliases)-1:
				r.Violation("C04/alias-record-left-after-delete", "", "%s was deleted with alias %s; NNS still serves TXT %s under it", e.idName(id), a.domain, rec)
			default:
				r.Violation("C04/stale-alias-record-after-delete", "", "%s was put as %s, later put again as %s and then deleted; NNS still serves TXT %s under %s", e.idName(id), a.domain, aliases[len(aliases)-1].domain, rec, a.domain)
			}
		}
	}
	for _, id := range e.sortedLive() {
		judge(id, m.live[id].aliases, m.live[id].alias(), false)
	}
	for _, id := range e.sortedDead() {
		judge(id, m.dead[id].aliases, "", true)
	}
}
