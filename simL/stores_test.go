package siml

// Stores engine: decides C20 — Reputation, Audit, the container size
// estimations of the Container contract, NeoFSID and the configuration maps of
// Netmap and of the main-chain NeoFS contract (Notary-enabled mode; its vote
// collecting mode is C17's) behave as exact stores. One world, one workload, one
// multimap model per store. See DESIGN.md §5 C20, §7 #8.
//
// What the reference model is written from: the C20 statement, the method
// comments and doc.go of the five contracts (incl. the documented identifier
// formats '<epoch><peer>', '<epoch><cid><24 bytes of SHA-256(key)>',
// 'cnr<epoch><cid>' with <epoch> = variable-length little-endian integer) and
// the two documented clean-up deltas of containerconst/const.go.
//
// Don't-care zones (the statement is silent; the oracle follows the
// application log for the one bit "took effect?" and then checks every effect
// strictly):
//   - environment operations that only set the stage and belong to other
//     properties: container put/delete (C04/C05), netmap addPeerIR / addNode /
//     updateStateIR / deleteNode (C07), RoleManagement.designateAsRole (native);
//   - netmap.newEpoch witnessed by the Alphabet with scope CalledByEntry: the
//     subscribers refuse at call depth 1; whether that aborts the tick is C06's
//     business;
//   - putContainerSize by a node that is in the previous epoch's map only in
//     the structured (addNode / 'p<epoch>') representation and not in the legacy
//     snapshot: the statement says "accepted only from nodes of the previous
//     epoch's map", it does not say which representation; acceptance and refusal
//     are both allowed (counted as probe.est_v2_only_*), an accepted one must be
//     stored exactly;
//   - GAS-cut transactions: whether the cut was deep enough to FAULT is taken
//     from the application log, everything else is predicted;
//   - the order of the elements of every listing (compared as multisets; the
//     multiplicity is compared: a duplicate is a mismatch);
//   - epochs < 0 and audit epochs ≥ 2^63 (not epoch numbers), identifiers of
//     other lengths than the documented ones (33-byte peer, 32-byte container
//     id): never generated;
//   - a refusal may be any FAULT (the order of the refusal reasons is not
//     compared);
//   - "previous epoch's network map" after a tick that jumps over epochs: the
//     map that was current before the last tick (the skipped epochs never had
//     one).
//
// Known-finding matcher (DESIGN.md §7 #8), see judge / stClassify: an answer of
// a prefix-Find lister that misses nothing and whose extra entries are all
// stored under ANOTHER epoch such that the documented key string
// <epoch><identifier…> of the entry starts with the query's <epoch><identifier…>
// is reported as rule C20/listing-extra-prefix-epoch with kfKey
//   - "epoch-prefix-listing:<contract.method>" when every extra entry's epoch
//     encoding strictly extends the queried one (1 ⊂ 257, 0 ⊂ everything), or
//   - "epoch-prefix-listing-reverse:<contract.method>" when at least one extra
//     entry sits under an epoch whose encoding is a strict prefix of the queried
//     one and the first bytes of its identifier complete it (an id put under
//     epoch 0 for a peer whose key starts with 0x02 answers listByEpoch(2)).
// Every other deviation is a plain violation. Only 15 % of the runs (swarm knob
// prefixEpochs) use epochs with prefix-related encodings; in all other runs the
// epochs in use are pairwise prefix-free, so neither direction can occur and
// everything is checked strictly to the end of the run.

import (
	"bytes"
	"crypto/sha256"
	"encoding/binary"
	"fmt"
	"math/big"
	"sort"
	"strings"
	"testing"

	"github.com/nspcc-dev/neo-go/pkg/core/state"
	"github.com/nspcc-dev/neo-go/pkg/core/transaction"
	"github.com/nspcc-dev/neo-go/pkg/crypto/keys"
	"github.com/nspcc-dev/neo-go/pkg/util"
	"github.com/nspcc-dev/neo-go/pkg/vm/stackitem"
	"github.com/nspcc-dev/neo-go/pkg/vm/vmstate"
	"pgregory.net/rapid"
)

// ---- abstract operations (drawn up-front so that rapid can delete steps) ----

const (
	stEstPut = iota
	stAudPut
	stRepPut
	stTick
	stCnrEpoch
	stIDAdd
	stIDRemove
	stCfgSet
	stNodeAdd
	stNodeRemove
	stDesignate
	stCnrPut
	stCnrDelete
	stReplay
	stKinds
)

var stKindName = []string{"putContainerSize", "audit.put", "reputation.put", "netmap.newEpoch", "container.newEpoch",
	"neofsid.addKey", "neofsid.removeKey", "setConfig", "node.add", "node.remove", "designate", "container.put",
	"container.delete", "replay"}

// The documented clean-up deltas (contracts/container/containerconst/const.go:
// "CleanupDelta contains the number of the last epochs for which container
// estimations are present" = 3; "TotalCleanupDelta contains the number of the
// epochs after which estimation will be removed by epoch tick cleanup" =
// CleanupDelta + 1). Deliberately not imported: a change of the constants is a
// change of behaviour the check has to notice.
const (
	stCleanupDelta      = 3
	stTotalCleanupDelta = 4
	stNeoFSAlphabetRole = 16
	stMaxUsedEpochs     = 14
)

// the epochs the property's quantifier names
var stBaseEpochs = []int64{1, 2, 127, 128, 255, 256, 257, 65535, 65536, 1<<31 - 1, 0}

// further epochs for the runs that look for the prefix finding: 3 = <0><key
// starting with 0x03>, 258 ⊃ 2, 513 = <1><key starting with 0x02>, 65793 ⊃ 257 ⊃ 1
var stPrefixEpochs = []int64{3, 258, 513, 769, 65793}

var stOffsets = []int64{0, 1, 3, 4, 5, -1, -3, -4, -5, 2, 6}

type stOp struct {
	Kind   int
	A      int // peer / reporter / node / owner / config key index
	B      int // container slot / key mask / registration kind
	C      int // value class, tick class, misc
	EpBase int // index into the run's epoch universe; ≥ 6: the current Netmap epoch
	EpOff  int // index into stOffsets
	Sig    int // signer class
	GasCut int // 0 = none, else percent of the measured need
	Flush  int // 0 keep collecting, 1 close block, 2 close block and add empty ones
	Dt     int
}

func stGenOp(t *rapid.T) stOp {
	op := stOp{}
	op.Kind = Weighted(t, "kind", []int{24, 14, 14, 13, 4, 8, 6, 8, 4, 2, 2, 2, 1, 2})
	op.A = Pick(t, "a", 8)
	op.B = Pick(t, "b", 16)
	op.C = Pick(t, "c", 16)
	op.EpBase = Weighted(t, "epbase", []int{12, 10, 10, 8, 8, 14, 19, 19})
	op.EpOff = Weighted(t, "epoff", []int{40, 6, 6, 8, 8, 6, 4, 4, 4, 3, 3})
	op.Sig = Weighted(t, "sig", []int{72, 4, 4, 4, 4, 4, 4, 4})
	if Chance(t, "gascut?", 5) {
		op.GasCut = rapid.IntRange(5, 95).Draw(t, "gascut")
	}
	op.Flush = Weighted(t, "flush", []int{55, 40, 5})
	op.Dt = rapid.IntRange(1, 3).Draw(t, "dt")
	return op
}

// ---- epoch encoding (the statement itself names it: "variable-length
// little-endian epoch encodings") ------------------------------------------

func stEnc(e int64) []byte {
	if e == 0 {
		return []byte{}
	}
	b := big.NewInt(e).Bytes() // big endian magnitude
	for i, j := 0, len(b)-1; i < j; i, j = i+1, j-1 {
		b[i], b[j] = b[j], b[i]
	}
	if e > 0 && b[len(b)-1]&0x80 != 0 {
		b = append(b, 0)
	}
	return b
}

// stDec is the inverse for non-negative epochs; ok = false for anything that is
// not the canonical encoding of an epoch ≥ 0.
func stDec(b []byte) (int64, bool) {
	if len(b) > 8 {
		return 0, false
	}
	var v int64
	for i := len(b) - 1; i >= 0; i-- {
		v = v<<8 | int64(b[i])
	}
	if v < 0 || !bytes.Equal(stEnc(v), b) {
		return 0, false
	}
	return v, true
}

func stProperPrefix(a, b []byte) bool { return len(a) < len(b) && bytes.HasPrefix(b, a) }

func stPrefixRelated(x, y int64) bool {
	a, b := stEnc(x), stEnc(y)
	return stProperPrefix(a, b) || stProperPrefix(b, a)
}

// ---- reference model -------------------------------------------------------

type stExpect int

const (
	stMustRefuse stExpect = iota
	stMustSucceed
	stDontCare
)

type stRepKey struct {
	e int64
	p int
}

type stAudKey struct {
	e   int64
	c   int
	rep int
}

type stEstKey struct {
	e    int64
	cid  string
	node int
}

type stSlot struct {
	gen  int
	live bool
	cid  []byte // of the live container
}

type stModel struct {
	epoch int64
	rep   map[stRepKey][]string
	aud   map[stAudKey]string
	est   map[stEstKey]int64
	ids   [3]map[string]bool   // owner → bound keys
	cfg   [2]map[string]string // 0 Netmap, 1 NeoFS (main-chain contract, Notary on)

	candLegacy, candV2 map[int]bool
	curLegacy, curV2   map[int]bool
	prevLegacy, prevV2 map[int]bool
	irActive           int // bit mask over the reporter pool, as of the start of the block
	irPending          int // what a designation of this block makes active from the next block on
	irDesignated       bool
	slots              [3]stSlot
}

func stNewModel() *stModel {
	m := &stModel{rep: map[stRepKey][]string{}, aud: map[stAudKey]string{}, est: map[stEstKey]int64{},
		candLegacy: map[int]bool{}, candV2: map[int]bool{}, curLegacy: map[int]bool{}, curV2: map[int]bool{},
		prevLegacy: map[int]bool{}, prevV2: map[int]bool{}}
	for i := range m.ids {
		m.ids[i] = map[string]bool{}
	}
	for i := range m.cfg {
		m.cfg[i] = map[string]string{}
	}
	return m
}

func stCopySet(m map[int]bool) map[int]bool {
	o := map[int]bool{}
	for k, v := range m {
		if v {
			o[k] = true
		}
	}
	return o
}

func (m *stModel) repKeys() []stRepKey {
	l := make([]stRepKey, 0, len(m.rep))
	for k := range m.rep {
		l = append(l, k)
	}
	sort.Slice(l, func(i, j int) bool {
		if l[i].e != l[j].e {
			return l[i].e < l[j].e
		}
		return l[i].p < l[j].p
	})
	return l
}

func (m *stModel) audKeys() []stAudKey {
	l := make([]stAudKey, 0, len(m.aud))
	for k := range m.aud {
		l = append(l, k)
	}
	sort.Slice(l, func(i, j int) bool {
		if l[i].e != l[j].e {
			return l[i].e < l[j].e
		}
		if l[i].c != l[j].c {
			return l[i].c < l[j].c
		}
		return l[i].rep < l[j].rep
	})
	return l
}

func (m *stModel) estKeys() []stEstKey {
	l := make([]stEstKey, 0, len(m.est))
	for k := range m.est {
		l = append(l, k)
	}
	sort.Slice(l, func(i, j int) bool {
		if l[i].e != l[j].e {
			return l[i].e < l[j].e
		}
		if l[i].cid != l[j].cid {
			return l[i].cid < l[j].cid
		}
		return l[i].node < l[j].node
	})
	return l
}

// ---- the run ---------------------------------------------------------------

type stEngine struct {
	r  *Run
	w  *World // the FS chain (r.W)
	w2 *World // a bare chain that only hosts the main-chain NeoFS contract
	m  *stModel

	rep, aud, cnr, nid, nm, nfs util.Uint160

	prefixMode bool // the run may use epochs whose encodings are prefixes of one another
	crafted    bool // … and identifiers crafted so that <epoch><id> strings of different epochs share prefixes
	U          []int64
	used       []int64
	usedSet    map[int64]bool

	nodes    [5]*keys.PrivateKey // 4 storage nodes + one that is never registered
	irs      [5]*keys.PrivateKey // 4 reporters that may hold the role + one that never does
	owners   [3][]byte
	idKeys   [][]byte
	peers    [][]byte
	audCids  [][]byte
	cfgKeys  []string
	stranger *keys.PrivateKey

	seq     int
	blockNo int
	top     uint32 // height of the FS chain after this engine's last block
	lastOK  *stTx
	digest  map[string]string
	removed []stEstKey // estimations removed by the model in the current block
	cleaned bool       // a clean-up (tick, container.newEpoch, a node's newer estimation) ran in the current block
	known   []stKnown  // known-finding observations of the current sweep (raised after all strict checks)
}

type stKnown struct{ key, detail string }

type stTx struct {
	op      stOp
	kind    int
	tx      *transaction.Transaction
	script  []byte
	signers []Signer
	desc    string
	fault   string
	gasCut  bool
	replay  bool

	epoch   int64
	peer    int
	value   string
	cidIdx  int
	ir      int
	blob    string
	slot    int
	cid     []byte
	node    int
	size    int64
	pub     []byte
	owner   []byte
	ownerIx int
	keys    [][]byte
	cfgKey  string
	cfgIx   int  // 0 Netmap, 1 NeoFS
	mc      bool // the transaction goes to the NeoFS chain
	cfgVal  string
	regKind int
	viaDel  bool
	mask    int
	cnrBlob []byte
	noToken bool
	cnrPub  []byte
}

func stBody(r *Run) {
	e := &stEngine{r: r}
	e.run()
}

func init() { RegisterEngine("stores", []string{"C20"}, stBody) }

func TestStores(t *testing.T) { Sim(t, stBody) }

func (e *stEngine) run() {
	t := e.r.T
	ns := []int{1, 3, 4, 7}
	if !Thorough() && Chance(t, "rareN", 12) {
		// sizes with 3k+2 members and the larger even one, now and then
		ns = []int{2, 5, 6}
	}
	if Thorough() {
		ns = []int{1, 3, 4, 7, 2, 5, 6}
	}
	n := ns[Pick(t, "n", len(ns))]
	// Swarm knob: only some runs draw epochs with prefix-related encodings (the
	// known finding ends a run); all others check everything strictly to the end.
	e.prefixMode = Chance(t, "prefixEpochs", 15)
	e.crafted = e.prefixMode && Chance(t, "craftedIDs", 50)
	nU := rapid.IntRange(2, 6).Draw(t, "nU")
	var cand []int64
	for i := 0; i < nU+3; i++ {
		pool := stBaseEpochs[:len(stBaseEpochs)-1] // strict runs never draw epoch 0: its empty encoding is a prefix of everything
		if e.prefixMode {
			pool = append(append([]int64{}, stBaseEpochs...), stPrefixEpochs...)
		}
		cand = append(cand, pool[rapid.IntRange(0, len(pool)-1).Draw(t, "u")])
	}
	if e.prefixMode {
		// make sure prefix-related pairs are there: 1 ⊂ 257, 0 ⊂ everything
		switch Pick(t, "prefixPair", 4) {
		case 0:
			cand = append([]int64{1, 257}, cand...)
		case 1:
			cand = append([]int64{0, 1}, cand...)
		case 2:
			cand = append([]int64{0, 257, 1}, cand...)
		default:
			cand = append([]int64{0, 2, 3}, cand...)
		}
	}
	// the stage: by default (index 0 of every choice) everything an estimation
	// needs is there — containers, nodes that have been in the map for two
	// epochs, reporters holding the role
	preNode := make([]int, 4)
	for i := range preNode {
		preNode[i] = Weighted(t, "preNode", []int{70, 10, 10, 10}) // legacy, both, structured only, none
	}
	preCnr := make([]bool, 3)
	for i := range preCnr {
		preCnr[i] = !Chance(t, "noCnr", 10)
	}
	preIR := 15 // which reporters hold the NeoFSAlphabet role at the start
	if Chance(t, "preIR?", 40) {
		preIR = 15 - Pick(t, "preIR", 16)
	}
	preTicks := 2 - Weighted(t, "preTicks", []int{80, 10, 10})
	preCfg := Chance(t, "preCfg", 50)
	maxOps := 60
	if Thorough() {
		maxOps = 120
	}
	// many values under one reputation id: the per-id value counter is part of
	// the keys and its encoding grows at 128 and 256
	repBurst, repBurstEp, repBurstPeer := 0, 0, 0
	if Chance(t, "repBurst?", 12) {
		repBurst = []int{126, 127, 128, 129, 200, 255, 256, 257}[Pick(t, "repBurst", 8)]
		repBurstEp, repBurstPeer = Pick(t, "repBurstEp", 6), Pick(t, "repBurstPeer", 8)
	}
	ops := OpsSlice(t, rapid.Custom(stGenOp), maxOps)

	e.usedSet = map[int64]bool{}
	e.m = stNewModel()
	for _, c := range cand {
		if len(e.U) < nU+2 && !e.usedSet[c] && e.admit(c) {
			e.U = append(e.U, c)
		}
	}

	// actors
	for i := range e.nodes {
		e.nodes[i] = DetKey(fmt.Sprintf("st/node/%d", i))
	}
	for i := range e.irs {
		e.irs[i] = DetKey(fmt.Sprintf("st/ir/%d", i))
	}
	for i := range e.owners {
		e.owners[i] = stOwnerID(DetKey(fmt.Sprintf("st/owner/%d", i)).GetScriptHash())
	}
	for i := 0; i < 5; i++ {
		e.idKeys = append(e.idKeys, DetKey(fmt.Sprintf("st/idkey/%d", i)).PublicKey().Bytes())
	}
	for i := 0; i < 4; i++ {
		e.peers = append(e.peers, e.nodes[i].PublicKey().Bytes())
	}
	for i := 0; i < 3; i++ {
		h := sha256.Sum256([]byte(fmt.Sprintf("st/audit-cid/%d", i)))
		e.audCids = append(e.audCids, h[:])
	}
	if e.crafted {
		// <epoch 1><peers[3]> is a proper prefix of <epoch 257><peers[2]> (and
		// <epoch 0><peers[3]> of <epoch 1><peers[2]>); the same for two audit
		// container ids. Neither contract validates the identifiers.
		e.peers[3] = append([]byte{1}, e.peers[2][:32]...)
		e.audCids[2] = append([]byte{1}, e.audCids[1][:31]...)
	}
	e.cfgKeys = []string{"A", "AB", "ABC", "B", "", "Container", "ContainerFeeX", "ContainerFee\x00"}
	e.stranger = DetKey("st/stranger")

	cfg := []any{[]byte("ContainerFee"), []byte{0}, []byte("ContainerAliasFee"), []byte{0}}
	cfg2 := []any{[]byte("WithdrawFee"), []byte{0}}
	e.m.cfg[0]["ContainerFee"], e.m.cfg[0]["ContainerAliasFee"], e.m.cfg[1]["WithdrawFee"] = "\x00", "\x00", "\x00"
	if preCfg {
		cfg = append(cfg, []byte("AB"), []byte("init-AB"), []byte("B"), []byte{})
		cfg2 = append(cfg2, []byte("ABC"), []byte("init-ABC"), []byte("A"), []byte{})
		e.m.cfg[0]["AB"], e.m.cfg[0]["B"], e.m.cfg[1]["ABC"], e.m.cfg[1]["A"] = "init-AB", "", "init-ABC", ""
	}
	w := e.r.Own(NewFSWorld(FSOpts{N: n, Label: "st", NetmapCfg: cfg,
		With: []string{"netmap", "balance", "neofsid", "container", "reputation", "audit"}}))
	e.w = w
	e.rep, e.aud, e.cnr, e.nid, e.nm = w.C["reputation"].Hash, w.C["audit"].Hash, w.C["container"].Hash, w.C["neofsid"].Hash, w.C["netmap"].Hash
	// The main-chain NeoFS contract, only for its configuration map (Notary on:
	// setConfig → Alphabet witness); nothing else of it is used here. It lives on
	// a chain of its own with the same committee keys (second world: not r.W, so
	// the upgrade check leaves it alone — neofs.update is authorised by the
	// NeoFSAlphabet role, which on the FS chain belongs to this engine's
	// reporters).
	e.w2 = e.r.Own(NewWorld(WorldOpts{N: n, Label: "st"}))
	var pubs []any
	for _, k := range e.w2.Pubs {
		pubs = append(pubs, k.Bytes())
	}
	e.nfs = e.w2.Deploy("neofs", CompileContract("neofs"), []any{false, util.Uint160{1, 2, 3}, pubs, cfg2}).Hash
	e.r.Sweep = e.sweepLines
	e.top = w.Height()
	e.digest = map[string]string{}
	for _, c := range stContracts {
		e.digest[c] = e.storageDigest(c)
	}
	e.r.Tracef("world n=%d alphabet=%d-of-%d committee=%d-of-%d prefixEpochs=%v crafted=%v U=%v", n, n*2/3+1, n, n/2+1, n, e.prefixMode, e.crafted, e.U)

	// setting the stage (part of the history: ordinary transactions, judged like
	// all others)
	var pending []*stTx
	add := func(op stOp) {
		if bt := e.build(op); bt != nil {
			pending = append(pending, bt)
		}
	}
	if preIR != 0 {
		add(stOp{Kind: stDesignate, B: preIR})
	}
	for i, c := range preCnr {
		if c {
			add(stOp{Kind: stCnrPut, B: i, C: 1})
		}
	}
	for i, k := range preNode {
		if k == 0 || k == 1 {
			add(stOp{Kind: stNodeAdd, A: i, B: 0})
		}
		if k == 1 || k == 2 {
			add(stOp{Kind: stNodeAdd, A: i, B: 1})
		}
	}
	if len(pending) > 0 {
		e.block(pending, 1)
		pending = nil
	}
	for i := 0; i < preTicks; i++ {
		add(stOp{Kind: stTick})
		e.block(pending, 1)
		pending = nil
	}

	for i := 0; i < repBurst; i++ {
		add(stOp{Kind: stRepPut, A: repBurstPeer, B: 1, EpBase: repBurstEp})
		// the blocks around the boundaries are short, so that the sweep looks
		// at 127, 128, 129 … values
		if len(pending) >= 50 || (i >= 120 && i%128 >= 120) || i%128 < 3 && i > 3 || i == repBurst-1 {
			e.block(pending, 1)
			pending = nil
		}
	}
	if repBurst > 0 {
		e.r.Count("probe.reputation_id_with_more_than_127_values")
	}

	flush := func(extraEmpty int, dt int) {
		e.block(pending, uint64(dt))
		pending = nil
		for i := 0; i < extraEmpty; i++ {
			e.block(nil, 1)
		}
	}
	for _, op := range ops {
		bt := e.build(op)
		if bt == nil {
			continue
		}
		pending = append(pending, bt)
		if op.Flush > 0 || len(pending) >= 6 {
			extra := 0
			if op.Flush == 2 {
				extra = 2
			}
			flush(extra, op.Dt)
		}
	}
	if len(pending) > 0 {
		flush(0, 1)
	}
}

var stCfgName = []string{"netmap", "neofs"}

var stContracts = []string{"reputation", "audit", "container", "neofsid", "netmap", "neofs"}

// admit decides whether an epoch may be stored under / queried in this run: in
// strict runs the epochs in use have pairwise prefix-free encodings.
func (e *stEngine) admit(ep int64) bool {
	if e.usedSet[ep] {
		return true
	}
	if ep < 0 || len(e.used) >= stMaxUsedEpochs {
		return false
	}
	if !e.prefixMode {
		for _, u := range e.used {
			if stPrefixRelated(u, ep) {
				return false
			}
		}
	}
	e.usedSet[ep] = true
	e.used = append(e.used, ep)
	return true
}

func (e *stEngine) epochArg(op stOp) int64 {
	u := e.U[op.EpBase%len(e.U)]
	base := u
	if op.EpBase >= 6 {
		base = e.m.epoch
	}
	if ep := base + stOffsets[op.EpOff]; ep >= 0 && e.admit(ep) {
		return ep
	}
	if e.admit(base) {
		return base
	}
	return u
}

func stOwnerID(h util.Uint160) []byte {
	b := append([]byte{0x35}, h.BytesBE()...)
	c1 := sha256.Sum256(b)
	c2 := sha256.Sum256(c1[:])
	return append(b, c2[:4]...)
}

// stAuditBlob builds a DataAuditResult as far as the contract's documentation
// of the header goes: version, fixed64 epoch, container id, reporter key, then
// anything.
func stAuditBlob(vlen int, epoch int64, cid, key []byte, payload string) []byte {
	b := []byte{0x0a, byte(vlen)}
	b = append(b, bytes.Repeat([]byte{0x08}, vlen)...)
	b = append(b, 0x11)
	var ep [8]byte
	binary.LittleEndian.PutUint64(ep[:], uint64(epoch))
	b = append(b, ep[:]...)
	b = append(b, 0x1a, byte(2+len(cid)), 0x0a, byte(len(cid)))
	b = append(b, cid...)
	b = append(b, 0x22, byte(len(key)))
	b = append(b, key...)
	return append(b, payload...)
}

func (e *stEngine) containerBlob(slot, gen int) []byte {
	owner := e.owners[slot%len(e.owners)]
	vlen := slot // version field of different lengths
	b := []byte{0x0a, byte(vlen)}
	b = append(b, bytes.Repeat([]byte{0x08}, vlen)...)
	b = append(b, 0x12, 27, 0x0a, 25)
	b = append(b, owner...)
	return append(b, fmt.Sprintf("|st-container|%d|%d", slot, gen)...)
}

func (e *stEngine) nodeInfo(i int) []byte {
	b := []byte{0x0a, 33}
	b = append(b, e.nodes[i].PublicKey().Bytes()...)
	return append(b, fmt.Sprintf("|st-node|%d|padding-to-some-length", i)...)
}

func (e *stEngine) nodeStruct(i int) stackitem.Item {
	return stackitem.NewStruct([]stackitem.Item{
		stackitem.NewArray([]stackitem.Item{stackitem.Make(fmt.Sprintf("grpc://st-node-%d:8080", i))}),
		stackitem.NewMapWithValue([]stackitem.MapElement{{Key: stackitem.Make("Capacity"), Value: stackitem.Make("100")}}),
		stackitem.NewByteArray(e.nodes[i].PublicKey().Bytes()),
		stackitem.Make(1), // nodestate.Online
	})
}

// keySigners: signer classes for a method that requires the witness of one
// particular key.
func (e *stEngine) keySigners(class int, name string, key, other *keys.PrivateKey) ([]Signer, string) {
	switch class {
	case 0:
		return []Signer{Single(name, key)}, ""
	case 1:
		return []Signer{Single("otherkey", other)}, "wit.other_key"
	case 2:
		return []Signer{Single("stranger", e.stranger)}, "wit.missing"
	case 3:
		return nil, "wit.missing"
	case 4:
		return []Signer{Single(name, key).WithScope(transaction.None)}, "wit.scope"
	case 5:
		return []Signer{Single(name, key).WithScope(transaction.CalledByEntry)}, ""
	case 6:
		return []Signer{e.w.Alphabet}, "wit.other_key"
	default:
		return []Signer{Single(name, key), e.w.Alphabet}, ""
	}
}

func stOr(a, b string) string {
	if a != "" {
		return a
	}
	return b
}

func (e *stEngine) build(op stOp) *stTx {
	w := e.w
	bt := &stTx{op: op, kind: op.Kind}
	e.seq++
	switch op.Kind {
	case stReplay:
		if e.lastOK == nil {
			return nil
		}
		cp := *e.lastOK
		cp.op.GasCut, cp.op.Flush, cp.op.Dt = op.GasCut, op.Flush, op.Dt
		cp.replay, cp.gasCut, cp.tx = true, false, nil
		cp.desc = "resubmit " + strings.TrimPrefix(strings.SplitN(cp.desc, " [GAS cut", 2)[0], "resubmit ")
		e.finish(&cp, stOr(cp.fault, "replay.resubmit"))
		return &cp
	case stRepPut:
		bt.epoch, bt.peer = e.epochArg(op), op.A%len(e.peers)
		if e.crafted && op.B%2 == 0 {
			bt.peer = 2 // the peer whose id the crafted one is cut from
		}
		bt.value = fmt.Sprintf("trust|%d|%d|#%d", bt.epoch, bt.peer, e.seq)
		if op.C == 15 {
			bt.value = "" // an empty value is a value
		}
		signers, sf := AlphaSignerClass(w, op.Sig, e.stranger)
		bt.signers = signers
		bt.desc = fmt.Sprintf("reputation.put(%d, peer%d, %q)", bt.epoch, bt.peer, bt.value)
		bt.script = CallScript(e.rep, "put", bt.epoch, e.peers[bt.peer], []byte(bt.value))
		e.finish(bt, sf)
	case stAudPut:
		bt.epoch, bt.cidIdx, bt.ir = e.epochArg(op), op.B%len(e.audCids), op.A%len(e.irs)
		if e.crafted && op.B%2 == 0 {
			bt.cidIdx = 1 // the container id the crafted one is cut from
		}
		key := e.irs[bt.ir]
		bt.blob = string(stAuditBlob(op.C%4, bt.epoch, e.audCids[bt.cidIdx], key.PublicKey().Bytes(), fmt.Sprintf("|result|#%d", e.seq)))
		signers, sf := e.keySigners(op.Sig, fmt.Sprintf("ir%d", bt.ir), key, e.irs[(bt.ir+1)%len(e.irs)])
		if e.m.irActive&(1<<bt.ir) == 0 {
			sf = stOr(sf, "wit.other_key") // a key that does not hold the role
		}
		bt.signers = signers
		bt.desc = fmt.Sprintf("audit.put(epoch %d, cid%d, reporter ir%d, v%d)", bt.epoch, bt.cidIdx, bt.ir, op.C%4)
		bt.script = CallScript(e.aud, "put", []byte(bt.blob))
		e.finish(bt, sf)
	case stEstPut:
		bt.slot, bt.node = op.B%3, op.A%len(e.nodes)
		if op.A >= 5 {
			bt.node = op.A % 4
		}
		s := e.m.slots[bt.slot]
		if s.live {
			bt.cid = s.cid
		} else {
			h := sha256.Sum256(e.containerBlob(bt.slot, s.gen))
			bt.cid = h[:]
		}
		bt.epoch = e.epochArg(op)
		if op.EpBase == 5 {
			// relative to an estimation this node already has for this container
			// (the node-side clean-up boundary)
			for _, k := range e.m.estKeys() {
				if k.cid == string(bt.cid) && k.node == bt.node {
					if ep := k.e + stOffsets[op.EpOff]; ep >= 0 && e.admit(ep) {
						bt.epoch = ep
					}
					break
				}
			}
		}
		bt.size = int64(1000*e.seq + op.C)
		if op.C == 15 {
			bt.size = 0
		}
		key := e.nodes[bt.node]
		bt.pub = key.PublicKey().Bytes()
		signers, sf := e.keySigners(op.Sig, fmt.Sprintf("node%d", bt.node), key, e.nodes[(bt.node+1)%4])
		if !s.live {
			sf = stOr(sf, "arg.stale_id")
		}
		bt.signers = signers
		bt.desc = fmt.Sprintf("putContainerSize(%d, slot%d/%.4x, %d, node%d)", bt.epoch, bt.slot, bt.cid, bt.size, bt.node)
		bt.script = CallScript(e.cnr, "putContainerSize", bt.epoch, bt.cid, bt.size, bt.pub)
		e.finish(bt, sf)
	case stTick:
		cur := e.m.epoch
		f := ""
		switch {
		case op.C < 8:
			bt.epoch = cur + 1
		case op.C < 10:
			bt.epoch, f = cur+2, "epoch.jump"
		case op.C == 10:
			bt.epoch, f = cur+2+int64(op.B%5), "epoch.jump"
		case op.C < 13:
			// to the clean-up boundary of an estimation the model holds
			bt.epoch, f = cur+1, ""
			if ks := e.m.estKeys(); len(ks) > 0 {
				if t := ks[op.B%len(ks)].e + stTotalCleanupDelta + int64(op.A%3); t > cur {
					bt.epoch, f = t, "epoch.jump"
				}
			}
		case op.C == 13:
			bt.epoch, f = e.U[op.EpBase%len(e.U)]+int64(op.B%7), "epoch.jump"
			if bt.epoch <= cur {
				bt.epoch, f = cur+1, ""
			}
		case op.C == 14:
			bt.epoch, f = cur, "arg.stale_id"
		default:
			bt.epoch, f = cur-1, "arg.stale_id"
		}
		signers, sf := AlphaSignerClass(w, op.Sig, e.stranger)
		bt.signers = signers
		bt.desc = fmt.Sprintf("netmap.newEpoch(%d)", bt.epoch)
		bt.script = CallScript(e.nm, "newEpoch", bt.epoch)
		e.finish(bt, stOr(sf, f))
	case stCnrEpoch:
		base := e.U[op.EpBase%len(e.U)]
		if op.EpBase >= 6 {
			base = e.m.epoch
		}
		bt.epoch = base + stOffsets[op.EpOff]
		signers, sf := AlphaSignerClass(w, op.Sig, e.stranger)
		bt.signers = signers
		bt.desc = fmt.Sprintf("container.newEpoch(%d)", bt.epoch)
		bt.script = CallScript(e.cnr, "newEpoch", bt.epoch)
		e.finish(bt, sf)
	case stIDAdd, stIDRemove:
		bt.ownerIx = op.A % 3
		bt.owner = e.owners[bt.ownerIx]
		f := ""
		switch op.C {
		case 13:
			bt.owner, f = bt.owner[:24], "arg.malformed"
		case 14:
			bt.owner, f = append(append([]byte{}, bt.owner...), 0), "arg.malformed"
		}
		mask := op.B % 32
		if mask == 0 && op.C%2 == 0 {
			mask = 1 << (op.C / 2 % 5)
		}
		var arr []any
		for i := 0; i < 5; i++ {
			if mask&(1<<i) != 0 {
				bt.keys = append(bt.keys, e.idKeys[i])
				arr = append(arr, e.idKeys[i])
			}
		}
		switch {
		case op.C == 12 && len(bt.keys) > 0:
			bt.keys[len(bt.keys)-1] = bt.keys[len(bt.keys)-1][:32]
			arr[len(arr)-1] = bt.keys[len(bt.keys)-1]
			f = "arg.malformed"
		case op.C == 11 && len(bt.keys) > 0:
			// the same key twice in one call
			bt.keys = append(bt.keys, bt.keys[0])
			arr = append(arr, bt.keys[0])
		}
		if arr == nil {
			arr = []any{}
		}
		signers, sf := AlphaSignerClass(w, op.Sig, e.stranger)
		bt.signers = signers
		method := "addKey"
		if op.Kind == stIDRemove {
			method = "removeKey"
		}
		bt.desc = fmt.Sprintf("neofsid.%s(owner%d/len%d, keys mask %05b/%d keys)", method, bt.ownerIx, len(bt.owner), mask, len(bt.keys))
		bt.script = CallScript(e.nid, method, bt.owner, arr)
		e.finish(bt, stOr(sf, f))
	case stCfgSet:
		bt.cfgKey = e.cfgKeys[op.A%len(e.cfgKeys)]
		bt.cfgVal = fmt.Sprintf("v#%d", e.seq)
		switch op.C {
		case 15:
			bt.cfgVal = ""
		case 14:
			bt.cfgVal = bt.cfgKey // a value equal to its key
		}
		signers, sf := AlphaSignerClass(w, op.Sig, e.stranger)
		bt.signers = signers
		h := e.nm
		if op.B%3 == 2 {
			bt.cfgIx, bt.mc, h = 1, true, e.nfs
		}
		bt.desc = fmt.Sprintf("%s.setConfig(%q, %q)", stCfgName[bt.cfgIx], bt.cfgKey, bt.cfgVal)
		bt.script = CallScript(h, "setConfig", []byte(fmt.Sprintf("id%d", e.seq)), []byte(bt.cfgKey), []byte(bt.cfgVal))
		e.finish(bt, sf)
	case stNodeAdd:
		bt.node, bt.regKind = op.A%4, op.B%2
		if bt.regKind == 0 {
			bt.signers = []Signer{w.Alphabet}
			bt.desc = fmt.Sprintf("netmap.addPeerIR(node%d)", bt.node)
			bt.script = CallScript(e.nm, "addPeerIR", e.nodeInfo(bt.node))
		} else {
			bt.signers = []Signer{Single(fmt.Sprintf("node%d", bt.node), e.nodes[bt.node]), w.Alphabet}
			bt.desc = fmt.Sprintf("netmap.addNode(node%d)", bt.node)
			bt.script = CallScript(e.nm, "addNode", e.nodeStruct(bt.node))
		}
		e.finish(bt, "")
	case stNodeRemove:
		bt.node, bt.viaDel = op.A%4, op.B%2 == 1
		bt.signers = []Signer{w.Alphabet}
		if bt.viaDel {
			bt.desc = fmt.Sprintf("netmap.deleteNode(node%d)", bt.node)
			bt.script = CallScript(e.nm, "deleteNode", e.nodes[bt.node].PublicKey().Bytes())
		} else {
			bt.desc = fmt.Sprintf("netmap.updateStateIR(offline, node%d)", bt.node)
			bt.script = CallScript(e.nm, "updateStateIR", int64(2), e.nodes[bt.node].PublicKey().Bytes())
		}
		e.finish(bt, "")
	case stDesignate:
		bt.mask = op.B % 16
		if bt.mask == 0 {
			bt.mask = 1 << (op.A % 4)
		}
		var arr []any
		for i := 0; i < 4; i++ {
			if bt.mask&(1<<i) != 0 {
				arr = append(arr, e.irs[i].PublicKey().Bytes())
			}
		}
		bt.signers = []Signer{w.Committee}
		bt.desc = fmt.Sprintf("designateAsRole(NeoFSAlphabet, mask %04b)", bt.mask)
		bt.script = CallScript(w.Roles, "designateAsRole", int64(stNeoFSAlphabetRole), arr)
		e.finish(bt, "")
	case stCnrPut:
		bt.slot = op.B % 3
		s := &e.m.slots[bt.slot]
		bt.cnrBlob = e.containerBlob(bt.slot, s.gen)
		bt.noToken = op.C%4 == 0
		bt.cnrPub = e.idKeys[op.A%len(e.idKeys)]
		token := []byte("session-token")
		if bt.noToken {
			token = []byte{}
		}
		bt.signers = []Signer{w.Alphabet}
		bt.desc = fmt.Sprintf("container.put(slot%d gen%d, token=%v)", bt.slot, s.gen, !bt.noToken)
		bt.script = CallScript(e.cnr, "put", bt.cnrBlob, bytes.Repeat([]byte{7}, 64), bt.cnrPub, token)
		e.finish(bt, "")
	case stCnrDelete:
		bt.slot = op.B % 3
		s := e.m.slots[bt.slot]
		h := sha256.Sum256(e.containerBlob(bt.slot, s.gen))
		bt.cid = h[:]
		bt.signers = []Signer{w.Alphabet}
		bt.desc = fmt.Sprintf("container.delete(slot%d gen%d)", bt.slot, s.gen)
		bt.script = CallScript(e.cnr, "delete", bt.cid, bytes.Repeat([]byte{7}, 64), []byte("session-token"))
		e.finish(bt, "")
	default:
		harnessf("unknown op kind %d", op.Kind)
	}
	return bt
}

func (e *stEngine) finish(bt *stTx, fault string) {
	sysFee := int64(-1)
	if bt.op.GasCut > 0 {
		p := e.world(bt).WhatIf(bt.script, bt.signers, 1)
		if p.State == vmstate.Halt && p.GAS > 0 {
			sysFee = p.GAS * int64(bt.op.GasCut) / 100
			bt.gasCut = true
			bt.desc += fmt.Sprintf(" [GAS cut to %d%%]", bt.op.GasCut)
			e.r.Inject("gas.cut")
		}
	}
	bt.tx = e.world(bt).Tx(bt.script, bt.signers, sysFee)
	bt.fault = fault
	if fault != "" {
		e.r.Inject(fault)
	}
}

func (e *stEngine) world(bt *stTx) *World {
	if bt.mc {
		return e.w2
	}
	return e.w
}

func (e *stEngine) storageDigest(c string) string {
	if c == "neofs" {
		return e.w2.StorageDigest(e.w2.C[c].ID)
	}
	return e.w.StorageDigest(e.w.C[c].ID)
}

func (e *stEngine) alpha(bt *stTx, depth int) bool {
	return Witness(bt.signers, e.w.Alphabet.Hash.BytesBE(), depth)
}

// predict: what the statement (and the methods' documentation) says the
// transaction must do in the current model state, and how a success changes the
// model. touched lists the contracts whose storage a success may change.
func (e *stEngine) predict(bt *stTx) (exp stExpect, apply func(), touched []string) {
	m := e.m
	switch bt.kind {
	case stRepPut:
		// Reputation.put → Alphabet (Appendix A); every accepted value is kept
		if !e.alpha(bt, 0) {
			return stMustRefuse, nil, nil
		}
		return stMustSucceed, func() {
			k := stRepKey{bt.epoch, bt.peer}
			if len(m.rep[k]) > 0 {
				e.r.Count("probe.rep_second_value_same_id")
			}
			m.rep[k] = append(m.rep[k], bt.value)
		}, []string{"reputation"}
	case stAudPut:
		// Audit.put → witness of the reporter key inside the result ∧ the key
		// holds the NeoFSAlphabet role (as of this block)
		member := bt.ir < 4 && m.irActive&(1<<bt.ir) != 0
		wit := Witness(bt.signers, e.irs[bt.ir].GetScriptHash().BytesBE(), 0)
		if member != (bt.ir < 4 && m.irPending&(1<<bt.ir) != 0) {
			e.r.Count("probe.audit_put_in_block_of_designation")
		}
		if !member || !wit {
			if wit {
				e.r.Count("probe.audit_witnessed_non_member")
			}
			return stMustRefuse, nil, nil
		}
		return stMustSucceed, func() {
			k := stAudKey{bt.epoch, bt.cidIdx, bt.ir}
			if _, ok := m.aud[k]; ok {
				e.r.Count("probe.audit_overwrite_same_id")
			}
			m.aud[k] = bt.blob
		}, []string{"audit"}
	case stEstPut:
		// putContainerSize → container exists ∧ witness of pubKey ∧ node in the
		// previous epoch's network map
		s := m.slots[bt.slot]
		exists := s.live && bytes.Equal(s.cid, bt.cid)
		wit := Witness(bt.signers, e.nodes[bt.node].GetScriptHash().BytesBE(), 0)
		legacy, v2 := m.prevLegacy[bt.node], m.prevV2[bt.node]
		if exists && wit && !legacy && !v2 && (m.curLegacy[bt.node] || m.candLegacy[bt.node]) {
			e.r.Count("probe.est_node_only_in_current_map_or_candidates")
		}
		if exists && wit && (legacy || v2) && !m.curLegacy[bt.node] && !m.curV2[bt.node] {
			e.r.Count("probe.est_node_only_in_previous_map")
		}
		if !exists || !wit || !(legacy || v2) {
			return stMustRefuse, nil, nil
		}
		exp = stMustSucceed
		if !legacy {
			exp = stDontCare // don't-care zone: structured-only member, see the head of the file
		}
		return exp, func() {
			if !legacy {
				e.r.Count("probe.est_v2_only_accepted")
			}
			k := stEstKey{bt.epoch, string(bt.cid), bt.node}
			if _, ok := m.est[k]; ok {
				e.r.Count("probe.est_overwrite")
			}
			m.est[k] = bt.size
			// the node's own older estimations for this container
			for _, o := range m.estKeys() {
				if o.cid != k.cid || o.node != k.node || o.e == k.e {
					continue
				}
				e.cleaned = true
				switch d := bt.epoch - o.e; {
				case d > stCleanupDelta:
					delete(m.est, o)
					e.removed = append(e.removed, o)
					e.r.Count("probe.est_put_removed_older")
					if d == stCleanupDelta+1 {
						e.r.Count("probe.est_put_removed_at_delta_plus_1")
					}
				case d == stCleanupDelta:
					e.r.Count("probe.est_put_kept_at_delta")
				}
			}
		}, []string{"container"}
	case stTick:
		if !e.alpha(bt, 0) || bt.epoch <= m.epoch {
			return stMustRefuse, nil, nil
		}
		exp = stMustSucceed
		if !e.alpha(bt, 1) {
			exp = stDontCare // don't-care zone: CalledByEntry tick, see the head of the file
		}
		return exp, func() {
			m.prevLegacy, m.prevV2 = m.curLegacy, m.curV2
			m.curLegacy, m.curV2 = stCopySet(m.candLegacy), stCopySet(m.candV2)
			m.epoch = bt.epoch
			e.cleanup(bt.epoch)
		}, []string{"netmap", "container"}
	case stCnrEpoch:
		if !e.alpha(bt, 0) {
			return stMustRefuse, nil, nil
		}
		return stMustSucceed, func() { e.cleanup(bt.epoch) }, []string{"container"}
	case stIDAdd, stIDRemove:
		okArgs := len(bt.owner) == 25
		for _, k := range bt.keys {
			okArgs = okArgs && len(k) == 33
		}
		if !okArgs || !e.alpha(bt, 0) {
			return stMustRefuse, nil, nil
		}
		return stMustSucceed, func() {
			set := m.ids[bt.ownerIx]
			for _, k := range bt.keys {
				switch {
				case bt.kind == stIDAdd && set[string(k)]:
					e.r.Count("probe.neofsid_add_bound_key")
				case bt.kind == stIDRemove && !set[string(k)]:
					e.r.Count("probe.neofsid_remove_unbound_key")
				}
				if bt.kind == stIDAdd {
					set[string(k)] = true
				} else {
					delete(set, string(k))
				}
			}
		}, []string{"neofsid"}
	case stCfgSet:
		if !e.alpha(bt, 0) {
			return stMustRefuse, nil, nil
		}
		return stMustSucceed, func() {
			if _, ok := m.cfg[bt.cfgIx][bt.cfgKey]; ok {
				e.r.Count("probe.config_overwrite")
			}
			m.cfg[bt.cfgIx][bt.cfgKey] = bt.cfgVal
		}, []string{stCfgName[bt.cfgIx]}

	// ---- environment (don't-care zone: outcome from the application log) ----
	case stNodeAdd:
		return stDontCare, func() {
			if bt.regKind == 0 {
				m.candLegacy[bt.node] = true
			} else {
				m.candV2[bt.node] = true
			}
		}, []string{"netmap"}
	case stNodeRemove:
		return stDontCare, func() {
			delete(m.candLegacy, bt.node)
			delete(m.candV2, bt.node)
		}, []string{"netmap"}
	case stDesignate:
		return stDontCare, func() { m.irPending, m.irDesignated = bt.mask, true }, nil
	case stCnrPut:
		return stDontCare, func() {
			s := &m.slots[bt.slot]
			h := sha256.Sum256(bt.cnrBlob)
			s.live, s.cid = true, h[:]
			if bt.noToken {
				// "if container created directly without session": the key is bound
				// to the owner in NeoFSID
				m.ids[bt.slot%3][string(bt.cnrPub)] = true
				e.r.Count("probe.neofsid_bound_by_container_put")
			}
		}, []string{"container", "neofsid"}
	case stCnrDelete:
		return stDontCare, func() {
			s := &m.slots[bt.slot]
			if s.live && bytes.Equal(s.cid, bt.cid) {
				s.live, s.cid = false, nil
				s.gen++
				e.r.Count("probe.container_deleted")
			}
		}, []string{"container"}
	}
	harnessf("unknown op kind")
	return stDontCare, nil, nil
}

// cleanup: "estimation will be removed by epoch tick cleanup" once it is older
// than TotalCleanupDelta epochs.
func (e *stEngine) cleanup(epoch int64) {
	e.cleaned = true
	for _, k := range e.m.estKeys() {
		switch d := epoch - k.e; {
		case d > stTotalCleanupDelta:
			delete(e.m.est, k)
			e.removed = append(e.removed, k)
			e.r.Count("probe.est_tick_removed")
			if d == stTotalCleanupDelta+1 {
				e.r.Count("probe.est_tick_removed_at_delta_plus_1")
			}
		case d == stTotalCleanupDelta:
			e.r.Count("probe.est_tick_kept_at_delta")
		}
	}
}

// block executes the pending transactions as one block and runs all oracles.
func (e *stEngine) block(pending []*stTx, dt uint64) {
	r, w, m := e.r, e.w, e.m
	e.blockNo++
	e.removed, e.cleaned = nil, false
	// the transactions for the NeoFS chain go into a block there (same order)
	var txs, txs2 []*transaction.Transaction
	for _, bt := range pending {
		if bt.mc {
			txs2 = append(txs2, bt.tx)
		} else {
			txs = append(txs, bt.tx)
		}
	}
	res := w.AddBlock(txs, dt)
	// another check may have put blocks of its own (contract upgrades) in front
	// of this one: the chain tells
	foreignBlocks := w.Height() != e.top+1
	e.top = w.Height()
	var res2 []*state.AppExecResult
	if len(txs2) > 0 {
		res2 = e.w2.AddBlock(txs2, dt)
	}
	aers := make([]*state.AppExecResult, len(pending))
	for i, bt := range pending {
		if bt.mc {
			aers[i], res2 = res2[0], res2[1:]
		} else {
			aers[i], res = res[0], res[1:]
		}
	}
	r.AddBlock(len(pending), dt)
	if len(pending) > 1 {
		r.Inject("sched.pack")
		r.Fired("sched.pack")
	}
	touched := map[string]bool{}
	for i, bt := range pending {
		aer := aers[i]
		exp, apply, tch := e.predict(bt)
		took := aer.VMState == vmstate.Halt
		outcome := "refused"
		if took {
			outcome = "ok"
		}
		if bt.gasCut && !took && GasFault(aer.FaultException) {
			r.Fired("gas.cut")
			outcome = "gasfault"
			exp = stMustRefuse
		}
		if bt.fault != "" {
			r.Fired(bt.fault)
		}
		r.Tok(stKindName[bt.kind], bt.fault, outcome)
		r.Count("outcome." + stKindName[bt.kind] + "." + outcome)
		r.Cell("C20.op-outcome", stKindName[bt.kind]+"/"+outcome)
		r.Tracef("h=%d tx%d %s signers=%s fault=%s → %s %s", e.world(bt).Height(), i, bt.desc, signerNames(bt.signers), bt.fault, aer.VMState, clipStr(aer.FaultException, 90))
		switch {
		case exp == stMustRefuse && took:
			rule := "C20/accepted-what-must-be-refused"
			switch bt.kind {
			case stEstPut:
				rule = "C20/estimation-accepted-from-outsider"
				if sl := m.slots[bt.slot]; !sl.live || !bytes.Equal(sl.cid, bt.cid) {
					rule = "C20/estimation-accepted-for-missing-container"
				} else if !Witness(bt.signers, e.nodes[bt.node].GetScriptHash().BytesBE(), 0) {
					rule = "C20/estimation-accepted-without-node-witness"
				}
			case stAudPut:
				rule = "C20/audit-accepted-from-non-member"
				if bt.ir < 4 && m.irActive&(1<<bt.ir) != 0 {
					rule = "C20/audit-accepted-without-reporter-witness"
				}
			case stRepPut:
				rule = "C20/reputation-put-without-alphabet"
			case stIDAdd, stIDRemove:
				rule = "C20/neofsid-accepted-what-must-be-refused"
			case stCfgSet:
				rule = "C20/config-set-without-alphabet"
			case stCnrEpoch:
				rule = "C20/cleanup-without-alphabet"
			case stTick:
				rule = "C06/tick-accepted-what-must-be-refused"
			}
			r.ViolationSynced(rule, "", "%s by %s succeeded", bt.desc, signerNames(bt.signers))
			// follow the implementation so that the remaining monitors still see it
			if apply == nil {
				apply, tch = e.force(bt)
			}
		case exp == stMustSucceed && !took && !bt.gasCut:
			rule := "C20/store-refused-valid-put"
			if bt.kind == stTick {
				rule = "C06/tick-refused"
			}
			r.ViolationSynced(rule, "", "%s by %s refused: %s", bt.desc, signerNames(bt.signers), aer.FaultException)
		}
		if bt.kind == stEstPut && exp == stDontCare && !took {
			r.Count("probe.est_v2_only_refused")
		}
		if !took {
			continue
		}
		apply()
		for _, c := range tch {
			touched[c] = true
		}
		if bt.kind != stDesignate {
			r.Changed()
		}
		if bt.kind == stTick {
			r.AddEpochs(1)
		}
		if !bt.replay && bt.kind <= stCfgSet {
			e.lastOK = bt
		}
		if bt.kind <= stRepPut {
			r.Cell("C20.put-epoch", fmt.Sprintf("%s/%d", stKindName[bt.kind], bt.epoch))
		}
	}
	if m.irDesignated {
		m.irActive, m.irDesignated = m.irPending, false
	}
	m.irPending = m.irActive

	// ---- layer 2: storage of a contract nobody legitimately wrote to is unchanged
	for _, c := range stContracts {
		d := e.storageDigest(c)
		if !touched[c] && d != e.digest[c] && !foreignBlocks {
			r.Violation("C20/storage-changed-without-accepted-operation", "", "%s storage changed in block %d although no operation on it took effect", c, w.Height())
		}
		e.digest[c] = d
	}
	// ---- layer 3: every getter and lister equals the model
	e.sweep()
	r.Checkpoint()
}

// force gives the effects of an operation the model refuses (only to keep
// following the implementation after a violation of another property's rule).
func (e *stEngine) force(bt *stTx) (func(), []string) {
	m := e.m
	if bt.kind == stTick {
		return func() {
			m.prevLegacy, m.prevV2 = m.curLegacy, m.curV2
			m.curLegacy, m.curV2 = stCopySet(m.candLegacy), stCopySet(m.candV2)
			m.epoch = bt.epoch
			e.cleanup(bt.epoch)
		}, []string{"netmap", "container"}
	}
	return func() {}, nil
}

// ---------------------------------------------------------------------------
// Read-API sweep

type stQuery struct {
	h      util.Uint160
	method string
	args   []any
}

type stSweep struct {
	w   *World
	qs  []stQuery
	res []stackitem.Item
	err []string
}

func (s *stSweep) add(h util.Uint160, method string, args ...any) int {
	s.qs = append(s.qs, stQuery{h, method, args})
	return len(s.qs) - 1
}

// run executes the queries not yet answered, many per test-VM invocation. A
// query that FAULTs is re-run alone and reported with its error.
func (s *stSweep) run() {
	chunk := 24
	if ReadHook != nil {
		// somebody (C03) looks at every what-if execution and recognises scripts
		// built by CallScript only: one call per execution then
		chunk = 1
	}
	w := s.w
	for start := len(s.res); start < len(s.qs); start += chunk {
		end := start + chunk
		if end > len(s.qs) {
			end = len(s.qs)
		}
		var script []byte
		for _, q := range s.qs[start:end] {
			script = append(script, CallScript(q.h, q.method, q.args...)...)
		}
		p := w.WhatIf(script, nil, 0)
		if p.State == vmstate.Halt && len(p.Stack) == end-start {
			for _, it := range p.Stack {
				s.res = append(s.res, it)
				s.err = append(s.err, "")
			}
			continue
		}
		for _, q := range s.qs[start:end] {
			it, err := w.Read(q.h, q.method, q.args...)
			if err != nil {
				s.res = append(s.res, stackitem.Null{})
				s.err = append(s.err, err.Error())
				continue
			}
			s.res = append(s.res, it)
			s.err = append(s.err, "")
		}
	}
}

func (s *stSweep) bytesList(i int) [][]byte {
	var out [][]byte
	for _, it := range ItemArr(s.res[i]) {
		out = append(out, ItemBytes(it))
	}
	return out
}

// stSub returns the multiset difference a − b, sorted.
func stSub(a, b []string) []string {
	cnt := map[string]int{}
	for _, x := range b {
		cnt[x]++
	}
	var out []string
	for _, x := range a {
		if cnt[x] > 0 {
			cnt[x]--
			continue
		}
		out = append(out, x)
	}
	sort.Strings(out)
	return out
}

func stShow(l []string) string {
	var sb strings.Builder
	sb.WriteString("{")
	for i, x := range l {
		if i > 0 {
			sb.WriteString(", ")
		}
		if i == 8 {
			fmt.Fprintf(&sb, "… %d more", len(l)-i)
			break
		}
		sb.WriteString(clipStr(fmt.Sprintf("%q", x), 70))
	}
	return sb.String() + "}"
}

// stEntry is one thing the model holds, as one kind of query sees it: the epoch
// it was put under, the identifier string that follows the epoch in the
// documented key format, and the comparable units it contributes to an answer.
type stEntry struct {
	e     int64
	tail  []byte
	units []string
}

// stClassify splits the model's entries for a query (epoch qe, identifier string
// qtail, must[i] = entry i is what the query asks for) into: what must be
// returned; "forward": what is stored under an epoch whose encoding strictly
// extends enc(qe) such that the documented key string <epoch><identifier…>
// starts with <qe><qtail> (the finding the property text names: 1 ⊂ 257, 0 ⊂
// everything); "reverse": what is stored under an epoch whose encoding is a
// strict prefix of enc(qe) while the first bytes of its identifier complete
// <qe><qtail> (an id put under epoch 0 for a peer whose key starts with 0x02
// answers a query for epoch 2).
func stClassify(entries []stEntry, qe int64, qtail []byte, must func(i int) bool) (want, fwd, rev []string) {
	q := append(append([]byte{}, stEnc(qe)...), qtail...)
	for i, en := range entries {
		switch {
		case must(i):
			want = append(want, en.units...)
		case en.e != qe && bytes.HasPrefix(append(append([]byte{}, stEnc(en.e)...), en.tail...), q):
			if stProperPrefix(stEnc(qe), stEnc(en.e)) {
				fwd = append(fwd, en.units...)
			} else {
				rev = append(rev, en.units...)
			}
		}
	}
	return
}

// judge compares one answer of the read API with the model. got and want are
// multisets of comparable units; fwd and rev come from stClassify (nil where the
// query has no epoch). The known-finding matcher is narrow: nothing is missing
// and every extra unit is an entry stored under another epoch whose documented
// key string starts with the query's. Everything else is a plain violation.
func (e *stEngine) judge(method, rule, query string, got, want, fwd, rev []string) {
	miss, extra := stSub(want, got), stSub(got, want)
	if len(miss) == 0 && len(extra) == 0 {
		return
	}
	if both := append(append([]string{}, fwd...), rev...); len(miss) == 0 && len(both) > 0 && len(stSub(extra, both)) == 0 {
		// Deferred: a known finding ends the run, so every strict check of this
		// sweep gets its chance first.
		if len(stSub(extra, fwd)) == 0 {
			e.r.Count("probe.prefix_listing." + method)
			e.known = append(e.known, stKnown{"epoch-prefix-listing:" + method, fmt.Sprintf(
				"%s returns, besides the %d entries put under it, %d entries put under epochs whose encoding extends the queried one: %s", query, len(want), len(extra), stShow(extra))})
			return
		}
		e.r.Count("probe.prefix_listing_reverse." + method)
		e.known = append(e.known, stKnown{"epoch-prefix-listing-reverse:" + method, fmt.Sprintf(
			"%s returns, besides the %d entries put under it, %d entries of other epochs, at least one put under an epoch whose encoding is a prefix of the queried one (the first bytes of its identifier complete the queried encoding): %s", query, len(want), len(extra), stShow(extra))})
		return
	}
	e.r.Violation(rule, "", "%s: missing %s unexpected %s (model has %d, contract returned %d)", query, stShow(miss), stShow(extra), len(want), len(got))
}

func (e *stEngine) peerIndex(p []byte) int {
	for i, q := range e.peers {
		if bytes.Equal(p, q) {
			return i
		}
	}
	return -1
}

func (e *stEngine) nodeIndex(p []byte) string {
	for i, k := range e.nodes {
		if bytes.Equal(p, k.PublicKey().Bytes()) {
			return fmt.Sprintf("node%d", i)
		}
	}
	return fmt.Sprintf("?%x", p)
}

// repUnit decodes a reputation id ('<epoch><peer>', peer = 33 bytes).
func (e *stEngine) repUnit(id []byte) (stRepKey, string) {
	if len(id) >= 33 {
		if ep, ok := stDec(id[:len(id)-33]); ok {
			if p := e.peerIndex(id[len(id)-33:]); p >= 0 {
				return stRepKey{ep, p}, fmt.Sprintf("epoch %d/peer%d", ep, p)
			}
		}
	}
	return stRepKey{-1, -1}, fmt.Sprintf("?%x", id)
}

// audUnit decodes an audit id ('<epoch><cid><24 bytes of SHA-256(key)>').
func (e *stEngine) audUnit(id []byte) (stAudKey, string) {
	if len(id) >= 56 {
		ep, ok := stDec(id[:len(id)-56])
		c, k := -1, -1
		for i, cid := range e.audCids {
			if bytes.Equal(cid, id[len(id)-56:len(id)-24]) {
				c = i
			}
		}
		for i, key := range e.irs {
			h := sha256.Sum256(key.PublicKey().Bytes())
			if bytes.Equal(h[:24], id[len(id)-24:]) {
				k = i
			}
		}
		if ok && c >= 0 && k >= 0 {
			return stAudKey{ep, c, k}, stAudStr(stAudKey{ep, c, k})
		}
	}
	return stAudKey{-1, -1, -1}, fmt.Sprintf("?%x", id)
}

func stAudStr(k stAudKey) string { return fmt.Sprintf("epoch %d/cid%d/ir%d", k.e, k.c, k.rep) }

func stEstStr(k stEstKey, size int64) string {
	return fmt.Sprintf("epoch %d/cid %.4x/node%d/size %d", k.e, k.cid, k.node, size)
}

func (e *stEngine) estimations(it stackitem.Item) []string {
	var out []string
	for _, x := range ItemArr(it) {
		f := ItemArr(x)
		if len(f) != 2 {
			out = append(out, "?malformed estimation")
			continue
		}
		out = append(out, fmt.Sprintf("%s/size %s", e.nodeIndex(ItemBytes(f[0])), ItemInt(f[1])))
	}
	return out
}

func (e *stEngine) sweep() {
	r, m := e.r, e.m
	s, s2 := &stSweep{w: e.w}, &stSweep{w: e.w2}
	rot := func(i, n int) int { return (e.blockNo*7 + i) % n }

	// ---------------- plan ----------------
	qEpoch := s.add(e.nm, "epoch")
	qSnap1 := s.add(e.nm, "snapshot", int64(1))
	qSnap0 := s.add(e.nm, "netmap")
	cfgProbe := append([]string{"ContainerFee", "ContainerAliasFee", "ContainerFe", "C", "ABCD", "WithdrawFee", "Withdraw"}, e.cfgKeys...)
	var qListCfg [2]int
	var qCfg [2][]int
	cfgSweep := []*stSweep{s, s2}
	for ix, h := range []util.Uint160{e.nm, e.nfs} {
		qListCfg[ix] = cfgSweep[ix].add(h, "listConfig")
		for _, k := range cfgProbe {
			qCfg[ix] = append(qCfg[ix], cfgSweep[ix].add(h, "config", []byte(k)))
		}
	}
	qKey := make([]int, 3)
	for i := range e.owners {
		qKey[i] = s.add(e.nid, "key", e.owners[i])
	}
	// per-epoch listers
	qRepList := make([]int, len(e.used))
	qAudEpoch := make([]int, len(e.used))
	qEstList := make([]int, len(e.used))
	qEstAll := make([]int, len(e.used))
	for i, ep := range e.used {
		qRepList[i] = s.add(e.rep, "listByEpoch", ep)
		qAudEpoch[i] = s.add(e.aud, "listByEpoch", ep)
		qEstList[i] = s.add(e.cnr, "listContainerSizes", ep)
		qEstAll[i] = s.add(e.cnr, "iterateAllContainerSizes", ep)
	}
	qAudList := s.add(e.aud, "list")
	// reputation.get: every stored pair, plus pairs nothing is stored under
	repPairs := m.repKeys()
	seenRep := map[stRepKey]bool{}
	for _, k := range repPairs {
		seenRep[k] = true
	}
	if e.crafted {
		for _, ep := range e.used {
			for p := range e.peers {
				if k := (stRepKey{ep, p}); !seenRep[k] {
					seenRep[k] = true
					repPairs = append(repPairs, k)
				}
			}
		}
	} else {
		for i := 0; i < 4; i++ {
			if k := (stRepKey{e.used[rot(i, len(e.used))], rot(i*3, len(e.peers))}); !seenRep[k] {
				seenRep[k] = true
				repPairs = append(repPairs, k)
			}
		}
	}
	qRepGet := make([]int, len(repPairs))
	for i, k := range repPairs {
		qRepGet[i] = s.add(e.rep, "get", k.e, e.peers[k.p])
	}
	// audit.listByCID / listByNode
	type audPair struct {
		e int64
		c int
	}
	var audPairs []audPair
	seenAP := map[audPair]bool{}
	audTriples := m.audKeys()
	seenAT := map[stAudKey]bool{}
	for _, k := range audTriples {
		seenAT[k] = true
		if p := (audPair{k.e, k.c}); !seenAP[p] {
			seenAP[p] = true
			audPairs = append(audPairs, p)
		}
	}
	if e.crafted {
		for _, ep := range e.used {
			for c := range e.audCids {
				if p := (audPair{ep, c}); !seenAP[p] {
					seenAP[p] = true
					audPairs = append(audPairs, p)
				}
			}
		}
	}
	for i := 0; i < 3; i++ {
		ep := e.used[rot(i, len(e.used))]
		if p := (audPair{ep, rot(i*5, len(e.audCids))}); !seenAP[p] {
			seenAP[p] = true
			audPairs = append(audPairs, p)
		}
		if k := (stAudKey{ep, rot(i*5, len(e.audCids)), rot(i*3, len(e.irs))}); !seenAT[k] {
			seenAT[k] = true
			audTriples = append(audTriples, k)
		}
	}
	qAudCID := make([]int, len(audPairs))
	for i, p := range audPairs {
		qAudCID[i] = s.add(e.aud, "listByCID", p.e, e.audCids[p.c])
	}
	qAudNode := make([]int, len(audTriples))
	for i, k := range audTriples {
		qAudNode[i] = s.add(e.aud, "listByNode", k.e, e.audCids[k.c], e.irs[k.rep].PublicKey().Bytes())
	}
	// container.iterateContainerSizes
	type estPair struct {
		e   int64
		cid string
	}
	var estPairs []estPair
	seenEP := map[estPair]bool{}
	addEP := func(p estPair) {
		if !seenEP[p] && len(p.cid) == 32 {
			seenEP[p] = true
			estPairs = append(estPairs, p)
		}
	}
	for _, k := range m.estKeys() {
		addEP(estPair{k.e, k.cid})
	}
	for _, k := range e.removed {
		addEP(estPair{k.e, k.cid})
	}
	for i := 0; i < 3; i++ {
		if sl := m.slots[rot(i, 3)]; sl.live {
			addEP(estPair{e.used[rot(i*3, len(e.used))], string(sl.cid)})
		}
	}
	qEstIter := make([]int, len(estPairs))
	for i, p := range estPairs {
		qEstIter[i] = s.add(e.cnr, "iterateContainerSizes", p.e, []byte(p.cid))
	}
	s.run()
	s2.run()
	for _, sw := range cfgSweep {
		for i, msg := range sw.err {
			if msg != "" {
				r.Violation("C20/getter-fault", "", "%s%v FAULTs: %s", sw.qs[i].method, sw.qs[i].args, msg)
			}
		}
	}

	// ---------------- netmap model in sync? (not C20's business) ----------------
	if ep := ItemInt(s.res[qEpoch]).Int64(); ep != m.epoch {
		r.Violation("C06/epoch", "", "epoch %d model %d", ep, m.epoch)
	}
	for _, c := range []struct {
		q    int
		want map[int]bool
		name string
	}{{qSnap1, m.prevLegacy, "snapshot(1)"}, {qSnap0, m.curLegacy, "netmap()"}} {
		var got, want []string
		for _, n := range ItemArr(s.res[c.q]) {
			f := ItemArr(n)
			if b := ItemBytes(f[0]); len(b) >= 35 {
				got = append(got, e.nodeIndex(b[2:35]))
			}
		}
		for i := 0; i < 4; i++ {
			if c.want[i] {
				want = append(want, fmt.Sprintf("node%d", i))
			}
		}
		if len(stSub(got, want)) != 0 || len(stSub(want, got)) != 0 {
			r.Violation("C07/netmap-model-desync", "", "%s = %v, model %v", c.name, got, want)
		}
	}

	// ---------------- configuration maps of Netmap and NeoFS ----------------
	for ix, name := range stCfgName {
		var got, want []string
		for _, rec := range ItemArr(cfgSweep[ix].res[qListCfg[ix]]) {
			f := ItemArr(rec)
			if len(f) != 2 {
				got = append(got, "?malformed record")
				continue
			}
			got = append(got, fmt.Sprintf("%q=%q", ItemBytes(f[0]), ItemBytes(f[1])))
		}
		var ks []string
		for k := range m.cfg[ix] {
			ks = append(ks, k)
		}
		sort.Strings(ks)
		for _, k := range ks {
			want = append(want, fmt.Sprintf("%q=%q", k, m.cfg[ix][k]))
		}
		e.judge(name+".listConfig", "C20/config-mismatch", name+".listConfig()", got, want, nil, nil)
		for i, k := range cfgProbe {
			it := cfgSweep[ix].res[qCfg[ix][i]]
			v, ok := m.cfg[ix][k]
			_, isNull := it.(stackitem.Null)
			switch {
			case !ok && !isNull:
				r.Violation("C20/config-mismatch", "", "%s.config(%q) = %q, nothing was ever set under this key", name, k, ItemBytes(it))
			case ok && isNull:
				r.Violation("C20/config-mismatch", "", "%s.config(%q) = null, expected %q", name, k, v)
			case ok && string(ItemBytes(it)) != v:
				r.Violation("C20/config-mismatch", "", "%s.config(%q) = %q, expected %q", name, k, ItemBytes(it), v)
			}
		}
	}

	// ---------------- NeoFSID ----------------
	for i := range e.owners {
		var got, want []string
		for _, k := range s.bytesList(qKey[i]) {
			got = append(got, fmt.Sprintf("%x", k))
		}
		for k := range m.ids[i] {
			want = append(want, fmt.Sprintf("%x", k))
		}
		sort.Strings(want)
		e.judge("neofsid.key", "C20/neofsid-keys-mismatch", fmt.Sprintf("neofsid.key(owner%d)", i), got, want, nil, nil)
	}

	// ---------------- Reputation ----------------
	var repByID, repByVal []stEntry // one entry per (epoch, peer): as an id / as its values
	repKeys := m.repKeys()
	for _, k := range repKeys {
		repByID = append(repByID, stEntry{k.e, e.peers[k.p], []string{fmt.Sprintf("epoch %d/peer%d", k.e, k.p)}})
		repByVal = append(repByVal, stEntry{k.e, e.peers[k.p], m.rep[k]})
	}
	repIDs := map[string][]byte{} // unit → id, for getByID
	var repIDOrder []string
	for i, ep := range e.used {
		var got []string
		for _, id := range s.bytesList(qRepList[i]) {
			_, u := e.repUnit(id)
			got = append(got, u)
			if _, ok := repIDs[u]; !ok {
				repIDs[u] = id
				repIDOrder = append(repIDOrder, u)
			}
		}
		want, fwd, rev := stClassify(repByID, ep, nil, func(i int) bool { return repKeys[i].e == ep })
		e.judge("reputation.listByEpoch", "C20/reputation-list-mismatch", fmt.Sprintf("reputation.listByEpoch(%d)", ep), got, want, fwd, rev)
	}
	for i, k := range repPairs {
		var got []string
		for _, v := range s.bytesList(qRepGet[i]) {
			got = append(got, string(v))
		}
		want, fwd, rev := stClassify(repByVal, k.e, e.peers[k.p], func(i int) bool { return repKeys[i] == k })
		e.judge("reputation.get", "C20/reputation-get-mismatch", fmt.Sprintf("reputation.get(%d, peer%d)", k.e, k.p), got, want, fwd, rev)
	}

	// ---------------- Audit ----------------
	audKeys := m.audKeys()
	var audEntries []stEntry
	audTail := func(c, rep int) []byte {
		h := sha256.Sum256(e.irs[rep].PublicKey().Bytes())
		return append(append([]byte{}, e.audCids[c]...), h[:24]...)
	}
	for _, k := range audKeys {
		audEntries = append(audEntries, stEntry{k.e, audTail(k.c, k.rep), []string{stAudStr(k)}})
	}
	audIDs := map[string][]byte{}
	var audIDOrder []string
	audList := func(q int) []string {
		var got []string
		for _, id := range s.bytesList(q) {
			_, u := e.audUnit(id)
			got = append(got, u)
			if _, ok := audIDs[u]; !ok {
				audIDs[u] = id
				audIDOrder = append(audIDOrder, u)
			}
		}
		return got
	}
	{
		var want []string
		for _, k := range audKeys {
			want = append(want, stAudStr(k))
		}
		e.judge("audit.list", "C20/audit-list-mismatch", "audit.list()", audList(qAudList), want, nil, nil)
	}
	for i, ep := range e.used {
		want, fwd, rev := stClassify(audEntries, ep, nil, func(i int) bool { return audKeys[i].e == ep })
		e.judge("audit.listByEpoch", "C20/audit-list-mismatch", fmt.Sprintf("audit.listByEpoch(%d)", ep), audList(qAudEpoch[i]), want, fwd, rev)
	}
	for i, p := range audPairs {
		want, fwd, rev := stClassify(audEntries, p.e, e.audCids[p.c], func(i int) bool { return audKeys[i].e == p.e && audKeys[i].c == p.c })
		e.judge("audit.listByCID", "C20/audit-list-mismatch", fmt.Sprintf("audit.listByCID(%d, cid%d)", p.e, p.c), audList(qAudCID[i]), want, fwd, rev)
	}
	for i, t := range audTriples {
		want, fwd, rev := stClassify(audEntries, t.e, audTail(t.c, t.rep), func(i int) bool { return audKeys[i] == t })
		e.judge("audit.listByNode", "C20/audit-list-mismatch", fmt.Sprintf("audit.listByNode(%d, cid%d, ir%d)", t.e, t.c, t.rep), audList(qAudNode[i]), want, fwd, rev)
	}

	// ---------------- Container size estimations ----------------
	estRule := "C20/estimation-list-mismatch"
	if e.cleaned {
		estRule = "C20/cleanup-mismatch" // a clean-up ran in this block
	}
	estKeys := m.estKeys()
	groupStr := func(ep int64, cid string) string { return fmt.Sprintf("epoch %d/cid %.4x", ep, cid) }
	var estGroups, estFull, estShort []stEntry // per (epoch, cid) group; per entry, fully named; per entry, node and size only
	var estGroupEpoch []int64
	seenGroup := map[estPair]bool{}
	for _, k := range estKeys {
		if g := (estPair{k.e, k.cid}); !seenGroup[g] {
			seenGroup[g] = true
			estGroups = append(estGroups, stEntry{k.e, []byte(k.cid), []string{groupStr(k.e, k.cid)}})
			estGroupEpoch = append(estGroupEpoch, k.e)
		}
		estFull = append(estFull, stEntry{k.e, []byte(k.cid), []string{stEstStr(k, m.est[k])}})
		estShort = append(estShort, stEntry{k.e, []byte(k.cid), []string{fmt.Sprintf("node%d/size %d", k.node, m.est[k])}})
	}
	estIDs := map[string][]byte{}
	var estIDOrder []string
	for i, ep := range e.used {
		// listContainerSizes: ids 'cnr<epoch><cid>'
		var got []string
		for _, id := range s.bytesList(qEstList[i]) {
			u := fmt.Sprintf("?%x", id)
			if len(id) >= 35 && string(id[:3]) == "cnr" {
				if ie, ok := stDec(id[3 : len(id)-32]); ok {
					u = groupStr(ie, string(id[len(id)-32:]))
				}
			}
			got = append(got, u)
			if _, ok := estIDs[u]; !ok {
				estIDs[u] = id
				estIDOrder = append(estIDOrder, u)
			}
		}
		want, fwd, rev := stClassify(estGroups, ep, nil, func(i int) bool { return estGroupEpoch[i] == ep })
		e.judge("container.listContainerSizes", estRule, fmt.Sprintf("container.listContainerSizes(%d)", ep), got, want, fwd, rev)
		// iterateAllContainerSizes: (key, Estimation) pairs, "keys having container
		// ID as a prefix"; an entry stored under an extending epoch shows the rest
		// of its epoch's encoding in front of the container id
		got = nil
		for _, kv := range ItemArr(s.res[qEstAll[i]]) {
			f := ItemArr(kv)
			if len(f) != 2 || len(ItemArr(f[1])) != 2 {
				got = append(got, "?malformed pair")
				continue
			}
			key, est := ItemBytes(f[0]), ItemArr(f[1])
			u := fmt.Sprintf("?%x", key)
			enc := stEnc(ep)
			switch d := 42 - len(key); {
			case d <= 0:
				x := key[:-d]
				if ie, ok := stDec(append(append([]byte{}, enc...), x...)); ok {
					u = fmt.Sprintf("epoch %d/cid %.4x/%s/size %s", ie, key[len(x):len(x)+32], e.nodeIndex(ItemBytes(est[0])), ItemInt(est[1]))
				}
			case d <= len(enc):
				// the key is too short for <cid><10 bytes>: the queried epoch's
				// encoding has swallowed the first d bytes of the container id of an
				// entry stored under a shorter epoch encoding
				if ie, ok := stDec(enc[:len(enc)-d]); ok {
					cid := append(append([]byte{}, enc[len(enc)-d:]...), key[:32-d]...)
					u = fmt.Sprintf("epoch %d/cid %.4x/%s/size %s", ie, cid, e.nodeIndex(ItemBytes(est[0])), ItemInt(est[1]))
				}
			}
			got = append(got, u)
		}
		want, fwd, rev = stClassify(estFull, ep, nil, func(i int) bool { return estKeys[i].e == ep })
		e.judge("container.iterateAllContainerSizes", estRule, fmt.Sprintf("container.iterateAllContainerSizes(%d)", ep), got, want, fwd, rev)
	}
	for i, p := range estPairs {
		want, fwd, rev := stClassify(estShort, p.e, []byte(p.cid), func(i int) bool { return estKeys[i].e == p.e && estKeys[i].cid == p.cid })
		e.judge("container.iterateContainerSizes", estRule, fmt.Sprintf("container.iterateContainerSizes(%d, %.4x)", p.e, p.cid), e.estimations(s.res[qEstIter[i]]), want, fwd, rev)
	}

	// ---------------- second round: getters by the identifiers just listed ----------------
	first := len(s.qs)
	qRepByID := make([]int, len(repIDOrder))
	for i, u := range repIDOrder {
		qRepByID[i] = s.add(e.rep, "getByID", repIDs[u])
	}
	qAudGet := make([]int, len(audIDOrder))
	for i, u := range audIDOrder {
		qAudGet[i] = s.add(e.aud, "get", audIDs[u])
	}
	qEstGet := make([]int, len(estIDOrder))
	for i, u := range estIDOrder {
		qEstGet[i] = s.add(e.cnr, "getContainerSize", estIDs[u])
	}
	qAudAbsent := s.add(e.aud, "get", append(stEnc(e.used[rot(0, len(e.used))]), bytes.Repeat([]byte{0xee}, 56)...))
	s.run()
	for i := first; i < len(s.qs); i++ {
		if s.err[i] != "" {
			r.Violation("C20/getter-fault", "", "%s%v FAULTs: %s", s.qs[i].method, s.qs[i].args, s.err[i])
		}
	}
	for i, u := range repIDOrder {
		k, _ := e.repUnit(repIDs[u])
		var got []string
		for _, v := range s.bytesList(qRepByID[i]) {
			got = append(got, string(v))
		}
		var qtail []byte
		if k.p >= 0 {
			qtail = e.peers[k.p]
		}
		want, fwd, rev := stClassify(repByVal, k.e, qtail, func(i int) bool { return repKeys[i] == k })
		e.judge("reputation.getByID", "C20/reputation-getByID-mismatch", fmt.Sprintf("reputation.getByID(%s)", u), got, want, fwd, rev)
	}
	for i, u := range audIDOrder {
		k, _ := e.audUnit(audIDs[u])
		got := ItemBytes(s.res[qAudGet[i]])
		if want, ok := m.aud[k]; !ok || string(got) != want {
			r.Violation("C20/audit-get-mismatch", "", "audit.get(%s) = %q, model %q (stored: %v)", u, clipStr(string(got), 60), clipStr(want, 60), ok)
		}
	}
	if _, isNull := s.res[qAudAbsent].(stackitem.Null); !isNull && len(ItemBytes(s.res[qAudAbsent])) != 0 {
		r.Violation("C20/audit-get-mismatch", "", "audit.get(id nothing was put under) = %q", ItemBytes(s.res[qAudAbsent]))
	}
	for i, u := range estIDOrder {
		id := estIDs[u]
		f := ItemArr(s.res[qEstGet[i]])
		if len(f) != 2 || len(id) < 35 {
			r.Violation("C20/estimation-get-mismatch", "", "getContainerSize(%s): malformed answer", u)
			continue
		}
		cid := id[len(id)-32:]
		ie, _ := stDec(id[3 : len(id)-32])
		if !bytes.Equal(ItemBytes(f[0]), cid) {
			r.Violation("C20/estimation-get-mismatch", "", "getContainerSize(%s): container id %x", u, ItemBytes(f[0]))
		}
		want, fwd, rev := stClassify(estShort, ie, cid, func(i int) bool { return estKeys[i].e == ie && estKeys[i].cid == string(cid) })
		rule := "C20/estimation-get-mismatch"
		if e.cleaned {
			rule = "C20/cleanup-mismatch"
		}
		e.judge("container.getContainerSize", rule, fmt.Sprintf("container.getContainerSize(%s)", u), e.estimations(f[1]), want, fwd, rev)
	}

	// ---------------- layer 2: nothing is stored that no lister shows ----------------
	raw := func(c string, prefix string) int {
		if c == "neofs" {
			return len(e.w2.Scan(e.w2.C[c].ID, []byte(prefix)))
		}
		return len(e.w.Scan(e.w.C[c].ID, []byte(prefix)))
	}
	nrep := 0
	for _, k := range m.repKeys() {
		nrep += len(m.rep[k])
	}
	for _, c := range []struct {
		what  string
		got   int
		model int
	}{
		{"reputation counters 'c'", raw("reputation", "c"), len(m.rep)},
		{"reputation values 'r'", raw("reputation", "r"), nrep},
		{"audit results", raw("audit", ""), len(m.aud)},
		{"estimations 'cnr'", raw("container", "cnr"), len(m.est)},
		{"neofsid bindings 'o'", raw("neofsid", "o"), len(m.ids[0]) + len(m.ids[1]) + len(m.ids[2])},
		{"netmap 'config'", raw("netmap", "config"), len(m.cfg[0])},
		{"neofs 'config'", raw("neofs", "config"), len(m.cfg[1])},
	} {
		if c.got == 0 && c.model > 0 {
			// the documented prefix holds nothing although the listers (layer 1,
			// already judged) show what the model has: another layout is in use
			r.Count("raw_layout_unrecognised." + strings.Fields(c.what)[0])
			continue
		}
		if c.got != c.model {
			rule := "C20/raw-count-mismatch"
			if strings.HasPrefix(c.what, "estimations") && e.cleaned {
				rule = "C20/cleanup-mismatch"
			}
			r.Violation(rule, "", "%s: %d entries in storage, model has %d", c.what, c.got, c.model)
		}
	}
	r.CountN("sweep.queries", int64(len(s.qs)+len(s2.qs)))
	if len(e.known) > 0 {
		// which of the observations is reported rotates, so that every method that
		// shows the behaviour gets reported by some run
		k := e.known[e.blockNo%len(e.known)]
		e.known = nil
		r.Violation("C20/listing-extra-prefix-epoch", k.key, "%s", k.detail)
	}
}

// sweepLines is r.Sweep: the complete read-API view of the FS chain for
// everything the model knows (its epochs, containers, peers, reporters, owners,
// configuration keys), as sorted "contract.method(args)=value" lines. The
// upgrade check compares it right before and right after an upgrade; entries
// the known finding adds to a listing are part of it as returned.
func (e *stEngine) sweepLines() []string {
	m := e.m
	s := &stSweep{w: e.w}
	name := map[util.Uint160]string{e.rep: "reputation", e.aud: "audit", e.cnr: "container", e.nid: "neofsid", e.nm: "netmap"}
	for _, h := range []util.Uint160{e.rep, e.aud, e.cnr, e.nid, e.nm} {
		s.add(h, "version")
	}
	s.add(e.nm, "epoch")
	s.add(e.nm, "netmap")
	s.add(e.nm, "snapshot", int64(1))
	s.add(e.nm, "listConfig")
	for _, k := range append([]string{"ContainerFee", "ContainerAliasFee", "ContainerFe", "C", "ABCD"}, e.cfgKeys...) {
		s.add(e.nm, "config", []byte(k))
	}
	for _, o := range e.owners {
		s.add(e.nid, "key", o)
	}
	var cids [][]byte
	seenCid := map[string]bool{}
	addCid := func(c []byte) {
		if len(c) == 32 && !seenCid[string(c)] {
			seenCid[string(c)] = true
			cids = append(cids, c)
		}
	}
	for _, sl := range m.slots {
		addCid(sl.cid)
	}
	for _, k := range m.estKeys() {
		addCid([]byte(k.cid))
	}
	s.add(e.aud, "list")
	var lists []int // queries that answer with identifiers
	for _, ep := range e.used {
		lists = append(lists, s.add(e.rep, "listByEpoch", ep))
		lists = append(lists, s.add(e.aud, "listByEpoch", ep))
		lists = append(lists, s.add(e.cnr, "listContainerSizes", ep))
		s.add(e.cnr, "iterateAllContainerSizes", ep)
		for _, p := range e.peers {
			s.add(e.rep, "get", ep, p)
		}
		for _, c := range e.audCids {
			s.add(e.aud, "listByCID", ep, c)
		}
		for _, c := range cids {
			s.add(e.cnr, "iterateContainerSizes", ep, c)
		}
	}
	for _, k := range m.audKeys() {
		s.add(e.aud, "listByNode", k.e, e.audCids[k.c], e.irs[k.rep].PublicKey().Bytes())
	}
	s.run()
	// getters by the identifiers the listers returned
	byID := map[util.Uint160]string{e.rep: "getByID", e.aud: "get", e.cnr: "getContainerSize"}
	seenID := map[string]bool{}
	for _, q := range lists {
		if s.err[q] != "" {
			continue
		}
		for _, id := range s.bytesList(q) {
			if k := name[s.qs[q].h] + string(id); !seenID[k] {
				seenID[k] = true
				s.add(s.qs[q].h, byID[s.qs[q].h], id)
			}
		}
	}
	s.run()
	out := make([]string, 0, len(s.qs))
	for i, q := range s.qs {
		var sb strings.Builder
		if s.err[i] != "" {
			sb.WriteString("FAULT")
		} else {
			itemRepr(&sb, s.res[i], 0)
		}
		out = append(out, fmt.Sprintf("%s.%s(%x)=%s", name[q.h], q.method, q.args, sb.String()))
	}
	sort.Strings(out)
	return out
}
