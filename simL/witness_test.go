package siml

// C03 — every mutating contract method is inert without its required
// witnesses. Fault enumeration over seeded states: another engine's history
// (its valid, state-changing invocations on populated worlds) runs in shadow
// mode; right before each block every transaction it submits is re-executed,
// against the identical pre-block state in throw-away VMs, under an
// enumeration of degraded signer sets derived from the method's documented
// requirement (DESIGN.md Appendix A). A set that does not satisfy the
// requirement must leave no trace: FAULT, or HALT with an empty storage batch
// over all contracts (natives included) and no notification. The exact
// required set must succeed whenever the engine's own set did. Safe methods
// are checked on every read the engine makes; verify methods at the end.

import (
	"bytes"
	"crypto/sha256"
	"fmt"
	"sort"
	"strings"
	"testing"

	"github.com/nspcc-dev/neo-go/pkg/core/block"
	"github.com/nspcc-dev/neo-go/pkg/core/native/noderoles"
	"github.com/nspcc-dev/neo-go/pkg/core/transaction"
	"github.com/nspcc-dev/neo-go/pkg/crypto/hash"
	"github.com/nspcc-dev/neo-go/pkg/crypto/keys"
	"github.com/nspcc-dev/neo-go/pkg/smartcontract"
	"github.com/nspcc-dev/neo-go/pkg/smartcontract/callflag"
	"github.com/nspcc-dev/neo-go/pkg/smartcontract/manifest"
	"github.com/nspcc-dev/neo-go/pkg/smartcontract/trigger"
	"github.com/nspcc-dev/neo-go/pkg/util"
	"github.com/nspcc-dev/neo-go/pkg/vm/stackitem"
	"github.com/nspcc-dev/neo-go/pkg/vm/vmstate"
)

// wReq is a requirement in disjunctive normal form: one alternative is a set
// of accounts that must all be witnessed. known=false: no table entry.
type wReq struct {
	alts  [][]util.Uint160
	known bool
	none  bool // documented as needing no witness (callbacks, read-only): never judged
	// near: accounts related to the requirement that are documented NOT to
	// suffice on their own (a single member of the required multi-signature,
	// the multi-signature where single keys vote, ...); each becomes a degraded
	// signer set unless it happens to satisfy the requirement
	near map[string]util.Uint160
}

func wAlt(hs ...util.Uint160) []util.Uint160 { return hs }

func keyHash(b []byte) (util.Uint160, bool) {
	k, err := keys.NewPublicKeyFromBytes(b, nil)
	if err != nil {
		return util.Uint160{}, false
	}
	return k.GetScriptHash(), true
}

func argBytes(a any) ([]byte, bool) {
	switch v := a.(type) {
	case []byte:
		return v, true
	case string:
		return []byte(v), true
	case util.Uint160:
		return v.BytesBE(), true
	case *keys.PublicKey:
		return v.Bytes(), true
	case stackitem.Item:
		b, err := v.TryBytes()
		return b, err == nil
	}
	return nil, false
}

func argHash160(a any) (util.Uint160, bool) {
	b, ok := argBytes(a)
	if !ok || len(b) != 20 {
		return util.Uint160{}, false
	}
	h, err := util.Uint160DecodeBytesBE(b)
	return h, err == nil
}

func multisigHash(m int, pubs keys.PublicKeys) (util.Uint160, bool) {
	if len(pubs) == 0 {
		return util.Uint160{}, false
	}
	ps := append(keys.PublicKeys{}, pubs...)
	sort.Sort(ps)
	script, err := smartcontract.CreateMultiSigRedeemScript(m, ps)
	if err != nil {
		return util.Uint160{}, false
	}
	return hash.Hash160(script), true
}

// requirement is Appendix A of DESIGN.md as code: written from doc.go and the
// method comments. Anything that is state (role membership, liveness of an
// id) is not a witness and does not appear here.
func requirement(w *World, d *Deployed, c *CallInfo) wReq {
	A, C := w.Alphabet.Hash, w.Committee.Hash
	reqA := wReq{alts: [][]util.Uint160{wAlt(A)}, known: true}
	reqC := wReq{alts: [][]util.Uint160{wAlt(C)}, known: true}
	none := wReq{known: true, none: true}
	keyArg := func(i int) wReq {
		if i < len(c.Args) {
			if b, ok := argBytes(c.Args[i]); ok {
				if h, ok := keyHash(b); ok {
					return wReq{alts: [][]util.Uint160{wAlt(h)}, known: true}
				}
			}
		}
		return wReq{} // malformed key: whatever happens, no key can be named
	}
	and := func(r wReq, h util.Uint160) wReq {
		if !r.known {
			return r
		}
		for i := range r.alts {
			r.alts[i] = append(r.alts[i], h)
		}
		return r
	}
	// main-chain governance (cheque, alphabetUpdate, setConfig, candidate
	// removal) — see §10.3 observation
	governance := func() wReq {
		var nf *Deployed
		for _, x := range w.C {
			if x.Repo == "neofs" {
				nf = x
			}
		}
		if nf == nil {
			return wReq{known: true, alts: [][]util.Uint160{wAlt(A)}}
		}
		// Notary on: a 2n/3+1 account — of the chain's committee (what cheque,
		// alphabetUpdate and setConfig check) or of the keys stored in the
		// contract (what candidate removal checks; the account is computed here
		// from the key list, not read from the contract's own alphabetAddress);
		// which of the two a method means is left open (§10.3, "don't care"),
		// both count. Notary off: one stored key per invocation, and the
		// multi-signature accounts are nobody. Single stored keys are nobody
		// with Notary on. Appendix A.
		notaryOff := false
		if v := w.BC.GetStorageItem(nf.ID, []byte("notary")); len(v) > 0 && v[0] != 0 {
			notaryOff = true
		}
		r := wReq{known: true, near: map[string]util.Uint160{}}
		it, err := w.readNoHook(nf.Hash, "alphabetList")
		if err != nil {
			return wReq{}
		}
		var ks keys.PublicKeys
		for i, n := range ItemArr(it) {
			f := ItemArr(n)
			if len(f) > 0 {
				if h, ok := keyHash(ItemBytes(f[0])); ok {
					if notaryOff {
						r.alts = append(r.alts, wAlt(h))
					} else if i < 3 {
						r.near[fmt.Sprintf("stored-member%d", i)] = h
					}
				}
				if k, err := keys.NewPublicKeyFromBytes(ItemBytes(f[0]), nil); err == nil {
					ks = append(ks, k)
				}
			}
		}
		if h, ok := multisigHash(len(ks)*2/3+1, ks); ok {
			if !notaryOff {
				r.alts = append(r.alts, wAlt(h))
			} else {
				r.near["stored-alphabet-account"] = h
			}
		}
		if !notaryOff {
			r.alts = append(r.alts, wAlt(A))
		} else {
			r.near["chain-alphabet-account"] = A
		}
		return r
	}
	// the majority account of the keys that hold the NeoFSAlphabet role in the
	// block about to be made (nobody while the role is not designated)
	roleCommittee := func() wReq {
		r := wReq{known: true}
		if ks, _, err := w.BC.GetDesignatedByRole(noderoles.NeoFSAlphabet); err == nil && len(ks) > 0 {
			if h, ok := multisigHash(len(ks)/2+1, ks); ok {
				r.alts = append(r.alts, wAlt(h))
			}
		}
		return r
	}
	m := c.Method
	if m == "update" {
		switch d.Repo {
		case "neofs", "processing":
			return roleCommittee()
		}
		return reqC
	}
	switch d.Repo {
	case "alphabet":
		switch m {
		case "vote":
			return reqA
		case "onNEP17Payment":
			return none
		case "emit":
			// the Alphabet node this contract belongs to: committee[index]
			if v := w.BC.GetStorageItem(d.ID, []byte("index")); v != nil {
				idx := 0
				if len(v) > 0 {
					idx = int(v[0])
				}
				if idx < len(w.Pubs) {
					req := wReq{known: true, alts: [][]util.Uint160{wAlt(w.Pubs[idx].GetScriptHash())}, near: map[string]util.Uint160{}}
					// the Inner Ring node at that position is paid by emit; it does
					// not authorise it
					if ir, _, err := w.BC.GetDesignatedByRole(noderoles.NeoFSAlphabet); err == nil && idx < len(ir) {
						req.near["inner-ring-node-at-index"] = ir[idx].GetScriptHash()
					}
					return req
				}
			}
		}
	case "audit":
		// put: the reporter key sits inside the result (documented V2 layout:
		// version, 8-byte epoch, container id, public key); membership in the
		// role is state, not a witness
		if m == "put" && len(c.Args) == 1 {
			if in, ok := argBytes(c.Args[0]); ok && len(in) > 2 {
				off := 2 + int(in[1]) + 1 + 8
				if len(in) > off+3 {
					cidLen := int(in[off+3])
					k := off + 3 + 1 + cidLen + 1
					if len(in) > k {
						keyLen := int(in[k])
						if len(in) >= k+1+keyLen {
							if h, ok := keyHash(in[k+1 : k+1+keyLen]); ok {
								return wReq{known: true, alts: [][]util.Uint160{wAlt(h)}}
							}
						}
					}
				}
			}
		}
	case "balance":
		switch m {
		case "mint", "burn", "lock", "transferX", "newEpoch":
			return reqA
		case "transfer":
			if h, ok := argHash160(c.Args[0]); ok {
				return wReq{known: true, alts: [][]util.Uint160{wAlt(h)}}
			}
			return wReq{known: true, alts: nil} // malformed holder: nothing can authorise it
		}
	case "container":
		// a name that somebody else (the committee) registered in advance can be
		// given to / taken from a container only with that owner's witness too:
		// NNS demands it in the nested call ("the documented combination")
		domainOwner := func(domain string) (util.Uint160, bool) {
			nns := w.C["nns"]
			if nns == nil || domain == "" {
				return util.Uint160{}, false
			}
			it, err := w.readNoHook(nns.Hash, "ownerOf", domain)
			if err != nil {
				return util.Uint160{}, false
			}
			h, ok := argHash160(it)
			if !ok || h == d.Hash {
				return util.Uint160{}, false
			}
			return h, true
		}
		// servedNameOwner: the owner (other than the Container contract) of the
		// name a live container bears, while that name serves the container's own
		// record — taking the record away is a change NNS wants that owner for
		servedNameOwner := func(cid []byte, except string) (util.Uint160, bool) {
			it, err := w.readNoHook(d.Hash, "alias", cid)
			if err != nil {
				return util.Uint160{}, false
			}
			dom := ItemBytes(it)
			if len(dom) == 0 || string(dom) == except {
				return util.Uint160{}, false
			}
			recs, err := w.readNoHook(w.C["nns"].Hash, "getRecords", string(dom), int64(16))
			if err != nil {
				return util.Uint160{}, false
			}
			served := false
			if arr, ok := recs.Value().([]stackitem.Item); ok {
				for _, x := range arr {
					if b, err := x.TryBytes(); err == nil && string(b) == ctBase58(cid) {
						served = true
					}
				}
			}
			if !served {
				return util.Uint160{}, false
			}
			return domainOwner(string(dom))
		}
		switch m {
		case "putNamed":
			if len(c.Args) == 6 {
				name, _ := argBytes(c.Args[4])
				zone, _ := argBytes(c.Args[5])
				if len(zone) == 0 {
					zone = []byte("container")
				}
				req := wReq{known: true, alts: [][]util.Uint160{wAlt(A)}}
				extra := false
				newDom := ""
				if len(name) > 0 {
					newDom = string(name) + "." + string(zone)
					if h, ok := domainOwner(newDom); ok {
						req, extra = and(req, h), true
					}
					// a live container put under another name gives up the one it
					// bears (repair 59f6f37): that name's owner is asked as well
					if blob, ok := argBytes(c.Args[0]); ok {
						cid := sha256.Sum256(blob)
						if h, ok := servedNameOwner(cid[:], newDom); ok {
							req, extra = and(req, h), true
						}
					}
				}
				if extra {
					return req
				}
			}
			return reqA
		case "delete":
			if len(c.Args) == 3 {
				if cid, ok := argBytes(c.Args[0]); ok {
					if it, err := w.readNoHook(d.Hash, "alias", cid); err == nil {
						if dom := ItemBytes(it); len(dom) > 0 {
							// only the container's own record is taken away: NNS is asked
							// to change something (and wants its owner's witness) only
							// while the name serves that record
							served := false
							if recs, err := w.readNoHook(w.C["nns"].Hash, "getRecords", string(dom), int64(16)); err == nil {
								if arr, ok := recs.Value().([]stackitem.Item); ok {
									for _, x := range arr {
										if b, err := x.TryBytes(); err == nil && string(b) == ctBase58(cid) {
											served = true
										}
									}
								}
							}
							if h, ok := domainOwner(string(dom)); ok && served {
								return and(wReq{known: true, alts: [][]util.Uint160{wAlt(A)}}, h)
							}
						}
					}
				}
			}
			return reqA
		case "put", "setEACL", "addNextEpochNodes", "commitContainerListUpdate", "newEpoch", "startContainerEstimation", "stopContainerEstimation":
			return reqA
		case "putContainerSize":
			return keyArg(3)
		case "submitObjectPut", "onNEP11Payment":
			return none
		}
	case "neofs":
		switch m {
		case "cheque", "alphabetUpdate", "setConfig":
			return governance()
		case "innerRingCandidateRemove":
			g := governance()
			if k := keyArg(0); k.known {
				g.alts = append(g.alts, k.alts...)
			}
			return g
		case "withdraw", "bind", "unbind":
			if h, ok := argHash160(c.Args[0]); ok {
				return wReq{known: true, alts: [][]util.Uint160{wAlt(h)}}
			}
		case "innerRingCandidateAdd":
			return keyArg(0)
		case "onNEP17Payment":
			return none
		}
	case "neofsid":
		switch m {
		case "addKey", "removeKey":
			return reqA
		}
	case "netmap":
		switch m {
		case "addPeerIR", "deleteNode", "updateStateIR", "newEpoch", "setConfig", "subscribeForNewEpoch", "updateSnapshotCount":
			return reqA
		case "addPeer":
			if b, ok := argBytes(c.Args[0]); ok && len(b) >= 35 {
				if h, ok := keyHash(b[2:35]); ok {
					return and(wReq{known: true, alts: [][]util.Uint160{wAlt(h)}}, A)
				}
			}
		case "addNode":
			if it, ok := c.Args[0].(stackitem.Item); ok {
				if f, ok := it.Value().([]stackitem.Item); ok && len(f) >= 3 {
					if b, err := f[2].TryBytes(); err == nil {
						if h, ok := keyHash(b); ok {
							return and(wReq{known: true, alts: [][]util.Uint160{wAlt(h)}}, A)
						}
					}
				}
			}
		case "updateState":
			return and(keyArg(1), A)
		case "lastEpochBlock":
			return none
		}
	case "nns":
		// owner / admin of the longest registered enclosing name, read through
		// the read API (committee for TLDs and committee-owned names)
		nameAuth := func(name string) (wReq, bool) {
			name = strings.TrimSuffix(name, ".")
			labels := strings.Split(name, ".")
			for i := 0; i < len(labels)-1; i++ {
				cand := strings.Join(labels[i:], ".")
				it, err := w.readNoHook(d.Hash, "properties", cand)
				if err != nil {
					continue
				}
				r := wReq{known: true}
				own, oerr := w.readNoHook(d.Hash, "ownerOf", cand)
				if oerr != nil {
					return wReq{}, false
				}
				if h, ok := argHash160(own); ok {
					r.alts = append(r.alts, wAlt(h))
				} else {
					r.alts = append(r.alts, wAlt(C)) // committee-owned
				}
				if mp, ok := it.Value().([]stackitem.MapElement); ok {
					for _, e := range mp {
						if k, _ := e.Key.TryBytes(); string(k) == "admin" {
							if h, ok := argHash160(e.Value); ok {
								r.alts = append(r.alts, wAlt(h))
							}
						}
					}
				}
				return r, true
			}
			return wReq{}, false
		}
		switch m {
		case "addRecord", "setRecord", "deleteRecords", "updateSOA", "renew":
			if len(c.Args) > 0 {
				if nb, ok := argBytes(c.Args[0]); ok {
					if strings.Count(strings.TrimSuffix(string(nb), "."), ".") == 0 {
						return reqC // a TLD
					}
					if r, ok := nameAuth(string(nb)); ok {
						return r
					}
				}
			}
			return wReq{}
		case "setAdmin":
			if len(c.Args) == 2 {
				nb, _ := argBytes(c.Args[0])
				if own, err := w.readNoHook(d.Hash, "ownerOf", string(nb)); err == nil {
					if h, ok := argHash160(own); ok {
						r := wReq{known: true, alts: [][]util.Uint160{wAlt(h)}}
						if ah, ok := argHash160(c.Args[1]); ok {
							r = and(r, ah)
						}
						return r
					}
				}
			}
			return wReq{}
		case "registerTLD", "setPrice":
			return reqC
		case "transfer":
			if len(c.Args) >= 2 {
				if b, ok := argBytes(c.Args[1]); ok {
					if it, err := w.readNoHook(d.Hash, "ownerOf", b); err == nil {
						if h, ok := argHash160(it); ok {
							return wReq{known: true, alts: [][]util.Uint160{wAlt(h)}}
						}
					}
				}
			}
		case "register":
			if len(c.Args) >= 2 {
				name, _ := argBytes(c.Args[0])
				if strings.Count(string(name), ".") == 1 {
					if h, ok := argHash160(c.Args[1]); ok {
						return wReq{known: true, alts: [][]util.Uint160{wAlt(h)}}
					}
				}
				// third level and deeper: the new owner together with the owner or
				// admin of the directly enclosing name, as long as that one is
				// registered and running (whether the name itself was registered
				// before and has lapsed makes no difference)
				if i := strings.IndexByte(string(name), '.'); i > 0 && strings.Count(string(name), ".") >= 2 && !strings.HasSuffix(string(name), ".") {
					parent := string(name)[i+1:]
					if _, err := w.readNoHook(d.Hash, "properties", parent); err == nil {
						if pr, ok := nameAuth(parent); ok {
							if h, ok := argHash160(c.Args[1]); ok {
								return and(pr, h)
							}
						}
					}
				}
			}
		}
	case "processing", "proxy":
		if m == "onNEP17Payment" {
			return none
		}
	case "reputation":
		switch m {
		case "put":
			return reqA
		case "version":
			return none
		}
	}
	return wReq{}
}

// readNoHook is Read without triggering ReadHook (used inside hooks).
func (w *World) readNoHook(h util.Uint160, method string, args ...any) (stackitem.Item, error) {
	saved := w.inReadHook
	w.inReadHook = true
	defer func() { w.inReadHook = saved }()
	return w.Read(h, method, args...)
}

func (r wReq) sat(signers []Signer) bool {
	if r.none {
		return true
	}
	for _, alt := range r.alts {
		ok := true
		for _, a := range alt {
			if !Witness(signers, a.BytesBE(), 0) {
				ok = false
				break
			}
		}
		if ok {
			return true
		}
	}
	return false
}

func bare(name string, h util.Uint160, sc transaction.WitnessScope) Signer {
	return Signer{Name: name, Hash: h, Scope: sc}
}

// degraded enumerates signer sets that do NOT satisfy req (checked by sat).
func degraded(w *World, req wReq, stranger util.Uint160) map[string][]Signer {
	out := map[string][]Signer{
		"nobody":   nil,
		"stranger": {bare("stranger", stranger, transaction.Global)},
		"single":   {bare("member0", w.Privs[0].GetScriptHash(), transaction.Global)},
	}
	if w.Alphabet.Hash != w.Committee.Hash {
		out["committee-account"] = []Signer{bare("committee", w.Committee.Hash, transaction.Global)}
		out["alphabet-account"] = []Signer{bare("alphabet", w.Alphabet.Hash, transaction.Global)}
	}
	// every threshold over the committee's keys: exactly the documented ones
	// (2n/3+1, n/2+1) may count, their neighbours never
	pubs := make(keys.PublicKeys, len(w.Privs))
	for i, p := range w.Privs {
		pubs[i] = p.PublicKey()
	}
	for m := 1; m <= len(pubs); m++ {
		if h, ok := multisigHash(m, pubs); ok && h != w.Alphabet.Hash && h != w.Committee.Hash {
			out[fmt.Sprintf("threshold-%d-of-%d", m, len(pubs))] = []Signer{bare(fmt.Sprintf("%d-of-%d", m, len(pubs)), h, transaction.Global)}
		}
	}
	if w.Validator.Hash != w.Alphabet.Hash && w.Validator.Hash != w.Committee.Hash {
		// fewer validators than committee members: the block signers' account
		out["validators-account"] = []Signer{bare("validators", w.Validator.Hash, transaction.Global)}
	}
	for name, h := range req.near {
		out["near-"+name] = []Signer{bare(name, h, transaction.Global)}
	}
	for ai, alt := range req.alts {
		var full []Signer
		for i, a := range alt {
			full = append(full, bare(fmt.Sprintf("req%d.%d", ai, i), a, transaction.Global))
		}
		for i := range alt {
			// one required witness missing / present with scope None / replaced by a stranger
			var miss, none, repl []Signer
			for j, s := range full {
				if j == i {
					none = append(none, s.WithScope(transaction.None))
					repl = append(repl, bare("stranger", stranger, transaction.Global))
					continue
				}
				miss = append(miss, s)
				none = append(none, s)
				repl = append(repl, s)
			}
			out[fmt.Sprintf("alt%d-without-%d", ai, i)] = miss
			out[fmt.Sprintf("alt%d-scope-none-%d", ai, i)] = none
			out[fmt.Sprintf("alt%d-stranger-for-%d", ai, i)] = repl
		}
	}
	for k, s := range out {
		if req.sat(s) {
			delete(out, k)
		}
	}
	return out
}

func effectOf(p *Probe) string {
	if p.State != vmstate.Halt {
		return ""
	}
	if len(p.Ops) > 0 {
		return fmt.Sprintf("%d storage change(s), first in contract %d key %x", len(p.Ops), p.Ops[0].ID, p.Ops[0].Key)
	}
	if len(p.Events) > 0 {
		return fmt.Sprintf("%d notification(s), first %s", len(p.Events), p.Events[0].Name)
	}
	return ""
}

func repoContract(w *World, h util.Uint160) *Deployed {
	for _, d := range w.C {
		if d.Hash == h && d.Repo != "" {
			return d
		}
	}
	return nil
}

func witnessBody(r *Run) {
	t := r.T
	eng := Engines[Pick(t, "engine", len(Engines))]
	prop := eng.Props[Pick(t, "impersonate", len(eng.Props))]
	stranger := DetKey("c03/stranger").GetScriptHash()
	r.Tracef("engine=%s as %s", eng.Name, prop)
	var verdict func()
	evaluated := 0
	safeMan := map[string]*manifest.Manifest{}
	manOf := func(repo string) *manifest.Manifest {
		if m, ok := safeMan[repo]; ok {
			return m
		}
		m := CompileContract(repo).Manifest
		safeMan[repo] = m
		return m
	}
	TxHook = func(w *World, script []byte, signers []Signer) {
		if verdict != nil || evaluated > 400 {
			return
		}
		c := LookupCall(script)
		if c == nil {
			r.Count("scripts_not_built_by_CallScript")
			return
		}
		d := repoContract(w, c.Hash)
		if d == nil {
			return
		}
		cell := fmt.Sprintf("%s.%s/%d", d.Repo, c.Method, len(c.Args))
		req := requirement(w, d, c)
		if !req.known {
			r.Cell("C03.uncovered", cell)
			return
		}
		if req.none {
			r.Cell("C03.no-witness-documented", cell)
			return
		}
		evaluated++
		// the engine's own signer set (valid or deliberately faulty)
		p0 := w.WhatIf(script, signers, 1)
		e0 := effectOf(p0)
		if e0 != "" && !req.sat(signers) {
			msg := fmt.Sprintf("%s with signers %s: %s", cell, signerNames(signers), e0)
			verdict = func() { r.Violation("C03/effect-without-required-witness", "", "%s", msg) }
			return
		}
		dsets := degraded(w, req, stranger)
		var dnames []string
		for name := range dsets {
			dnames = append(dnames, name)
		}
		sort.Strings(dnames)
		for _, name := range dnames {
			s := dsets[name]
			p := w.WhatIf(script, s, 1)
			r.Cell("C03.matrix", cell+"/"+classOf(name))
			r.Count("degraded_sets_evaluated")
			if e := effectOf(p); e != "" {
				msg := fmt.Sprintf("%s under degraded signer set %q %s: %s", cell, name, signerNames(s), e)
				verdict = func() { r.Violation("C03/effect-without-required-witness", "", "%s", msg) }
				return
			}
			r.Inject("wit." + classOf(name))
			r.Fired("wit." + classOf(name))
		}
		// malformed principals: every account argument in turn replaced by Null,
		// an empty string and a 19-byte string. The requirement is recomputed
		// for the new arguments (Appendix A names accounts through them); a
		// signer set that does not satisfy it — the engine's own or a
		// stranger's — must leave no trace.
		for i, a := range c.Args {
			if verdict != nil {
				break
			}
			if _, ok := argHash160(a); !ok {
				continue
			}
			for vi, repl := range []any{nil, []byte{}, bytes.Repeat([]byte{7}, 19)} {
				args := append([]any(nil), c.Args...)
				args[i] = repl
				cv := &CallInfo{Hash: c.Hash, Method: c.Method, Args: args}
				rq := requirement(w, d, cv)
				if !rq.known || rq.none {
					continue
				}
				sc := CallScript(c.Hash, c.Method, args...)
				for si, set := range [][]Signer{signers, {bare("stranger", stranger, transaction.Global)}} {
					if rq.sat(set) {
						continue
					}
					p := w.WhatIf(sc, set, 1)
					r.Cell("C03.malformed-principal", fmt.Sprintf("%s/arg%d/%s", cell, i, []string{"null", "empty", "short"}[vi]))
					r.Count("malformed_principal_calls_evaluated")
					if e := effectOf(p); e != "" {
						msg := fmt.Sprintf("%s with argument %d replaced by %s under %s signers %s: %s", cell, i, []string{"Null", "an empty string", "19 bytes"}[vi], []string{"the engine's", "a stranger's"}[si], signerNames(set), e)
						verdict = func() { r.Violation("C03/effect-without-required-witness", "", "%s", msg) }
						break
					}
				}
			}
		}
		if verdict != nil {
			return
		}
		if e0 != "" {
			// positive control: exactly the required witnesses suffice
			r.Cell("C03.positive", cell)
			r.Changed()
			ok := false
			var lastFault string
			for ai, alt := range req.alts {
				var s []Signer
				for i, a := range alt {
					s = append(s, bare(fmt.Sprintf("req%d.%d", ai, i), a, transaction.Global))
				}
				if !req.sat(signers) {
					break
				}
				p := w.WhatIf(script, s, 1)
				if effectOf(p) != "" {
					ok = true
					break
				}
				lastFault = p.Fault
			}
			if !ok && req.sat(signers) {
				msg := fmt.Sprintf("%s: succeeds with signers %s but with none of the documented exact sets (last fault: %s)", cell, signerNames(signers), clipStr(lastFault, 120))
				verdict = func() { r.Violation("C03/required-witnesses-do-not-suffice", "", "%s", msg) }
			}
		}
	}
	ReadHook = func(w *World, script []byte, p *Probe) {
		if verdict != nil {
			return
		}
		c := LookupCall(script)
		if c == nil {
			return
		}
		d := repoContract(w, c.Hash)
		if d == nil {
			return
		}
		md := manOf(d.Repo).ABI.GetMethod(c.Method, len(c.Args))
		if md == nil || !md.Safe {
			return
		}
		cell := fmt.Sprintf("%s.%s/%d", d.Repo, c.Method, len(c.Args))
		r.Cell("C03.safe", cell)
		if e := effectOf(p); e != "" {
			verdict = func() { r.Violation("C03/safe-method-modifies-state", "", "%s: %s", cell, e) }
			return
		}
		// and under the strongest signer set
		p2 := w.WhatIf(script, []Signer{bare("alphabet", w.Alphabet.Hash, transaction.Global), bare("committee", w.Committee.Hash, transaction.Global)}, 1)
		if e := effectOf(p2); e != "" {
			verdict = func() {
				r.Violation("C03/safe-method-modifies-state", "", "%s with Alphabet and committee witnesses: %s", cell, e)
			}
		}
	}
	defer func() { TxHook, ReadHook = nil, nil }()
	func() {
		defer func() {
			if verdict != nil {
				recover()
			}
		}()
		r.RunShadow(prop, eng.Body)
	}()
	TxHook, ReadHook = nil, nil
	if verdict != nil {
		verdict()
	}
	if r.W != nil {
		verifyMethods(r, r.W, stranger)
	}
	r.foreign = ""
}

func classOf(name string) string {
	switch {
	case strings.Contains(name, "without"):
		return "missing"
	case strings.Contains(name, "scope-none"):
		return "scope"
	case strings.Contains(name, "stranger-for"):
		return "other_key"
	case name == "committee-account" || name == "alphabet-account":
		return "swap_threshold"
	case name == "single" || strings.HasPrefix(name, "near-stored-member"):
		return "single"
	case name == "validators-account":
		return "validators_account"
	case strings.HasPrefix(name, "near-"):
		return "related_account"
	case strings.HasPrefix(name, "threshold-"):
		return "other_threshold"
	}
	return "missing"
}

// verifyMethods: Proxy and Alphabet accept exactly transactions carrying the
// Alphabet multi-signature (2n/3+1 or the majority one); Processing the one of
// the keys stored in NeoFS.
func verifyMethods(r *Run, w *World, stranger util.Uint160) {
	var ks []string
	for k := range w.C {
		ks = append(ks, k)
	}
	sort.Strings(ks)
	for _, k := range ks {
		d := w.C[k]
		if d.Repo != "proxy" && d.Repo != "alphabet" && d.Repo != "processing" {
			continue
		}
		accept := map[util.Uint160]bool{}
		extraSets := map[string][]Signer{}
		if d.Repo == "processing" {
			for _, x := range w.C {
				if x.Repo == "neofs" {
					if it, err := w.Read(x.Hash, "alphabetList"); err == nil {
						var ks keys.PublicKeys
						for _, n := range ItemArr(it) {
							if f := ItemArr(n); len(f) > 0 {
								if k, err := keys.NewPublicKeyFromBytes(ItemBytes(f[0]), nil); err == nil {
									ks = append(ks, k)
								}
							}
						}
						if h, ok := multisigHash(len(ks)*2/3+1, ks); ok {
							accept[h] = true
							// the documented account is also what alphabetAddress must say
							if a, err := w.Read(x.Hash, "alphabetAddress"); err == nil {
								if ah, ok := argHash160(a); !ok || ah != h {
									r.Violation("C03/verify-mismatch", "", "neofs.alphabetAddress is not the 2n/3+1 account of the %d stored keys", len(ks))
								}
							}
							if len(ks)/2+1 != len(ks)*2/3+1 {
								if mh, ok := multisigHash(len(ks)/2+1, ks); ok {
									extraSets["stored-keys-majority-account"] = []Signer{bare("stored-majority", mh, transaction.Global)}
								}
							}
						}
					}
				}
			}
			if len(accept) == 0 {
				continue
			}
		} else {
			accept[w.Alphabet.Hash], accept[w.Committee.Hash] = true, true
		}
		sets := map[string][]Signer{
			"alphabet":  {bare("alphabet", w.Alphabet.Hash, transaction.Global)},
			"committee": {bare("committee", w.Committee.Hash, transaction.Global)},
			"single":    {bare("member0", w.Privs[0].GetScriptHash(), transaction.Global)},
			"stranger":  {bare("stranger", stranger, transaction.Global)},
			"nobody":    nil,
		}
		for h := range accept {
			sets["accepted-account"] = []Signer{bare("accepted", h, transaction.Global)}
		}
		for k, v := range extraSets {
			sets[k] = v
		}
		var names []string
		for n := range sets {
			names = append(names, n)
		}
		sort.Strings(names)
		for _, n := range names {
			s := sets[n]
			want := false
			for _, x := range s {
				if accept[x.Hash] {
					want = true
				}
			}
			got, err := w.verify(d.Hash, s)
			r.Cell("C03.verify", d.Repo+"/"+n)
			if err != nil {
				if want {
					r.Violation("C03/verify-mismatch", "", "%s.verify with %s: %v", d.Repo, n, err)
				}
				continue
			}
			if got != want {
				r.Violation("C03/verify-mismatch", "", "%s.verify with signers %q returned %v, expected %v", d.Repo, n, got, want)
			}
		}
	}
}

// verify runs a contract's verify method with the verification trigger.
func (w *World) verify(h util.Uint160, signers []Signer) (bool, error) {
	tx := transaction.New([]byte{0x40}, 0)
	tx.ValidUntilBlock = w.BC.BlockHeight() + 1
	tx.Signers = []transaction.Signer{{Account: h, Scopes: transaction.None}}
	for _, s := range signers {
		tx.Signers = append(tx.Signers, transaction.Signer{Account: s.Hash, Scopes: s.Scope})
	}
	b := &block.Block{Header: block.Header{Index: w.BC.BlockHeight() + 1, Timestamp: w.Now() + 1}}
	ic, err := w.BC.GetTestVM(trigger.Verification, tx, b)
	if err != nil {
		return false, err
	}
	defer ic.Finalize()
	ic.VM.GasLimit = w.BC.GetMaxVerificationGAS()
	if err := w.BC.InitVerificationContext(ic, h, &transaction.Witness{}); err != nil {
		return false, err
	}
	if err := ic.VM.Run(); err != nil {
		return false, err
	}
	if ic.VM.Estack().Len() != 1 {
		return false, fmt.Errorf("stack %d", ic.VM.Estack().Len())
	}
	return ic.VM.Estack().Pop().Item().TryBool()
}

var _ = callflag.All

func TestWitness(t *testing.T) { Sim(t, witnessBody) }
