// Package siml is simulator L: a ledger-level deterministic simulation of the
// NeoFS contracts. One process hosts a real neo-go ledger (VM, natives, DAO on
// a MemoryStore); the simulator owns block production, the clock, who signs
// what, how much GAS a transaction gets and how transactions are packed into
// blocks. See /verif/DESIGN.md §2.
package siml

import (
	"bytes"
	"crypto/sha256"
	"encoding/binary"
	"encoding/hex"
	"encoding/json"
	"fmt"
	"math/big"
	"os"
	"path/filepath"
	"sort"
	"strings"
	"sync"
	"time"

	clisc "github.com/nspcc-dev/neo-go/cli/smartcontract"
	"github.com/nspcc-dev/neo-go/pkg/compiler"
	"github.com/nspcc-dev/neo-go/pkg/config"
	"github.com/nspcc-dev/neo-go/pkg/config/netmode"
	"github.com/nspcc-dev/neo-go/pkg/core"
	"github.com/nspcc-dev/neo-go/pkg/core/block"
	"github.com/nspcc-dev/neo-go/pkg/core/interop"
	istorage "github.com/nspcc-dev/neo-go/pkg/core/interop/storage"
	"github.com/nspcc-dev/neo-go/pkg/core/native/nativenames"
	"github.com/nspcc-dev/neo-go/pkg/core/state"
	"github.com/nspcc-dev/neo-go/pkg/core/storage"
	"github.com/nspcc-dev/neo-go/pkg/core/transaction"
	"github.com/nspcc-dev/neo-go/pkg/crypto/hash"
	"github.com/nspcc-dev/neo-go/pkg/crypto/keys"
	"github.com/nspcc-dev/neo-go/pkg/io"
	"github.com/nspcc-dev/neo-go/pkg/smartcontract"
	"github.com/nspcc-dev/neo-go/pkg/smartcontract/callflag"
	"github.com/nspcc-dev/neo-go/pkg/smartcontract/manifest"
	"github.com/nspcc-dev/neo-go/pkg/smartcontract/nef"
	"github.com/nspcc-dev/neo-go/pkg/smartcontract/trigger"
	"github.com/nspcc-dev/neo-go/pkg/util"
	"github.com/nspcc-dev/neo-go/pkg/vm/emit"
	"github.com/nspcc-dev/neo-go/pkg/vm/opcode"
	"github.com/nspcc-dev/neo-go/pkg/vm/stackitem"
	"github.com/nspcc-dev/neo-go/pkg/vm/vmstate"
	"go.uber.org/zap"
)

type nopCloseStore struct{ storage.Store }

func (nopCloseStore) Close() error { return nil }

// HarnessError is panicked for anything that is the simulator's own trouble
// (never a property violation). The driver maps it to exit code 2.
type HarnessError struct{ Msg string }

func (h HarnessError) Error() string { return "HARNESS: " + h.Msg }

func harnessf(format string, a ...any) { panic(HarnessError{fmt.Sprintf(format, a...)}) }

func must(err error) {
	if err != nil {
		harnessf("%v", err)
	}
}

// BlockHook, if set, is called before every block a world is fed (with the
// 1-based count of blocks fed so far); blocks the hook itself adds do not
// count. C16 uses it to upgrade contracts in the middle of another engine's
// history.
var BlockHook func(w *World, n int)

// RepoDir is the tree under verification.
func RepoDir() string {
	if d := os.Getenv("VERIF_REPO"); d != "" {
		return d
	}
	return "/repo"
}

// ---------------------------------------------------------------------------
// Contract artifacts

// Artifact is a compiled contract.
type Artifact struct {
	Probe    bool   // a simulator probe contract, not a repository contract
	Name     string // directory name under contracts/
	NEF      *nef.File
	Manifest *manifest.Manifest
	NEFBytes []byte
	ManBytes []byte
}

var (
	compileMu    sync.Mutex
	compileCache = map[string]*Artifact{}
)

// CompileContract compiles contracts/<name> of the working tree (or of any
// other directory given as absolute path) with the neo-go compiler the
// repository pins. Cached per process.
func CompileContract(dir string) *Artifact {
	probe := filepath.IsAbs(dir)
	if !filepath.IsAbs(dir) {
		dir = filepath.Join(RepoDir(), "contracts", dir)
	}
	compileMu.Lock()
	defer compileMu.Unlock()
	if a, ok := compileCache[dir]; ok {
		return a
	}
	a := compileDir(dir)
	a.Probe = probe
	compileCache[dir] = a
	return a
}

func compileDir(dir string) *Artifact {
	// nef.NewFile() cares about the version string.
	config.Version = "0.107.0"
	ne, di, err := compiler.CompileWithOptions(dir, nil, nil)
	if err != nil {
		harnessf("compile %s: %v", dir, err)
	}
	conf, err := clisc.ParseContractConfig(filepath.Join(dir, "config.yml"))
	must(err)
	o := &compiler.Options{}
	o.Name = conf.Name
	o.ContractEvents = conf.Events
	o.DeclaredNamedTypes = conf.NamedTypes
	o.ContractSupportedStandards = conf.SupportedStandards
	o.Permissions = make([]manifest.Permission, len(conf.Permissions))
	for i := range conf.Permissions {
		o.Permissions[i] = manifest.Permission(conf.Permissions[i])
	}
	o.SafeMethods = conf.SafeMethods
	o.Overloads = conf.Overloads
	o.SourceURL = conf.SourceURL
	m, err := compiler.CreateManifest(di, o)
	if err != nil {
		harnessf("manifest %s: %v", dir, err)
	}
	nb, err := ne.Bytes()
	must(err)
	mb, err := json.Marshal(m)
	must(err)
	return &Artifact{Name: filepath.Base(dir), NEF: ne, Manifest: m, NEFBytes: nb, ManBytes: mb}
}

// LoadArtifact reads contract.nef + manifest.json from a directory (the
// embedded/shipped artifacts).
func LoadArtifact(dir string) *Artifact {
	nb, err := os.ReadFile(filepath.Join(dir, "contract.nef"))
	must(err)
	mb, err := os.ReadFile(filepath.Join(dir, "manifest.json"))
	must(err)
	ne, err := nef.FileFromBytes(nb)
	must(err)
	m := new(manifest.Manifest)
	must(json.Unmarshal(mb, m))
	return &Artifact{Name: filepath.Base(dir), NEF: &ne, Manifest: m, NEFBytes: nb, ManBytes: mb}
}

// ---------------------------------------------------------------------------
// Keys and signers

// DetKey derives a P-256 key from a label; no crypto/rand anywhere.
func DetKey(label string) *keys.PrivateKey {
	h := sha256.Sum256([]byte(label))
	for {
		k, err := keys.NewPrivateKeyFromBytes(h[:])
		if err == nil {
			return k
		}
		h = sha256.Sum256(h[:])
	}
}

// Signer is one entry of a transaction's signer list together with the means to
// produce its witness.
type Signer struct {
	Name   string
	Hash   util.Uint160
	Scope  transaction.WitnessScope
	Script []byte             // verification script
	Keys   []*keys.PrivateKey // keys that sign, in verification-script key order
	// AllowedContracts for CustomContracts scope.
	Allowed []util.Uint160
}

// Single returns a Global-scoped signer for one key.
func Single(name string, k *keys.PrivateKey) Signer {
	return Signer{Name: name, Hash: k.GetScriptHash(), Scope: transaction.Global,
		Script: k.PublicKey().GetVerificationScript(), Keys: []*keys.PrivateKey{k}}
}

// Multi returns the m-of-n signer of the given keys (first m keys in public key
// order sign).
func Multi(name string, m int, privs []*keys.PrivateKey) Signer {
	ps := append([]*keys.PrivateKey(nil), privs...)
	sort.Slice(ps, func(i, j int) bool { return ps[i].PublicKey().Cmp(ps[j].PublicKey()) < 0 })
	pubs := make(keys.PublicKeys, len(ps))
	for i := range ps {
		pubs[i] = ps[i].PublicKey()
	}
	script, err := smartcontract.CreateMultiSigRedeemScript(m, pubs)
	must(err)
	return Signer{Name: name, Hash: hash.Hash160(script), Scope: transaction.Global, Script: script, Keys: ps[:m]}
}

// WithScope returns a copy with another witness scope.
func (s Signer) WithScope(sc transaction.WitnessScope) Signer { s.Scope = sc; return s }

func (s Signer) witness(magic netmode.Magic, tx *transaction.Transaction) transaction.Witness {
	buf := io.NewBufBinWriter()
	for _, k := range s.Keys {
		emit.Bytes(buf.BinWriter, k.SignHashable(uint32(magic), tx))
	}
	return transaction.Witness{InvocationScript: buf.Bytes(), VerificationScript: s.Script}
}

// ---------------------------------------------------------------------------
// World

// Deployed describes a contract living in the world.
type Deployed struct {
	Repo     string // contracts/<Repo> if this is a repository contract, "" for probes
	Name     string
	Hash     util.Uint160
	ID       int32
	Manifest *manifest.Manifest
}

// World is one simulated ledger with its committee.
type World struct {
	BC                                     *core.Blockchain
	N                                      int
	Privs                                  []*keys.PrivateKey // committee, in Neo's public key order
	Pubs                                   keys.PublicKeys
	Validator                              Signer // block signer and genesis GAS holder
	Alphabet                               Signer // 2n/3+1
	Committee                              Signer // n/2+1
	Payer                                  Signer // pays every fee; scope None, so it authorises nothing
	Magic                                  netmode.Magic
	C                                      map[string]*Deployed
	nonce                                  uint32
	GAS, NEO, Mgmt, Roles, NotaryH, Policy util.Uint160

	Log []string // deterministic event log (for traces and the determinism self-test)

	Opts       WorldOpts
	Journal    []*JBlock // recorded history (only when RecordJournal was set at creation)
	record     bool
	inHook     bool
	inReadHook bool
	blocksFed  int
	pendingObs []*state.AppExecResult
	txMeta     map[*transaction.Transaction]*JTx
	sigMeta    map[*transaction.Transaction]*JTx
	callOf     map[*transaction.Transaction]string
	lastCall   string // last invocation of the previous non-empty block (interleaving cells)
}

// Logf appends to the deterministic event log.
func (w *World) Logf(format string, a ...any) {
	w.Log = append(w.Log, fmt.Sprintf(format, a...))
}

// LogHash is the SHA-256 of the event log.
func (w *World) LogHash() string {
	h := sha256.New()
	for _, l := range w.Log {
		h.Write([]byte(l))
		h.Write([]byte{'\n'})
	}
	return hex.EncodeToString(h.Sum(nil))
}

// WorldOpts configure NewWorld.
type WorldOpts struct {
	N         int
	Label     string // key derivation label
	P2PSigExt bool
	// Validators is the number of committee members that are validators (the
	// first ones in key order, as in Neo's standby set); 0 = drawn by
	// DrawValidators if set, otherwise all of them.
	Validators int
	// Prepare, if set, pre-populates the store before the chain is created
	// (contract states and storages restored from a network dump).
	Prepare func(s storage.Store)
}

// DrawValidators, if set (by Run.Sim, from the run's choice source), decides
// how many of a new world's committee members are validators.
var DrawValidators func(n int) int

// BlockCell, if set, receives the interleaving cells World.AddBlock observes.
var BlockCell func(space, cell string)

// installWorldDraws lets the run's choice source decide the world dimensions
// no engine chooses itself: in a quarter of the runs only the first v < n
// committee members are validators (the committee, not the validator set, is
// what the contracts' committee and Alphabet witnesses are documented to mean).
func installWorldDraws(r *Run) {
	// reach measure for interleavings: which ordered pairs of invocations
	// (with their outcomes) shared a block, and which followed one another
	// across a block boundary
	BlockCell = func(space, cell string) { r.Cell(space, cell) }
	DrawValidators = func(n int) int {
		if n < 2 || !Chance(r.T, "fewerValidators", 25) {
			return n
		}
		r.Inject("world.fewer_validators_than_committee")
		r.Fired("world.fewer_validators_than_committee")
		return 1 + Pick(r.T, "validators", n-1)
	}
}

// NewWorld creates a chain with an n-member committee (all or the first few
// of them validators) and funds the fee payer.
func NewWorld(o WorldOpts) *World {
	w := newBareWorld(o)
	// fund the payer from the validators' genesis GAS
	script, err := smartcontract.CreateCallScript(w.GAS, "transfer", w.Validator.Hash, w.Payer.Hash, int64(40_000_000_0000_0000), nil)
	must(err)
	tx := w.rawTx(script, []Signer{w.Validator}, 1_0000_0000, 1_0000_0000)
	res := w.AddBlock([]*transaction.Transaction{tx}, 1)
	if res[0].VMState != vmstate.Halt {
		harnessf("payer funding failed: %s", res[0].FaultException)
	}
	return w
}

func newBareWorld(o WorldOpts) *World {
	n := o.N
	if o.Label == "" {
		o.Label = "committee"
	}
	if o.Validators == 0 && DrawValidators != nil {
		o.Validators = DrawValidators(n)
	}
	if o.Validators <= 0 || o.Validators > n {
		o.Validators = n
	}
	nv := o.Validators
	privs := make([]*keys.PrivateKey, n)
	for i := range privs {
		privs[i] = DetKey(fmt.Sprintf("%s/%d", o.Label, i))
	}
	sort.Slice(privs, func(i, j int) bool { return privs[i].PublicKey().Cmp(privs[j].PublicKey()) < 0 })
	sc := make([]string, n)
	pubs := make(keys.PublicKeys, n)
	for i := range privs {
		pubs[i] = privs[i].PublicKey()
		sc[i] = hex.EncodeToString(pubs[i].Bytes())
	}
	cfg := config.Blockchain{ProtocolConfiguration: config.ProtocolConfiguration{
		Magic: netmode.UnitTestNet, MaxTraceableBlocks: 100000, TimePerBlock: time.Second,
		StandbyCommittee: sc, ValidatorsCount: uint32(nv), VerifyTransactions: true,
		P2PSigExtensions: o.P2PSigExt,
	}}
	var store storage.Store = storage.NewMemoryStore()
	if o.Prepare != nil {
		o.Prepare(store)
		// contracts put into the store behind the ledger's back become visible
		// only after the chain was run once (neo-go#2926, same as tests/migration)
		bc0, err := core.NewBlockchain(nopCloseStore{store}, cfg, zap.NewNop())
		must(err)
		go bc0.Run()
		bc0.Close()
	}
	bc, err := core.NewBlockchain(store, cfg, zap.NewNop())
	must(err)
	go bc.Run()
	w := &World{BC: bc, N: n, Privs: privs, Pubs: pubs, Magic: cfg.Magic, C: map[string]*Deployed{}, Opts: o, record: RecordJournal, txMeta: map[*transaction.Transaction]*JTx{}, sigMeta: map[*transaction.Transaction]*JTx{}, callOf: map[*transaction.Transaction]string{}}
	w.Validator = Multi("validators", smartcontract.GetDefaultHonestNodeCount(nv), privs[:nv])
	w.Alphabet = Multi("alphabet", n*2/3+1, privs)
	w.Committee = Multi("committee", n/2+1, privs)
	w.Payer = Single("payer", DetKey(o.Label+"/payer")).WithScope(transaction.None)
	w.GAS = w.native(nativenames.Gas)
	w.NEO = w.native(nativenames.Neo)
	w.Mgmt = w.native(nativenames.Management)
	w.Roles = w.native(nativenames.Designation)
	w.Policy = w.native(nativenames.Policy)
	w.NotaryH, _ = bc.GetNativeContractScriptHash(nativenames.Notary)
	return w
}

// Close stops the chain goroutine.
func (w *World) Close() { w.BC.Close() }

func (w *World) native(name string) util.Uint160 {
	h, err := w.BC.GetNativeContractScriptHash(name)
	must(err)
	return h
}

func (w *World) rawTx(script []byte, signers []Signer, sysFee, netFee int64) *transaction.Transaction {
	w.nonce++
	return w.rawTxNonce(script, signers, sysFee, netFee, w.nonce)
}

func (w *World) rawTxNonce(script []byte, signers []Signer, sysFee, netFee int64, nonce uint32) *transaction.Transaction {
	tx := transaction.New(script, sysFee)
	tx.Nonce = nonce
	if BlockCell != nil {
		if ci := LookupCall(script); ci != nil {
			w.callOf[tx] = ci.Method
		}
	}
	if TxHook != nil {
		w.sigMeta[tx] = &JTx{Script: script, Signers: append([]Signer(nil), signers...)}
	}
	if w.record {
		w.txMeta[tx] = &JTx{Script: script, Signers: append([]Signer(nil), signers...), SysFee: sysFee, NetFee: netFee, Nonce: nonce}
	}
	tx.ValidUntilBlock = w.BC.BlockHeight() + 1000
	tx.NetworkFee = netFee
	for _, s := range signers {
		tx.Signers = append(tx.Signers, transaction.Signer{Account: s.Hash, Scopes: s.Scope, AllowedContracts: s.Allowed})
	}
	for _, s := range signers {
		tx.Scripts = append(tx.Scripts, s.witness(w.Magic, tx))
	}
	return tx
}

// DefaultSysFee is what every simulated transaction gets unless a fault cuts it.
const DefaultSysFee = 200_0000_0000

// Tx builds a signed transaction. The payer is the sender (scope None); the
// given signers follow. Duplicated accounts are dropped (a ledger refuses
// them).
func (w *World) Tx(script []byte, signers []Signer, sysFee int64) *transaction.Transaction {
	if sysFee < 0 {
		sysFee = DefaultSysFee
	}
	all := []Signer{w.Payer}
	seen := map[util.Uint160]bool{w.Payer.Hash: true}
	for _, s := range signers {
		if seen[s.Hash] {
			continue
		}
		seen[s.Hash] = true
		all = append(all, s)
	}
	return w.rawTx(script, all, sysFee, 2_0000_0000)
}

// CallInfo is what a script built by CallScript invokes.
type CallInfo struct {
	Hash   util.Uint160
	Method string
	Args   []any
}

var callIndex = map[string]*CallInfo{}

// LookupCall tells what a script built by CallScript invokes (nil for scripts
// built any other way).
func LookupCall(script []byte) *CallInfo { return callIndex[string(script)] }

// ResetCallIndex forgets the scripts seen so far (called once per run).
func ResetCallIndex() { callIndex = map[string]*CallInfo{} }

// TxHook, if set, sees every transaction of every block right before the block
// is fed to the chain (state = pre-block state). C03 uses it to re-evaluate
// the same invocation under degraded signer sets in what-if VMs.
var TxHook func(w *World, script []byte, signers []Signer)

// ReadHook, if set, sees every what-if execution (used by C03 for the "safe
// methods never modify state" clause).
var ReadHook func(w *World, script []byte, p *Probe)

// CallScript builds an invocation script.
func CallScript(h util.Uint160, method string, args ...any) []byte {
	s, err := smartcontract.CreateCallScript(h, method, args...)
	if err != nil {
		harnessf("call script %s: %v", method, err)
	}
	if len(callIndex) < 200000 {
		callIndex[string(s)] = &CallInfo{Hash: h, Method: method, Args: args}
	}
	return s
}

// CallTx = Tx(CallScript(...)).
func (w *World) CallTx(signers []Signer, sysFee int64, h util.Uint160, method string, args ...any) *transaction.Transaction {
	return w.Tx(CallScript(h, method, args...), signers, sysFee)
}

// AddBlock produces the next block from the given transactions (executed in this
// order) dtMillis after the previous one and returns the application logs in
// the same order.
func (w *World) AddBlock(txs []*transaction.Transaction, dtMillis uint64) []*state.AppExecResult {
	if dtMillis == 0 {
		dtMillis = 1
	}
	w.FinishJournal()
	if TxHook != nil && !w.inHook {
		w.inHook = true
		for _, tx := range txs {
			if m := w.sigMeta[tx]; m != nil {
				TxHook(w, m.Script, m.Signers)
			}
		}
		w.inHook = false
	}
	var callNames []string
	if BlockCell != nil && !w.inHook {
		for _, tx := range txs {
			name := "?"
			if m, ok := w.callOf[tx]; ok {
				name = m
				delete(w.callOf, tx)
			}
			callNames = append(callNames, name)
		}
	}
	for _, tx := range txs {
		delete(w.sigMeta, tx)
	}
	if BlockHook != nil && !w.inHook {
		w.blocksFed++
		w.inHook = true
		BlockHook(w, w.blocksFed)
		w.inHook = false
	}
	last, err := w.BC.GetBlock(w.BC.GetHeaderHash(w.BC.BlockHeight()))
	must(err)
	b := &block.Block{
		Header: block.Header{
			NextConsensus: w.Validator.Hash,
			Script:        transaction.Witness{VerificationScript: w.Validator.Script},
			Timestamp:     last.Timestamp + dtMillis,
			PrevHash:      last.Hash(),
			Index:         last.Index + 1,
		},
		Transactions: txs,
	}
	b.RebuildMerkleRoot()
	buf := io.NewBufBinWriter()
	for _, k := range w.Validator.Keys {
		emit.Bytes(buf.BinWriter, k.SignHashable(uint32(w.Magic), b))
	}
	b.Script.InvocationScript = buf.Bytes()
	if err := w.BC.AddBlock(b); err != nil {
		harnessf("AddBlock #%d: %v", b.Index, err)
	}
	res := make([]*state.AppExecResult, len(txs))
	for i, tx := range txs {
		aers, err := w.BC.GetAppExecResults(tx.Hash(), trigger.Application)
		if err != nil || len(aers) != 1 {
			harnessf("no application log for tx %d of block %d: %v", i, b.Index, err)
		}
		res[i] = &aers[0]
	}
	if callNames != nil {
		tag := func(i int) string {
			if res[i].VMState == vmstate.Halt {
				return callNames[i] + ":H"
			}
			return callNames[i] + ":F"
		}
		for i := 1; i < len(callNames); i++ {
			if callNames[i-1] != "?" && callNames[i] != "?" {
				BlockCell("interleaving.same_block_ordered_pair", tag(i-1)+">"+tag(i))
			}
		}
		if n := len(callNames); n > 0 && callNames[0] != "?" && w.lastCall != "" {
			BlockCell("interleaving.across_block_boundary", w.lastCall+"|"+tag(0))
		}
		w.lastCall = ""
		if n := len(callNames); n > 0 && callNames[n-1] != "?" {
			w.lastCall = tag(n - 1)
		}
	}
	if w.record {
		jb := &JBlock{Dt: dtMillis}
		for i, tx := range txs {
			m := w.txMeta[tx]
			if m == nil {
				harnessf("transaction %d of block %d was not built by this world", i, b.Index)
			}
			m.Hash = tx.Hash()
			jb.Txs = append(jb.Txs, m)
			delete(w.txMeta, tx)
		}
		w.Journal = append(w.Journal, jb)
		w.pendingObs = res
	}
	return res
}

// FinishJournal records the observation of the last block (done lazily so that
// contracts deployed by that block are already registered in w.C).
func (w *World) FinishJournal() {
	if w.pendingObs != nil {
		jb := w.Journal[len(w.Journal)-1]
		dep := make([]bool, len(jb.Txs))
		for i, jt := range jb.Txs {
			dep[i] = jt.Deploy != nil
		}
		jb.Obs = w.observe(w.pendingObs, dep, nil)
		w.pendingObs = nil
	}
}

// Height is the current block index.
func (w *World) Height() uint32 { return w.BC.BlockHeight() }

// Now is the timestamp (ms) of the top block.
func (w *World) Now() uint64 {
	last, err := w.BC.GetBlock(w.BC.GetHeaderHash(w.BC.BlockHeight()))
	must(err)
	return last.Timestamp
}

// Deploy deploys an artifact with the committee and Alphabet witnesses.
func (w *World) Deploy(key string, a *Artifact, data any) *Deployed {
	d, aer := w.TryDeploy(key, a, data, []Signer{w.Committee, w.Alphabet})
	if d == nil && !a.Probe && strings.Contains(aer.FaultException, "witness") && Prop() != "C03" &&
		w.Validator.Hash != w.Alphabet.Hash && w.Validator.Hash != w.Committee.Hash {
		// (fewer validators than committee members.) That the required witnesses
		// suffice is C03's rule; the other checks want a world all the same: the
		// validators' account signs too — a witness nobody asks for changes
		// nothing where the contracts are right
		d, aer = w.TryDeploy(key, a, data, []Signer{w.Committee, w.Alphabet, w.Validator})
	}
	if d == nil {
		if !a.Probe && strings.Contains(aer.FaultException, "witness") {
			// not the simulator's trouble: a repository contract refuses the
			// deployment although the committee and the Alphabet witness it
			panic(SetupRefused{fmt.Sprintf("deployment of %s with the committee's and the Alphabet's witnesses refused: %s", key, aer.FaultException)})
		}
		harnessf("deploy %s failed: %s", key, aer.FaultException)
	}
	return d
}

// SetupRefused is panicked when a world cannot be built because a contract
// under test refuses a properly witnessed set-up call. Sim turns it into the
// C03 rule "the required witnesses suffice" (foreign to every other check:
// those runs end quietly and are counted).
type SetupRefused struct{ Msg string }

// stateContractHash predicts the hash a contract gets when `sender` deploys it.
func stateContractHash(sender util.Uint160, a *Artifact) util.Uint160 {
	return state.CreateContractHash(sender, a.NEF.Checksum, a.Manifest.Name)
}

// TryDeploy deploys with the given signers.
func (w *World) TryDeploy(key string, a *Artifact, data any, signers []Signer) (*Deployed, *state.AppExecResult) {
	tx := w.CallTx(signers, -1, w.Mgmt, "deploy", a.NEFBytes, a.ManBytes, data)
	if m := w.txMeta[tx]; m != nil {
		m.Deploy = &JDeploy{Key: key, Art: a, Data: data}
	}
	aer := w.AddBlock([]*transaction.Transaction{tx}, 1)[0]
	if aer.VMState != vmstate.Halt {
		return nil, aer
	}
	h := state.CreateContractHash(tx.Sender(), a.NEF.Checksum, a.Manifest.Name)
	cs := w.BC.GetContractState(h)
	if cs == nil {
		harnessf("deployed contract %s not found", key)
	}
	d := &Deployed{Name: key, Hash: h, ID: cs.ID, Manifest: &cs.Manifest}
	if !a.Probe {
		d.Repo = a.Name
	}
	w.C[key] = d
	return d, aer
}

// ---------------------------------------------------------------------------
// Test VM ("what-if") execution

// Probe is the result of a what-if execution.
type Probe struct {
	RawIters [][]stackitem.Item // per stack position: the values of the iterator that was there (nil otherwise)
	State    vmstate.State
	Fault    string
	Stack    []stackitem.Item
	Events   []state.NotificationEvent
	Ops      []StorageOp // effective storage changes (all contracts incl. natives); no-op writes are filtered out
	GAS      int64
}

// StorageOp is one effective storage change of a what-if execution.
type StorageOp struct {
	ID      int32
	Key     []byte
	Value   []byte
	Deleted bool
}

// WhatIf executes a script against the current state in a throw-away VM with
// the given signers' accounts and scopes (no signatures are needed: the VM only
// looks at the signer list). Nothing is committed.
func (w *World) WhatIf(script []byte, signers []Signer, dtMillis uint64) *Probe {
	tx := transaction.New(script, 0)
	tx.Nonce = 0
	tx.ValidUntilBlock = w.BC.BlockHeight() + 1
	tx.Signers = []transaction.Signer{{Account: w.Payer.Hash, Scopes: transaction.None}}
	for _, s := range signers {
		if s.Hash == w.Payer.Hash {
			continue
		}
		tx.Signers = append(tx.Signers, transaction.Signer{Account: s.Hash, Scopes: s.Scope, AllowedContracts: s.Allowed})
	}
	if dtMillis == 0 {
		dtMillis = 1
	}
	b := &block.Block{Header: block.Header{Index: w.BC.BlockHeight() + 1, Timestamp: w.Now() + dtMillis}}
	ic, err := w.BC.GetTestVM(trigger.Application, tx, b)
	must(err)
	defer ic.Finalize()
	ic.VM.GasLimit = 2000_0000_0000
	ic.VM.LoadScriptWithFlags(script, callflag.All)
	p := &Probe{}
	if err := ic.VM.Run(); err != nil {
		p.Fault = err.Error()
	}
	p.State = ic.VM.State()
	p.GAS = ic.VM.GasConsumed()
	if p.State == vmstate.Halt {
		p.Stack, p.RawIters = drainStackRaw(ic)
		p.Events = ic.Notifications
		for _, op := range storage.BatchToOperations(ic.DAO.GetBatch()) {
			if len(op.Key) < 4 {
				continue
			}
			id := int32(binary.LittleEndian.Uint32(op.Key[:4]))
			key := op.Key[4:]
			old := w.BC.GetStorageItem(id, key)
			if op.State == "Deleted" {
				if old == nil {
					continue
				}
				p.Ops = append(p.Ops, StorageOp{ID: id, Key: key, Deleted: true})
				continue
			}
			if old != nil && bytes.Equal(old, op.Value) {
				continue
			}
			p.Ops = append(p.Ops, StorageOp{ID: id, Key: key, Value: op.Value})
		}
	}
	if ReadHook != nil && !w.inReadHook {
		w.inReadHook = true
		ReadHook(w, script, p)
		w.inReadHook = false
	}
	return p
}

func drainStack(ic *interop.Context) []stackitem.Item {
	items, _ := drainStackRaw(ic)
	return items
}

// drainStackRaw returns the stack bottom-up with iterators replaced by arrays
// of their values, and for every position that held an iterator its values.
func drainStackRaw(ic *interop.Context) ([]stackitem.Item, [][]stackitem.Item) {
	est := ic.VM.Estack()
	items := make([]stackitem.Item, 0, est.Len())
	var iters [][]stackitem.Item
	for est.Len() > 0 {
		it := est.Pop().Item()
		var vals []stackitem.Item
		if ii, ok := it.Value().(*istorage.Iterator); ok {
			vals = []stackitem.Item{}
			for ii.Next() {
				vals = append(vals, ii.Value())
			}
			it = stackitem.NewArray(vals)
		}
		items = append(items, it)
		iters = append(iters, vals)
	}
	// bottom .. top → reverse into push order
	for i, j := 0, len(items)-1; i < j; i, j = i+1, j-1 {
		items[i], items[j] = items[j], items[i]
		iters[i], iters[j] = iters[j], iters[i]
	}
	return items, iters
}

func (w *World) whatIfRaw(script []byte) *Probe { return w.WhatIf(script, nil, 0) }

// Read invokes a (read-only) method in a test VM and returns the single result.
// Iterators are drained into arrays. err != nil means FAULT.
func (w *World) Read(h util.Uint160, method string, args ...any) (stackitem.Item, error) {
	p := w.WhatIf(CallScript(h, method, args...), nil, 0)
	if p.State != vmstate.Halt {
		return nil, fmt.Errorf("%s", p.Fault)
	}
	if len(p.Stack) != 1 {
		return nil, fmt.Errorf("stack size %d", len(p.Stack))
	}
	return p.Stack[0], nil
}

// ReadInt is Read + integer conversion; harness error on FAULT.
func (w *World) ReadInt(h util.Uint160, method string, args ...any) *big.Int {
	it, err := w.Read(h, method, args...)
	if err != nil {
		harnessf("read %s: %v", method, err)
	}
	v, err := it.TryInteger()
	if err != nil {
		harnessf("read %s: %v", method, err)
	}
	return v
}

// ---------------------------------------------------------------------------
// Storage observation

// KV is one storage entry.
type KV struct{ K, V []byte }

// Scan returns all storage entries of a contract under a prefix, sorted by key.
func (w *World) Scan(id int32, prefix []byte) []KV {
	var out []KV
	w.BC.SeekStorage(id, prefix, func(k, v []byte) bool {
		out = append(out, KV{K: append(append([]byte{}, prefix...), k...), V: append([]byte{}, v...)})
		return true
	})
	sort.Slice(out, func(i, j int) bool { return bytes.Compare(out[i].K, out[j].K) < 0 })
	return out
}

// StorageDigest hashes the whole storage of a contract.
func (w *World) StorageDigest(id int32) string {
	h := sha256.New()
	for _, kv := range w.Scan(id, nil) {
		var l [4]byte
		binary.LittleEndian.PutUint32(l[:], uint32(len(kv.K)))
		h.Write(l[:])
		h.Write(kv.K)
		binary.LittleEndian.PutUint32(l[:], uint32(len(kv.V)))
		h.Write(l[:])
		h.Write(kv.V)
	}
	return hex.EncodeToString(h.Sum(nil)[:12])
}

// DiffKV describes how two scans differ (for messages).
func DiffKV(a, b []KV) string {
	am := map[string]string{}
	for _, kv := range a {
		am[string(kv.K)] = string(kv.V)
	}
	var sb strings.Builder
	bm := map[string]bool{}
	for _, kv := range b {
		bm[string(kv.K)] = true
		if v, ok := am[string(kv.K)]; !ok {
			fmt.Fprintf(&sb, "+%x ", kv.K)
		} else if v != string(kv.V) {
			fmt.Fprintf(&sb, "~%x ", kv.K)
		}
	}
	for _, kv := range a {
		if !bm[string(kv.K)] {
			fmt.Fprintf(&sb, "-%x ", kv.K)
		}
	}
	return sb.String()
}

// GASOf is the native GAS balance.
func (w *World) GASOf(a util.Uint160) *big.Int { return w.BC.GetUtilityTokenBalance(a) }

// ---------------------------------------------------------------------------
// Helpers for stack items

// ItemBytes returns the byte representation or nil for Null.
func ItemBytes(it stackitem.Item) []byte {
	if it == nil {
		return nil
	}
	if _, ok := it.(stackitem.Null); ok {
		return nil
	}
	b, err := it.TryBytes()
	if err != nil {
		harnessf("item is not bytes: %v", it.Type())
	}
	return b
}

// ItemInt returns the integer value of an item.
func ItemInt(it stackitem.Item) *big.Int {
	if _, ok := it.(stackitem.Null); ok {
		return big.NewInt(0)
	}
	v, err := it.TryInteger()
	if err != nil {
		harnessf("item is not an integer: %v", it.Type())
	}
	return v
}

// ItemArr returns the elements of an array/struct item.
func ItemArr(it stackitem.Item) []stackitem.Item {
	if _, ok := it.(stackitem.Null); ok {
		return nil
	}
	arr, ok := it.Value().([]stackitem.Item)
	if !ok {
		harnessf("item is not an array: %v", it.Type())
	}
	return arr
}

// GasFault reports whether a fault text is the VM's out-of-GAS condition.
func GasFault(s string) bool {
	return strings.Contains(s, "gas limit") || strings.Contains(s, "insufficient amount of gas") || strings.Contains(s, "GAS limit")
}

var _ = opcode.RET
