"""Determinism self-test: equal seeds must give equal event logs.

For every engine test function, S rapid seeds x GOMAXPROCS {1,4,16} (and a
repeat at 1) are run as separate OS processes, 16 at a time (so that they
compete for cores), each executing K simulated runs with VERIF_LOGHASH=1; the
per-run SHA-256 of the event log must agree across all processes of a seed.
"""
import json
import os
import subprocess
import sys
import shutil
import time
from concurrent.futures import ThreadPoolExecutor

import importlib.machinery
import importlib.util

_here = os.path.dirname(os.path.abspath(__file__))
_loader = importlib.machinery.SourceFileLoader("check", os.path.join(_here, "check"))
_spec = importlib.util.spec_from_loader("check", _loader)
check = importlib.util.module_from_spec(_spec)
_loader.exec_module(check)


def run_one(binary, test, prop, seed, cpu, d, k, extra_env):
    os.makedirs(d, exist_ok=True)
    env = dict(check.ENV)
    env.update({"VERIF_PROP": prop, "VERIF_TIER": "quick", "VERIF_LOGHASH": "1", "VERIF_STATS": os.path.join(d, "stats.json")})
    env.update(extra_env)
    p = subprocess.run([binary, "-test.run", "^%s$" % test, "-test.timeout", "3000s", "-rapid.checks", str(k), "-rapid.seed", str(seed),
                        "-rapid.nofailfile", "-rapid.shrinktime", "0s", "-test.cpu", str(cpu)], cwd=d, env=env,
                       stdout=subprocess.PIPE, stderr=subprocess.STDOUT, text=True)
    try:
        with open(os.path.join(d, "stats.json")) as f:
            return json.load(f).get("log_hashes") or [], p.returncode
    except FileNotFoundError:
        return None, p.returncode


def main(args):
    which = args[0] if args else "all"
    seeds = int(os.environ.get("VERIF_SELFTEST_SEEDS", "10"))
    engines = {}
    for pid, c in sorted(check.CHECKS.items()):
        engines.setdefault((c["sim"], c["test"]), pid)
    bad = 0
    for (sim, test), prop in sorted(engines.items()):
        if which not in ("all", sim, test):
            continue
        binary = check.build(sim)
        k = 3 if sim == "D" else 25
        if sim == "D":
            # the upgrade scenario needs the older-version executables
            check.CHECKS[prop]["extra"].setdefault("env", {})["VERIF_OLDART"] = check.old_artifacts()
        jobs = []
        base = os.path.join(check.WORK, "selftest", test)
        shutil.rmtree(base, ignore_errors=True)
        for s in range(seeds):
            seed = check.worker_seed(7 + s, s)
            for tag, cpu in (("c1", 1), ("c4", 4), ("c16", 16), ("c1b", 1)):
                jobs.append((s, tag, seed, cpu, os.path.join(base, "s%d_%s" % (s, tag))))
        t0 = time.time()
        with ThreadPoolExecutor(max_workers=16) as ex:
            futs = [(j, ex.submit(run_one, binary, test, prop, j[2], j[3], j[4], k, check.CHECKS[prop]["extra"].get("env", {}))) for j in jobs]
            res = {}
            for j, f in futs:
                res[(j[0], j[1])] = f.result()
        ndiff = 0
        nruns = 0
        for s in range(seeds):
            ref, _ = res[(s, "c1")]
            if not ref:
                print("selftest %s seed#%d: no log hashes (rc=%s)" % (test, s, res[(s, "c1")][1]))
                ndiff += 1
                continue
            nruns += len(ref)
            for tag in ("c4", "c16", "c1b"):
                got, _ = res[(s, tag)]
                if got != ref:
                    first = next((i for i, (a, b) in enumerate(zip(ref, got or [])) if a != b), min(len(ref), len(got or [])))
                    print("selftest %s seed#%d (%d): %s differs from c1 at run %d (%d vs %d hashes)" % (test, s, jobs[s * 4][2], tag, first, len(got or []), len(ref)))
                    ndiff += 1
        print("selftest %s (%s): %d seeds x 4 processes, %d simulated runs each compared, %d divergences, %.0fs" % (test, sim, seeds, nruns, ndiff, time.time() - t0))
        bad += ndiff
    return 2 if bad else 0
