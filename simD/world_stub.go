package simd

import (
	"crypto/sha256"
	"encoding/hex"
)

// World is the minimal stand-in run.go (shared verbatim with simL) needs: the
// deterministic event log of a run.
type World struct {
	Log       []string
	blocksFed int
}

// Close does nothing (the chain lives and dies inside the synctest bubble).
func (w *World) Close() {}

// LogHash is the SHA-256 of the event log.
func (w *World) LogHash() string {
	h := sha256.New()
	for _, l := range w.Log {
		h.Write([]byte(l))
		h.Write([]byte{'\n'})
	}
	return hex.EncodeToString(h.Sum(nil))
}

// ResetCallIndex exists only because run.go is shared verbatim with simL.
func ResetCallIndex() {}

// SetupRefused exists only because run.go is shared verbatim with simL.
type SetupRefused struct{ Msg string }

// installWorldDraws exists only because run.go is shared verbatim with simL.
func installWorldDraws(r *Run) {}
