// Package simd is simulator D: n concurrent deploy.Deploy runs over one
// in-process chain inside a testing/synctest bubble. This file is the seam:
// an in-process implementation of deploy.Blockchain whose every call parks at
// the gate until the seeded scheduler releases it. See /verif/DESIGN.md §3.
package simd

import (
	"context"
	"crypto/sha256"
	"encoding/hex"
	"errors"
	"fmt"
	"path/filepath"
	"sort"
	"sync"
	"testing/synctest"
	"time"

	"github.com/google/uuid"
	"github.com/nspcc-dev/neo-go/pkg/config"
	"github.com/nspcc-dev/neo-go/pkg/config/netmode"
	"github.com/nspcc-dev/neo-go/pkg/core"
	"github.com/nspcc-dev/neo-go/pkg/core/block"
	"github.com/nspcc-dev/neo-go/pkg/core/interop"
	"github.com/nspcc-dev/neo-go/pkg/core/interop/iterator"
	"github.com/nspcc-dev/neo-go/pkg/core/mempool"
	"github.com/nspcc-dev/neo-go/pkg/core/mempoolevent"
	"github.com/nspcc-dev/neo-go/pkg/core/native/nativenames"
	"github.com/nspcc-dev/neo-go/pkg/core/state"
	"github.com/nspcc-dev/neo-go/pkg/core/storage"
	"github.com/nspcc-dev/neo-go/pkg/core/transaction"
	"github.com/nspcc-dev/neo-go/pkg/crypto/keys"
	"github.com/nspcc-dev/neo-go/pkg/io"
	"github.com/nspcc-dev/neo-go/pkg/neorpc"
	"github.com/nspcc-dev/neo-go/pkg/neorpc/result"
	"github.com/nspcc-dev/neo-go/pkg/network"
	"github.com/nspcc-dev/neo-go/pkg/network/payload"
	notarysvc "github.com/nspcc-dev/neo-go/pkg/services/notary"
	"github.com/nspcc-dev/neo-go/pkg/smartcontract"
	"github.com/nspcc-dev/neo-go/pkg/smartcontract/callflag"
	"github.com/nspcc-dev/neo-go/pkg/smartcontract/manifest"
	"github.com/nspcc-dev/neo-go/pkg/smartcontract/trigger"
	"github.com/nspcc-dev/neo-go/pkg/util"
	"github.com/nspcc-dev/neo-go/pkg/vm"
	"github.com/nspcc-dev/neo-go/pkg/vm/stackitem"
	"github.com/nspcc-dev/neo-go/pkg/vm/vmstate"
	"github.com/nspcc-dev/neo-go/pkg/wallet"
	"go.uber.org/zap"
)

const msPerBlock = 1000

// HarnessError is the simulator's own trouble (exit 2, never a violation).
type HarnessError struct{ Msg string }

func (h HarnessError) Error() string { return "HARNESS: " + h.Msg }

func harnessf(format string, a ...any) { panic(HarnessError{fmt.Sprintf(format, a...)}) }

func must(err error) {
	if err != nil {
		harnessf("%v", err)
	}
}

// DetKey derives a P-256 key from a label.
func DetKey(label string) *keys.PrivateKey {
	h := sha256.Sum256([]byte(label))
	for {
		k, err := keys.NewPrivateKeyFromBytes(h[:])
		if err == nil {
			return k
		}
		h = sha256.Sum256(h[:])
	}
}

type session struct {
	ic    *interop.Context
	iters map[string]stackitem.Item
}

// sub is the pair of event streams of one Deploy incarnation.
type sub struct {
	member int
	inc    int
	blkCh  chan *block.Block
	nrCh   chan *result.NotaryRequestEvent
	blkQ   []*block.Block
	nrQ    []*result.NotaryRequestEvent
	closed bool
}

// Chain is the shared in-process ledger plus notary machinery.
type Chain struct {
	mu       sync.Mutex
	bc       *core.Blockchain
	n        int
	privs    []*keys.PrivateKey
	pubs     keys.PublicKeys
	valAccs  []*wallet.Account
	nrPool   *mempool.Pool
	feer     network.NotaryFeer
	ntr      *notarysvc.Notary
	sessions map[string]*session
	gate     *Gate
	subs     []*sub // in creation order
	evCh     chan mempoolevent.Event
	// every transaction / notary request accepted from a member (content keys)
	onTx     func(member int, tx *transaction.Transaction, notaryMain bool)
	keyMu    sync.Mutex
	txKeys   map[util.Uint256]string // hash → content key of every transaction a member has sent
	onReject func(member int, tx *transaction.Transaction, err error)
}

// NewChain builds the chain; must be called inside the synctest bubble.
func NewChain(n int, dir string) *Chain {
	log := zap.NewNop()
	privs := make([]*keys.PrivateKey, n)
	for i := range privs {
		privs[i] = DetKey(fmt.Sprintf("committee/%d", i))
	}
	sort.Slice(privs, func(i, j int) bool { return privs[i].PublicKey().Cmp(privs[j].PublicKey()) < 0 })
	sc := make([]string, n)
	pubs := make(keys.PublicKeys, n)
	for i := range privs {
		sc[i] = hex.EncodeToString(privs[i].PublicKey().Bytes())
		pubs[i] = privs[i].PublicKey()
	}
	cfg := config.Blockchain{ProtocolConfiguration: config.ProtocolConfiguration{
		Magic: netmode.UnitTestNet, MaxTraceableBlocks: 200000, TimePerBlock: msPerBlock * time.Millisecond,
		StandbyCommittee: sc, ValidatorsCount: uint32(n), VerifyTransactions: true,
		P2PSigExtensions: true, MaxValidUntilBlockIncrement: 5760,
	}}
	bc, err := core.NewBlockchain(storage.NewMemoryStore(), cfg, log)
	must(err)
	go bc.Run()
	c := &Chain{bc: bc, n: n, privs: privs, pubs: pubs, sessions: map[string]*session{}, gate: NewGate()}
	m := smartcontract.GetDefaultHonestNodeCount(n)
	for i := range privs {
		a := wallet.NewAccountFromPrivateKey(privs[i])
		must(a.ConvertMultisig(m, pubs))
		c.valAccs = append(c.valAccs, a)
	}
	c.feer = network.NewNotaryFeer(bc)
	c.nrPool = mempool.New(1000, 1, true, nil)
	bc.RegisterPostBlock(func(isRelevant func(*transaction.Transaction, *mempool.Pool, bool) bool, txpool *mempool.Pool, _ *block.Block) {
		c.nrPool.RemoveStale(func(t *transaction.Transaction) bool { return isRelevant(t, txpool, true) }, c.feer)
	})
	go c.nrPool.RunSubscriptions()
	synctest.Wait()
	// one notary service instance holding all committee keys (it activates the
	// first designated one it owns)
	w, err := wallet.NewWallet(filepath.Join(dir, "notary.json"))
	must(err)
	w.Scrypt = keys.ScryptParams{N: 2, R: 1, P: 1}
	for i := range privs {
		a := wallet.NewAccountFromPrivateKey(privs[i])
		must(a.Encrypt("p", w.Scrypt))
		w.AddAccount(a)
	}
	must(w.Save())
	nt, err := notarysvc.NewNotary(notarysvc.Config{
		MainCfg: config.P2PNotary{Enabled: true, UnlockWallet: config.Wallet{Path: w.Path(), Password: "p"}},
		Chain:   bc, Log: log,
	}, netmode.UnitTestNet, c.nrPool, func(tx *transaction.Transaction) error {
		return bc.PoolTx(tx)
	})
	must(err)
	c.ntr = nt
	bc.SetNotary(nt)
	nt.Start()
	synctest.Wait()
	// notary pool events are queued per subscriber; the scheduler delivers them
	evCh := make(chan mempoolevent.Event, 1000)
	c.evCh = evCh
	c.nrPool.SubscribeForTransactions(evCh)
	synctest.Wait()
	go func() {
		for ev := range evCh {
			req, ok := ev.Data.(*payload.P2PNotaryRequest)
			if !ok {
				continue
			}
			c.mu.Lock()
			for _, s := range c.subs {
				if !s.closed && s.nrCh != nil {
					s.nrQ = append(s.nrQ, &result.NotaryRequestEvent{Type: ev.Type, NotaryRequest: req})
				}
			}
			c.mu.Unlock()
		}
	}()
	synctest.Wait()
	return c
}

// Shutdown stops everything the chain started.
func (c *Chain) Shutdown() {
	c.mu.Lock()
	for _, s := range c.subs {
		c.closeSubLocked(s)
	}
	c.mu.Unlock()
	c.ntr.Shutdown()
	c.nrPool.StopSubscriptions()
	close(c.evCh)
	c.bc.Close()
}

func (c *Chain) closeSubLocked(s *sub) {
	if s.closed {
		return
	}
	s.closed = true
	if s.blkCh != nil {
		close(s.blkCh)
	}
	if s.nrCh != nil {
		close(s.nrCh)
	}
	s.blkQ, s.nrQ = nil, nil
}

// CloseSubs closes the event streams of one incarnation ("connection lost").
func (c *Chain) CloseSubs(member, inc int) {
	c.mu.Lock()
	defer c.mu.Unlock()
	for _, s := range c.subs {
		if s.member == member && s.inc == inc {
			c.closeSubLocked(s)
		}
	}
}

func (c *Chain) subFor(member, inc int) *sub {
	for _, s := range c.subs {
		if s.member == member && s.inc == inc {
			return s
		}
	}
	s := &sub{member: member, inc: inc}
	c.subs = append(c.subs, s)
	return s
}

// ValidatorAcc is member i's copy of the validator multi-signature account.
func (c *Chain) ValidatorAcc(i int) *wallet.Account { return c.valAccs[i] }

// PoolTxs returns the verified mempool transactions in canonical
// (hash-independent) order.
func (c *Chain) PoolTxs() []*transaction.Transaction {
	txs := c.bc.GetMemPool().GetVerifiedTransactions()
	sort.SliceStable(txs, func(i, j int) bool { return contentKey(txs[i]) < contentKey(txs[j]) })
	return txs
}

// ProduceBlock makes a block of the given transactions and queues the block
// event for every live subscriber.
func (c *Chain) ProduceBlock(txs []*transaction.Transaction) *block.Block {
	c.mu.Lock()
	defer c.mu.Unlock()
	bc := c.bc
	last, err := bc.GetBlock(bc.GetHeaderHash(bc.BlockHeight()))
	must(err)
	b := &block.Block{Header: block.Header{
		NextConsensus: c.valAccs[0].ScriptHash(),
		Script:        transaction.Witness{VerificationScript: c.valAccs[0].Contract.Script},
		Timestamp:     last.Timestamp + msPerBlock,
		PrevHash:      last.Hash(), Index: bc.BlockHeight() + 1,
	}, Transactions: txs}
	b.RebuildMerkleRoot()
	m := smartcontract.GetDefaultHonestNodeCount(len(c.privs))
	buf := io.NewBufBinWriter()
	for i := 0; i < m; i++ {
		sig := c.privs[i].SignHashable(uint32(netmode.UnitTestNet), b)
		buf.WriteB(0x0c)
		buf.WriteB(64)
		buf.WriteBytes(sig)
	}
	b.Script.InvocationScript = buf.Bytes()
	if err := bc.AddBlock(b); err != nil {
		harnessf("AddBlock %d: %v", b.Index, err)
	}
	for _, s := range c.subs {
		if !s.closed && s.blkCh != nil {
			s.blkQ = append(s.blkQ, b)
		}
	}
	return b
}

// SetCommitteeNEO leaves exactly `amount` NEO for the deployment procedure to
// hand to the committee and split between the Alphabet contracts: the rest of
// what genesis put on the validators' account goes to a sink. Harness set-up,
// done before any member starts.
func (c *Chain) SetCommitteeNEO(amount int64) {
	bc := c.bc
	neoH, err := bc.GetNativeContractScriptHash(nativenames.Neo)
	must(err)
	val := c.valAccs[0].ScriptHash()
	to := DetKey("neo/sink").GetScriptHash()
	have, _ := bc.GetGoverningTokenBalance(val)
	give := have.Int64() - amount
	if give <= 0 {
		return
	}
	script, err := smartcontract.CreateCallWithAssertScript(neoH, "transfer", val, to, give, nil)
	must(err)
	tx := transaction.New(script, 1_0000_0000)
	tx.Nonce = 0x5e70
	tx.ValidUntilBlock = bc.BlockHeight() + 100
	tx.NetworkFee = 1_0000_0000
	tx.Signers = []transaction.Signer{{Account: val, Scopes: transaction.CalledByEntry}}
	m := smartcontract.GetDefaultHonestNodeCount(c.n)
	buf := io.NewBufBinWriter()
	for i := 0; i < m; i++ {
		sig := c.privs[i].SignHashable(uint32(netmode.UnitTestNet), tx)
		buf.WriteB(0x0c)
		buf.WriteB(64)
		buf.WriteBytes(sig)
	}
	tx.Scripts = []transaction.Witness{{InvocationScript: buf.Bytes(), VerificationScript: c.valAccs[0].Contract.Script}}
	c.ProduceBlock([]*transaction.Transaction{tx})
	aers, err := bc.GetAppExecResults(tx.Hash(), trigger.Application)
	if err != nil || len(aers) == 0 || aers[0].VMState != vmstate.Halt {
		harnessf("NEO set-up transfer failed: %v %v", err, aers)
	}
}

// noteTx remembers the content key of a transaction a member sends, so that
// later questions about its (unreproducible) hash can be named canonically.
func (c *Chain) noteTx(tx *transaction.Transaction, key string) {
	c.keyMu.Lock()
	if c.txKeys == nil {
		c.txKeys = map[util.Uint256]string{}
	}
	c.txKeys[tx.Hash()] = key
	c.keyMu.Unlock()
}

func (c *Chain) keyOfHash(h util.Uint256) string {
	c.keyMu.Lock()
	defer c.keyMu.Unlock()
	if k, ok := c.txKeys[h]; ok {
		return k
	}
	return "?"
}

// contentKey is a nonce/hash independent canonical key of a transaction.
func contentKey(tx *transaction.Transaction) string {
	h := sha256.New()
	for _, s := range tx.Signers {
		h.Write(s.Account.BytesBE())
	}
	h.Write(normScript(tx.Script))
	for _, a := range tx.Attributes {
		h.Write([]byte{byte(a.Type)})
	}
	return hex.EncodeToString(h.Sum(nil))[:16]
}

// normScript blanks the only script content that depends on an unseedable
// random nonce: the shared-transaction-data record the leader writes to NNS.
func normScript(s []byte) []byte {
	// every PUSHDATA payload that does not look like a name (domain, e-mail,
	// method, lower-case hex address) is replaced by its length: signatures,
	// base64 shared-data records (random nonce inside) and executables
	nameLike := func(p []byte) bool {
		if len(p) > 80 {
			return false
		}
		for _, c := range p {
			if !(c >= 'a' && c <= 'z' || c >= 'A' && c <= 'Z' && len(p) < 24 || c >= '0' && c <= '9' || c == '.' || c == '-' || c == '_' || c == '@') {
				return false
			}
		}
		return true
	}
	out := make([]byte, 0, len(s))
	for i := 0; i < len(s); {
		if s[i] == 0x0c && i+1 < len(s) {
			l := int(s[i+1])
			if i+2+l <= len(s) {
				if nameLike(s[i+2 : i+2+l]) {
					out = append(out, s[i:i+2+l]...)
				} else {
					out = append(out, 0x0c, byte(l))
				}
				i += 2 + l
				continue
			}
		}
		if s[i] == 0x0d && i+2 < len(s) { // PUSHDATA2
			l := int(s[i+1]) | int(s[i+2])<<8
			if i+3+l <= len(s) {
				out = append(out, 0x0d, s[i+1], s[i+2])
				i += 3 + l
				continue
			}
		}
		out = append(out, s[i])
		i++
	}
	return out
}

// ---- deploy.Blockchain implementation ----

// RPC is the un-gated implementation; GRPC (gated.go) wraps it.
type RPC struct {
	c      *Chain
	ctx    context.Context
	member int
	inc    int
}

// ---- gate ----

type parkedCall struct {
	member int
	inc    int
	name   string
	seq    int
	write  bool
	run    func()
	fail   func()
	done   chan struct{}
}

// Gate parks every RPC call of every member until the scheduler decides.
type Gate struct {
	mu     sync.Mutex
	parked []*parkedCall
	seq    int
}

func NewGate() *Gate { return &Gate{} }

func (g *Gate) park(member, inc int, name string, write bool, run, fail func()) {
	p := &parkedCall{member: member, inc: inc, name: name, write: write, run: run, fail: fail, done: make(chan struct{})}
	g.mu.Lock()
	g.parked = append(g.parked, p)
	g.mu.Unlock()
	<-p.done
}

// Take returns the parked calls in canonical (arrival-independent) order.
func (g *Gate) Take() []*parkedCall {
	g.mu.Lock()
	defer g.mu.Unlock()
	res := append([]*parkedCall(nil), g.parked...)
	sort.SliceStable(res, func(i, j int) bool {
		if res[i].member != res[j].member {
			return res[i].member < res[j].member
		}
		if res[i].inc != res[j].inc {
			return res[i].inc < res[j].inc
		}
		return res[i].name < res[j].name
	})
	return res
}

func (g *Gate) remove(p *parkedCall) {
	g.mu.Lock()
	for i := range g.parked {
		if g.parked[i] == p {
			g.parked = append(g.parked[:i], g.parked[i+1:]...)
			break
		}
	}
	g.mu.Unlock()
}

// Release executes the call on the scheduler's goroutine and wakes the caller.
func (g *Gate) Release(p *parkedCall) {
	g.remove(p)
	p.run()
	close(p.done)
}

// ReleaseLost executes the call and then answers it with a connection error:
// the request reached the node, the reply did not reach the caller.
func (g *Gate) ReleaseLost(p *parkedCall) {
	g.remove(p)
	p.run()
	p.fail()
	close(p.done)
}

// Fail answers a parked call with a connection error without executing it.
func (g *Gate) Fail(p *parkedCall) {
	g.remove(p)
	p.fail()
	close(p.done)
}

// ErrSimConn is what an injected RPC failure or a crash looks like to deploy.
var ErrSimConn = errors.New("simulated: connection lost")

func gated[T any](r *RPC, name string, write bool, f func() (T, error)) (T, error) {
	var out T
	var err error
	r.c.gate.park(r.member, r.inc, name, write, func() { out, err = f() }, func() { err = ErrSimConn })
	return out, err
}

func (r *RPC) Context() context.Context { return r.ctx }

func (r *RPC) GetCommittee() (keys.PublicKeys, error) {
	r.c.mu.Lock()
	defer r.c.mu.Unlock()
	return r.c.bc.GetCommittee()
}

func (r *RPC) GetContractStateByID(id int32) (*state.Contract, error) {
	r.c.mu.Lock()
	defer r.c.mu.Unlock()
	h, err := r.c.bc.GetContractScriptHash(id)
	if err != nil {
		return nil, neorpc.ErrUnknownContract
	}
	cs := r.c.bc.GetContractState(h)
	if cs == nil {
		return nil, neorpc.ErrUnknownContract
	}
	return cs, nil
}

func (r *RPC) GetContractStateByHash(h util.Uint160) (*state.Contract, error) {
	r.c.mu.Lock()
	defer r.c.mu.Unlock()
	cs := r.c.bc.GetContractState(h)
	if cs == nil {
		return nil, neorpc.ErrUnknownContract
	}
	return cs, nil
}

func (r *RPC) SubscribeToNewBlocks() (<-chan *block.Block, error) {
	r.c.mu.Lock()
	defer r.c.mu.Unlock()
	s := r.c.subFor(r.member, r.inc)
	if s.blkCh == nil && !s.closed {
		s.blkCh = make(chan *block.Block, 4096)
	}
	return s.blkCh, nil
}

func (r *RPC) SubscribeToNotaryRequests() (<-chan *result.NotaryRequestEvent, error) {
	r.c.mu.Lock()
	defer r.c.mu.Unlock()
	s := r.c.subFor(r.member, r.inc)
	if s.nrCh == nil && !s.closed {
		s.nrCh = make(chan *result.NotaryRequestEvent, 4096)
	}
	return s.nrCh, nil
}

func (r *RPC) GetBlockCount() (uint32, error) {
	r.c.mu.Lock()
	defer r.c.mu.Unlock()
	return r.c.bc.BlockHeight() + 1, nil
}

func (r *RPC) GetVersion() (*result.Version, error) {
	cfg := r.c.bc.GetConfig()
	return &result.Version{Protocol: result.Protocol{
		Network: cfg.Magic, MillisecondsPerBlock: msPerBlock, MaxTraceableBlocks: cfg.MaxTraceableBlocks,
		MaxValidUntilBlockIncrement: cfg.MaxValidUntilBlockIncrement, MaxTransactionsPerBlock: 512,
		MemoryPoolMaxTransactions: 50000, ValidatorsCount: byte(len(r.c.privs)), P2PSigExtensions: true,
		InitialGasDistribution: cfg.InitialGASSupply,
	}}, nil
}

func (r *RPC) GetApplicationLog(h util.Uint256, trig *trigger.Type) (*result.ApplicationLog, error) {
	r.c.mu.Lock()
	defer r.c.mu.Unlock()
	aers, err := r.c.bc.GetAppExecResults(h, trigger.All)
	if err != nil || len(aers) == 0 {
		return nil, neorpc.ErrUnknownScriptContainer
	}
	tr := trigger.All
	if trig != nil {
		tr = *trig
	}
	res := result.NewApplicationLog(h, aers, tr)
	return &res, nil
}

func (r *RPC) SendRawTransaction(tx *transaction.Transaction) (util.Uint256, error) {
	r.c.mu.Lock()
	defer r.c.mu.Unlock()
	err := r.c.bc.PoolTx(tx)
	if err != nil {
		if r.c.onReject != nil {
			r.c.onReject(r.member, tx, err)
		}
		switch {
		case errors.Is(err, core.ErrInsufficientFunds):
			return util.Uint256{}, neorpc.WrapErrorWithData(neorpc.ErrInsufficientFunds, err.Error())
		case errors.Is(err, core.ErrAlreadyExists), errors.Is(err, core.ErrAlreadyInPool):
			return util.Uint256{}, neorpc.WrapErrorWithData(neorpc.ErrAlreadyExists, err.Error())
		case errors.Is(err, core.ErrTxExpired):
			return util.Uint256{}, neorpc.WrapErrorWithData(neorpc.ErrExpiredTransaction, err.Error())
		default:
			return util.Uint256{}, neorpc.WrapErrorWithData(neorpc.ErrVerificationFailed, err.Error())
		}
	}
	if r.c.onTx != nil {
		r.c.onTx(r.member, tx, false)
	}
	return tx.Hash(), nil
}

func (r *RPC) SubmitP2PNotaryRequest(req *payload.P2PNotaryRequest) (util.Uint256, error) {
	r.c.mu.Lock()
	defer r.c.mu.Unlock()
	bc := r.c.bc
	verify := func(_ *transaction.Transaction, data any) error {
		rq := data.(*payload.P2PNotaryRequest)
		payer := rq.FallbackTransaction.Signers[1].Account
		if _, err := bc.VerifyWitness(payer, rq, &rq.Witness, bc.GetMaxVerificationGAS()); err != nil {
			return fmt.Errorf("bad P2PNotaryRequest payload witness: %w", err)
		}
		nh := bc.GetNotaryContractScriptHash()
		if rq.FallbackTransaction.Sender() != nh {
			return errors.New("P2PNotary contract should be a sender of the fallback transaction")
		}
		if rq.MainTransaction.Sender() == nh {
			return errors.New("P2PNotary contract is not allowed to be the sender of the main transaction")
		}
		if rq.FallbackTransaction.ValidUntilBlock >= bc.GetNotaryDepositExpiration(payer) {
			return errors.New("fallback transaction is valid after deposit is unlocked")
		}
		return nil
	}
	err := bc.PoolTxWithData(req.FallbackTransaction, req, r.c.nrPool, r.c.feer, verify)
	if err != nil {
		switch {
		case errors.Is(err, core.ErrInsufficientFunds):
			return util.Uint256{}, neorpc.WrapErrorWithData(neorpc.ErrInsufficientFunds, err.Error())
		case errors.Is(err, core.ErrAlreadyExists), errors.Is(err, core.ErrAlreadyInPool):
			return util.Uint256{}, neorpc.WrapErrorWithData(neorpc.ErrAlreadyExists, err.Error())
		default:
			return util.Uint256{}, neorpc.WrapErrorWithData(neorpc.ErrVerificationFailed, err.Error())
		}
	}
	if r.c.onTx != nil {
		r.c.onTx(r.member, req.MainTransaction, true)
	}
	return req.FallbackTransaction.Hash(), nil
}

func (r *RPC) CalculateNetworkFee(tx *transaction.Transaction) (int64, error) {
	r.c.mu.Lock()
	defer r.c.mu.Unlock()
	bc := r.c.bc
	txc := *tx
	hashablePart, err := txc.EncodeHashableFields()
	if err != nil {
		return 0, err
	}
	size := len(hashablePart) + io.GetVarSize(len(tx.Signers))
	var netFee int64
	gasLimit := bc.GetMaxVerificationGAS()
	for i, signer := range tx.Signers {
		w := tx.Scripts[i]
		if len(w.InvocationScript) == 0 {
			var paramz []manifest.Parameter
			if len(w.VerificationScript) == 0 {
				cs := bc.GetContractState(signer.Account)
				if cs == nil {
					return 0, neorpc.WrapErrorWithData(neorpc.ErrInvalidVerificationFunction, "no contract")
				}
				md := cs.Manifest.ABI.GetMethod(manifest.MethodVerify, -1)
				if md == nil {
					return 0, neorpc.WrapErrorWithData(neorpc.ErrInvalidVerificationFunction, "no verify")
				}
				paramz = md.Parameters
			} else if vm.IsSignatureContract(w.VerificationScript) {
				paramz = []manifest.Parameter{{Type: smartcontract.SignatureType}}
			} else if nSigs, _, ok := vm.ParseMultiSigContract(w.VerificationScript); ok {
				paramz = make([]manifest.Parameter, nSigs)
				for j := range paramz {
					paramz[j] = manifest.Parameter{Type: smartcontract.SignatureType}
				}
			}
			inv := io.NewBufBinWriter()
			for _, p := range paramz {
				p.Type.EncodeDefaultValue(inv.BinWriter)
			}
			w.InvocationScript = inv.Bytes()
		}
		gasConsumed, err := bc.VerifyWitness(signer.Account, &txc, &w, gasLimit)
		if err != nil && !errors.Is(err, core.ErrInvalidSignature) {
			return 0, neorpc.WrapErrorWithData(neorpc.ErrInvalidSignature, err.Error())
		}
		gasLimit -= gasConsumed
		netFee += gasConsumed
		size += io.GetVarSize(w.VerificationScript) + io.GetVarSize(w.InvocationScript)
	}
	netFee += int64(size)*bc.FeePerByte() + bc.CalculateAttributesFee(&txc)
	return netFee, nil
}

func (r *RPC) run(t trigger.Type, script []byte, contract util.Uint160, signers []transaction.Signer, witnesses []transaction.Witness) (*result.Invoke, error) {
	r.c.mu.Lock()
	defer r.c.mu.Unlock()
	bc := r.c.bc
	tx := transaction.New(script, 0)
	tx.Signers = signers
	if len(tx.Signers) == 0 {
		tx.Signers = []transaction.Signer{{Account: util.Uint160{}, Scopes: transaction.None}}
	}
	tx.Scripts = witnesses
	ic, err := bc.GetTestVM(t, tx, nil)
	if err != nil {
		return nil, err
	}
	ic.VM.GasLimit = 100_0000_0000 * 100
	if t == trigger.Verification {
		ic.VM.GasLimit = bc.GetMaxVerificationGAS()
		if err := bc.InitVerificationContext(ic, contract, &transaction.Witness{InvocationScript: script, VerificationScript: []byte{}}); err != nil {
			return nil, neorpc.WrapErrorWithData(neorpc.ErrUnknownContract, err.Error())
		}
	} else {
		ic.VM.LoadScriptWithFlags(script, callflag.All)
	}
	err = ic.VM.Run()
	fe := ""
	if err != nil {
		fe = err.Error()
	}
	items := ic.VM.Estack().ToArray()
	var sess *session
	for i, it := range items {
		if it.Type() == stackitem.InteropT && iterator.IsIterator(it) {
			if sess == nil {
				sess = &session{ic: ic, iters: map[string]stackitem.Item{}}
			}
			_ = i
		}
	}
	id := uuid.UUID{}
	if sess != nil {
		h := sha256.Sum256([]byte(fmt.Sprintf("sess%d", len(r.c.sessions))))
		copy(id[:], h[:16])
		r.c.sessions[id.String()] = sess
	} else {
		ic.Finalize()
	}
	notifs := ic.Notifications
	if notifs == nil {
		notifs = []state.NotificationEvent{}
	}
	res := &result.Invoke{State: ic.VM.State().String(), GasConsumed: ic.VM.GasConsumed(), Script: script, Stack: items, FaultException: fe, Notifications: notifs, Session: id}
	if sess != nil {
		// emulate JSON round trip for iterators: replace with result.Iterator holder
		for i, it := range items {
			if it.Type() == stackitem.InteropT && iterator.IsIterator(it) {
				iid := uuid.UUID{}
				hh := sha256.Sum256([]byte(fmt.Sprintf("iter%s/%d", id.String(), i)))
				copy(iid[:], hh[:16])
				sess.iters[iid.String()] = it
				res.Stack[i] = stackitem.NewInterop(result.Iterator{ID: &iid})
			}
		}
	}
	return res, nil
}

func (r *RPC) InvokeScript(script []byte, signers []transaction.Signer) (*result.Invoke, error) {
	return r.run(trigger.Application, script, util.Uint160{}, signers, nil)
}

func (r *RPC) InvokeFunction(contract util.Uint160, operation string, params []smartcontract.Parameter, signers []transaction.Signer) (*result.Invoke, error) {
	w := io.NewBufBinWriter()
	args := make([]any, len(params))
	for i := range params {
		v, err := smartcontract.ExpandParameterToEmitable(params[i])
		if err != nil {
			return nil, err
		}
		args[i] = v
	}
	s, err := smartcontract.CreateCallScript(contract, operation, args...)
	if err != nil {
		return nil, err
	}
	_ = w
	return r.run(trigger.Application, s, util.Uint160{}, signers, nil)
}

func (r *RPC) InvokeContractVerify(contract util.Uint160, params []smartcontract.Parameter, signers []transaction.Signer, witnesses ...transaction.Witness) (*result.Invoke, error) {
	w := io.NewBufBinWriter()
	for i := len(params) - 1; i >= 0; i-- {
		it, err := params[i].ToStackItem()
		if err != nil {
			return nil, err
		}
		_ = it
		return nil, errors.New("verify params unsupported in spike")
	}
	return r.run(trigger.Verification, w.Bytes(), contract, signers, witnesses)
}

func (r *RPC) TerminateSession(sessionID uuid.UUID) (bool, error) {
	r.c.mu.Lock()
	defer r.c.mu.Unlock()
	s, ok := r.c.sessions[sessionID.String()]
	if ok {
		s.ic.Finalize()
		delete(r.c.sessions, sessionID.String())
	}
	return ok, nil
}

func (r *RPC) TraverseIterator(sessionID, iteratorID uuid.UUID, maxItemsCount int) ([]stackitem.Item, error) {
	r.c.mu.Lock()
	defer r.c.mu.Unlock()
	s, ok := r.c.sessions[sessionID.String()]
	if !ok {
		return nil, neorpc.ErrUnknownSession
	}
	it, ok := s.iters[iteratorID.String()]
	if !ok {
		return nil, neorpc.ErrUnknownIterator
	}
	if maxItemsCount <= 0 {
		maxItemsCount = 100
	}
	vals, _ := iterator.ValuesTruncated(it, maxItemsCount)
	return vals, nil
}
