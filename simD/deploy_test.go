package simd

import (
	"fmt"
	"os"
	"strings"
	"testing"

	"pgregory.net/rapid"
)

func TestMain(m *testing.M) {
	code := m.Run()
	WriteStats()
	os.Exit(code)
}

var dumpN int

func majority(n int) int { return n - (n-1)/2 }

// genConfig draws everything a simulated deployment depends on.
func genConfig(t *rapid.T) Config {
	var cfg Config
	ns := []int{1, 2, 3, 4, 5}
	w := []int{10, 25, 25, 25, 15}
	if Thorough() {
		ns = []int{1, 2, 3, 4, 5, 6, 7}
		w = []int{6, 16, 18, 22, 14, 10, 14}
	}
	if v := os.Getenv("VERIF_D_N"); v != "" {
		var n int
		fmt.Sscanf(v, "%d", &n)
		ns, w = []int{n}, []int{1}
	}
	cfg.N = ns[Weighted(t, "n", w)]
	cfg.SchedRandom = rapid.Bool().Draw(t, "schedRandom")
	cfg.SchedSeed = rapid.Uint64Range(0, 1<<32).Draw(t, "schedSeed")
	cfg.BlockQuanta = rapid.IntRange(2, 6).Draw(t, "blockQuanta")
	// a minority of non-leading members may be absent during the Notary bootstrap
	maxLate := cfg.N - majority(cfg.N)
	if maxLate > 0 && Chance(t, "late?", 45) {
		k := rapid.IntRange(1, maxLate).Draw(t, "nLate")
		perm := rapid.Permutation(seq(1, cfg.N)).Draw(t, "lateWho")
		cfg.Late = append(cfg.Late, perm[:k]...)
	}
	// members that start while the others are already at work; some only after
	// what the early ones have shared has expired (120 blocks)
	if cfg.N > 1 && Chance(t, "delays?", 35) {
		cfg.Delay = map[int]int{}
		for i := 1; i < cfg.N; i++ {
			switch Weighted(t, "delayClass", []int{40, 30, 30}) {
			case 1:
				cfg.Delay[i] = rapid.IntRange(1, 60).Draw(t, "delayShort")
			case 2:
				cfg.Delay[i] = rapid.IntRange(125, 260).Draw(t, "delayLong")
			}
		}
	}
	// a signature collection that is under way when what the leader shared
	// expires: one member besides the leader is there from the start, the
	// others come one by one around the 120 blocks; the early one may be down
	// while the data are made anew
	if cfg.N >= 4 && Chance(t, "partialCollection?", 14) {
		cfg.Late = nil
		cfg.Delay = map[int]int{}
		early := rapid.IntRange(1, cfg.N-1).Draw(t, "earlyMember")
		by := rapid.IntRange(112, 150).Draw(t, "lateBy")
		for i := 1; i < cfg.N; i++ {
			if i != early {
				// (one by one: the count may be completed by the first of them)
				cfg.Delay[i] = by + rapid.IntRange(0, 45).Draw(t, "lateSpread")
			}
		}
		if Chance(t, "earlyMemberCrashes?", 60) {
			// (its first writes are the ones that publish its signature)
			cfg.Crashes = append(cfg.Crashes, Crash{Member: early, AfterWrites: rapid.IntRange(1, 3).Draw(t, "earlyAfterWrites"),
				RestartAfter: rapid.IntRange(100, 220).Draw(t, "earlyRestartAfter")})
		}
	}
	nCrash := Weighted(t, "nCrash", []int{45, 30, 15, 10})
	for i := 0; i < nCrash; i++ {
		cr := Crash{Member: rapid.IntRange(0, cfg.N-1).Draw(t, "crashMember"), RestartAfter: rapid.IntRange(0, 40).Draw(t, "restartAfter")}
		if Chance(t, "longOutage?", 25) {
			// beyond the validity window of what the member had shared or sent
			// (120 blocks for the Notary bootstrap data)
			cr.RestartAfter = rapid.IntRange(121, 200).Draw(t, "restartAfterLong")
		}
		if Chance(t, "crashAfterWrite?", 60) {
			cr.AfterWrites = rapid.IntRange(1, 25).Draw(t, "afterWrites")
		} else {
			cr.AtDecision = rapid.IntRange(1, 2500*cfg.N).Draw(t, "atDecision")
		}
		cfg.Crashes = append(cfg.Crashes, cr)
	}
	cfg.RPCErrPct = []int{0, 0, 1, 3}[Pick(t, "rpcErr", 4)]
	cfg.WriteErrPct = []int{0, 0, 3, 10}[Pick(t, "sendErr", 4)]
	cfg.EvtPct = []int{0, 0, 5, 15}[Pick(t, "evtPct", 4)]
	cfg.HoldPct = []int{0, 0, 10, 30}[Pick(t, "holdPct", 4)]
	cfg.FaultBlocks = rapid.IntRange(20, 300).Draw(t, "faultBlocks")
	cfg.Slow = -1
	if cfg.N > 1 && Chance(t, "slow?", 30) {
		cfg.Slow = rapid.IntRange(0, cfg.N-1).Draw(t, "slowMember")
		cfg.SlowPct = []int{50, 80, 95}[Pick(t, "slowPct", 3)]
	}
	cfg.Rerun = Chance(t, "rerun?", 50)
	cfg.Upgrade = os.Getenv("VERIF_OLDART") != "" && (Chance(t, "upgrade?", 25) || os.Getenv("VERIF_D_UPGRADE") != "")
	// the amount the fund helper has to split: around multiples of n, tiny,
	// prime-ish and the whole supply
	if Chance(t, "neo?", 70) {
		n64 := int64(cfg.N)
		neos := []int64{1, n64 - 1, n64, n64 + 1, 2*n64 - 1, 7, 100, 1001, 99_999_989, 100_000_000 - n64 + 1, 100_000_000 - 1}
		cfg.NEO = neos[Pick(t, "neo", len(neos))]
		if cfg.NEO <= 0 {
			cfg.NEO = 1
		}
	}
	cfg.Liveness = 1000
	cfg.Bootstrap = 500
	return cfg
}

func seq(a, b int) []int {
	var l []int
	for i := a; i < b; i++ {
		l = append(l, i)
	}
	return l
}

func TestDeploy(t *testing.T) {
	Sim(t, func(r *Run) {
		cfg := genConfig(r.T)
		res := RunSim(t, cfg)
		r.W = &World{Log: res.Log}
		if d := os.Getenv("VERIF_DUMPLOG"); d != "" {
			dumpN++
			_ = os.WriteFile(fmt.Sprintf("%s/run%03d.log", d, dumpN), []byte(strings.Join(res.Log, "\n")+"\n"), 0o644)
		}
		if res.Harness != "" {
			harnessf("%s", res.Harness)
		}
		// accounting
		for k, v := range res.Faults {
			for i := 0; i < v[0]; i++ {
				r.Inject(k)
			}
			for i := 0; i < v[1]; i++ {
				r.Fired(k)
			}
		}
		for k, v := range res.Counters {
			r.CountN(k, int64(v))
		}
		r.blocks += int64(res.Counters["blocks"])
		r.txs += int64(res.Counters["txs"])
		r.simMillis += int64(res.Counters["blocks"]) * msPerBlock
		r.Count(fmt.Sprintf("n=%d", cfg.N))
		if res.Converged {
			r.Changed()
			r.Count("converged")
		}
		// fingerprint: configuration class + the order of lifecycle events
		r.Tok(fmt.Sprintf("n%d", cfg.N), fmt.Sprintf("late%d crash%d rpc%d send%d evt%d hold%d upg%v", len(cfg.Late), len(cfg.Crashes), cfg.RPCErrPct, cfg.WriteErrPct, cfg.EvtPct, cfg.HoldPct, cfg.Upgrade), fmt.Sprintf("conv=%v", res.Converged))
		for _, l := range res.Log {
			if strings.Contains(l, "CRASH") || strings.Contains(l, "START") || strings.Contains(l, "CONTRACT") || strings.Contains(l, "NOTARY ROLE") || strings.Contains(l, "RERUN") {
				f := strings.Fields(l)
				if len(f) > 2 {
					r.Tok("ev", "", strings.Join(f[2:], " "))
				}
			}
		}
		r.trace = append(r.trace, fmt.Sprintf("config %+v", cfg), fmt.Sprintf("height=%d decisions=%d converged=%v", res.Height, res.Decisions, res.Converged))
		for _, l := range res.Log {
			if !strings.Contains(l, " call m") && !strings.Contains(l, " deliver ") && !strings.Contains(l, "insufficient funds") && !strings.Contains(l, " BLOCK ") {
				r.trace = append(r.trace, l)
			}
		}
		r.T.Logf("config %+v height=%d decisions=%d converged=%v", cfg, res.Height, res.Decisions, res.Converged)
		for _, v := range res.Violations {
			// lifecycle lines of the schedule for the report
			for _, l := range r.trace {
				r.T.Logf("%s", l)
			}
			r.Violation(v.Rule, "", "%s", v.Detail)
		}
		r.Checkpoint()
	})
}
