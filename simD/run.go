package simd

import (
	"encoding/json"
	"fmt"
	"hash/fnv"
	"os"
	"path/filepath"
	"sort"
	"strings"
	"sync"
	"testing"
	"time"

	"pgregory.net/rapid"
)

// VerifDir is /verif (overridable for snapshots).
func VerifDir() string {
	if d := os.Getenv("VERIF_DIR"); d != "" {
		return d
	}
	return "/verif"
}

// Prop is the property this process decides (VERIF_PROP), or the property a
// shadowed engine body impersonates (see RunShadow).
func Prop() string {
	if propOverride != "" {
		return propOverride
	}
	return os.Getenv("VERIF_PROP")
}

var propOverride string

// EngineDef is a registered engine body (so that other checks, e.g. the C15
// differential one, can drive its workload).
type EngineDef struct {
	Name  string
	Props []string
	Body  func(r *Run)
}

// Engines lists the registered engine bodies in registration order.
var Engines []EngineDef

// RegisterEngine is called from the engines' init functions.
func RegisterEngine(name string, props []string, body func(r *Run)) {
	Engines = append(Engines, EngineDef{name, props, body})
}

// RunShadow runs an engine body as if it were deciding `prop`, but every rule
// it breaks is treated as foreign (the run just ends at the next checkpoint).
func (r *Run) RunShadow(prop string, body func(r *Run)) {
	saved, savedProp := propOverride, r.Prop
	propOverride, r.Prop, r.shadow = prop, prop, true
	defer func() { propOverride, r.Prop, r.shadow = saved, savedProp, false }()
	body(r)
}

// Thorough tells whether the thorough tier is running.
func Thorough() bool { return os.Getenv("VERIF_TIER") == "thorough" }

// ---------------------------------------------------------------------------
// Known findings

// Finding is one entry of /verif/known_findings.json.
type Finding struct {
	Property string `json:"property"`
	Key      string `json:"key"`
	Status   string `json:"status"` // "known" or "fixed"
	Commit   string `json:"commit,omitempty"`
	What     string `json:"what"`
}

var (
	findingsOnce sync.Once
	findings     []Finding
)

func knownFinding(prop, key string) *Finding {
	findingsOnce.Do(func() {
		raw, err := os.ReadFile(filepath.Join(VerifDir(), "known_findings.json"))
		if err != nil {
			return
		}
		var f struct {
			Findings []Finding `json:"findings"`
		}
		if err := json.Unmarshal(raw, &f); err != nil {
			harnessf("known_findings.json: %v", err)
		}
		findings = f.Findings
	})
	if key == "" {
		return nil
	}
	for i := range findings {
		if findings[i].Property == prop && findings[i].Key == key && findings[i].Status == "known" {
			return &findings[i]
		}
	}
	return nil
}

// ---------------------------------------------------------------------------
// Process-wide statistics (one worker process = one property)

// FaultCount counts how often a fault kind was injected and how often it
// actually fired (see DESIGN.md Appendix B).
type FaultCount struct {
	Injected int64 `json:"injected"`
	Fired    int64 `json:"fired"`
}

// Stats is what a worker writes to $VERIF_STATS.
type Stats struct {
	Property   string                 `json:"property"`
	Runs       int64                  `json:"runs"`
	Skipped    int64                  `json:"skipped"`
	Failed     int64                  `json:"failed"`
	Blocks     int64                  `json:"blocks"`
	Txs        int64                  `json:"txs"`
	SimMillis  int64                  `json:"sim_millis"`
	Epochs     int64                  `json:"epochs"`
	Faults     map[string]*FaultCount `json:"faults"`
	Counters   map[string]int64       `json:"counters"`
	FPAll      []string               `json:"fp_all"`
	FPNontriv  []string               `json:"fp_nontrivial"`
	Cells      map[string][]string    `json:"cells"` // named coverage sets
	Samples    []json.RawMessage      `json:"samples"`
	KnownHits  map[string]int64       `json:"known_hits"`
	Foreign    map[string]int64       `json:"foreign"`
	LogHashes  []string               `json:"log_hashes,omitempty"`
	WallS      float64                `json:"wall_s"`
	Violations []string               `json:"violations,omitempty"`
}

type globalStats struct {
	mu      sync.Mutex
	s       Stats
	fpAll   map[uint64]bool
	fpNT    map[uint64]bool
	cells   map[string]map[string]bool
	start   time.Time
	failing bool
}

var gstats = &globalStats{
	s:     Stats{Faults: map[string]*FaultCount{}, Counters: map[string]int64{}, KnownHits: map[string]int64{}, Foreign: map[string]int64{}},
	fpAll: map[uint64]bool{}, fpNT: map[uint64]bool{}, cells: map[string]map[string]bool{}, start: time.Now(),
}

// WriteStats dumps the process statistics to $VERIF_STATS (called from TestMain).
func WriteStats() {
	path := os.Getenv("VERIF_STATS")
	if path == "" {
		return
	}
	g := gstats
	g.mu.Lock()
	defer g.mu.Unlock()
	g.s.Property = Prop()
	g.s.WallS = time.Since(g.start).Seconds()
	g.s.FPAll = fpList(g.fpAll)
	g.s.FPNontriv = fpList(g.fpNT)
	g.s.Cells = map[string][]string{}
	for k, m := range g.cells {
		var l []string
		for c := range m {
			l = append(l, c)
		}
		sort.Strings(l)
		g.s.Cells[k] = l
	}
	raw, err := json.Marshal(&g.s)
	must(err)
	must(os.WriteFile(path, raw, 0o644))
}

func fpList(m map[uint64]bool) []string {
	l := make([]string, 0, len(m))
	for k := range m {
		l = append(l, fmt.Sprintf("%016x", k))
	}
	sort.Strings(l)
	return l
}

// ---------------------------------------------------------------------------
// One simulated run

// Run is the per-execution context handed to a property's simulation body.
type Run struct {
	T      *rapid.T
	Prop   string
	W      *World
	worlds []*World

	// Sweep, if an engine sets it, returns the engine's complete read-API view
	// of its world as deterministic "method(args)=value" lines. C16 compares it
	// right before and right after an upgrade.
	Sweep func() []string

	failed                         bool
	shadow                         bool
	foreign                        string
	fp                             []string
	changed                        bool // at least one state-changing operation took effect
	faulted                        bool // at least one injected fault fired
	faults                         map[string]*FaultCount
	counters                       map[string]int64
	cells                          map[string]map[string]bool
	trace                          []string
	blocks, txs, simMillis, epochs int64
}

const maxSamples = 6

// Sim runs a property body under rapid. All randomness of the body must come
// from r.T draws.
func Sim(t *testing.T, body func(r *Run)) {
	budget := time.Duration(0)
	if v := os.Getenv("VERIF_DEADLINE"); v != "" {
		var secs int
		fmt.Sscanf(v, "%d", &secs)
		budget = time.Duration(secs) * time.Second
	}
	rapid.Check(t, func(rt *rapid.T) {
		// The search budget: once it is used up the remaining iterations are
		// empty (no draw, no world), so rapid finishes normally. The clock only
		// decides when to stop, never what a run does.
		if budget > 0 && time.Since(gstats.start) > budget && !gstats.failing {
			return
		}
		ResetCallIndex()
		r := &Run{T: rt, Prop: Prop(), faults: map[string]*FaultCount{}, counters: map[string]int64{}, cells: map[string]map[string]bool{}}
		defer r.finish()
		installWorldDraws(r)
		defer func() {
			if x := recover(); x != nil {
				sr, ok := x.(SetupRefused)
				if !ok {
					panic(x)
				}
				r.Violation("C03/required-witnesses-do-not-suffice", "", "%s", sr.Msg)
				r.Checkpoint()
			}
		}()
		body(r)
	})
}

// Own registers a world for cleanup at the end of the run.
func (r *Run) Own(w *World) *World {
	w.blocksFed = 0 // BlockHook counts the engine's own blocks, not the set-up
	r.worlds = append(r.worlds, w)
	if r.W == nil {
		r.W = w
	}
	return w
}

func (r *Run) finish() {
	for _, w := range r.worlds {
		w.Close()
	}
	g := gstats
	g.mu.Lock()
	defer g.mu.Unlock()
	if r.failed {
		g.s.Failed++
		return
	}
	g.s.Runs++
	g.s.Blocks += r.blocks
	g.s.Txs += r.txs
	g.s.SimMillis += r.simMillis
	g.s.Epochs += r.epochs
	for k, v := range r.faults {
		fc := g.s.Faults[k]
		if fc == nil {
			fc = &FaultCount{}
			g.s.Faults[k] = fc
		}
		fc.Injected += v.Injected
		fc.Fired += v.Fired
	}
	for k, v := range r.counters {
		g.s.Counters[k] += v
	}
	for k, m := range r.cells {
		gm := g.cells[k]
		if gm == nil {
			gm = map[string]bool{}
			g.cells[k] = gm
		}
		for c := range m {
			gm[c] = true
		}
	}
	h := fnv.New64a()
	for _, tok := range r.fp {
		h.Write([]byte(tok))
		h.Write([]byte{0})
	}
	sum := h.Sum64()
	g.fpAll[sum] = true
	if r.changed && r.faulted {
		if !g.fpNT[sum] && len(g.s.Samples) < maxSamples {
			raw, _ := json.Marshal(map[string]any{"fingerprint": fmt.Sprintf("%016x", sum), "trace": clip(r.trace, 60)})
			g.s.Samples = append(g.s.Samples, raw)
		}
		g.fpNT[sum] = true
	}
	if os.Getenv("VERIF_LOGHASH") != "" && r.W != nil {
		g.s.LogHashes = append(g.s.LogHashes, r.W.LogHash())
	}
}

func clip(l []string, n int) []string {
	if len(l) <= n {
		return l
	}
	out := append([]string{}, l[:n]...)
	return append(out, fmt.Sprintf("… %d more steps", len(l)-n))
}

// Tracef records one line of the human-readable trace (and of the
// deterministic event log of the main world).
func (r *Run) Tracef(format string, a ...any) {
	s := fmt.Sprintf(format, a...)
	r.trace = append(r.trace, s)
	if r.W != nil {
		r.W.Log = append(r.W.Log, s)
	}
	r.T.Logf("%s", s)
}

// Tok appends a fingerprint token (operation kind, fault kind, outcome class).
func (r *Run) Tok(op, fault, outcome string) {
	r.fp = append(r.fp, op+"/"+fault+"/"+outcome)
}

// Changed notes that a state-changing operation took effect.
func (r *Run) Changed() { r.changed = true }

// Inject counts an injected fault.
func (r *Run) Inject(kind string) {
	fc := r.faults[kind]
	if fc == nil {
		fc = &FaultCount{}
		r.faults[kind] = fc
	}
	fc.Injected++
}

// Fired counts an injected fault that actually fired.
func (r *Run) Fired(kind string) {
	fc := r.faults[kind]
	if fc == nil {
		fc = &FaultCount{}
		r.faults[kind] = fc
	}
	fc.Fired++
	r.faulted = true
}

// Count bumps a named counter (outcome classes, rare-branch probes).
func (r *Run) Count(name string) { r.counters[name]++ }

// CountN adds to a named counter.
func (r *Run) CountN(name string, n int64) { r.counters[name] += n }

// Cell marks a coverage cell of a named finite space as reached.
func (r *Run) Cell(space, cell string) {
	m := r.cells[space]
	if m == nil {
		m = map[string]bool{}
		r.cells[space] = m
	}
	m[cell] = true
}

// Sim accounting.
func (r *Run) AddBlock(ntx int, dtMillis uint64) {
	r.blocks++
	r.txs += int64(ntx)
	r.simMillis += int64(dtMillis)
}

// AddEpochs counts simulated epochs.
func (r *Run) AddEpochs(n int64) { r.epochs += n }

// Violation reports that oracle rule `rule` (e.g. "C01/sum-ne-supply") was
// broken. kfKey, if not empty, names the narrow known-finding matcher this
// observation falls under. The failure message is exactly the rule so that
// rapid's shrinker keeps to the same rule; details go to the log.
func (r *Run) Violation(rule, kfKey, format string, a ...any) {
	prop := strings.SplitN(rule, "/", 2)[0]
	detail := fmt.Sprintf(format, a...)
	if prop != r.Prop || r.shadow {
		// another property's rule: not this check's business. Remember it; the
		// run ends at the next checkpoint (the model may be out of sync from
		// here on), after this property's own rules had their chance.
		if r.foreign == "" {
			r.foreign = rule
			r.T.Logf("foreign rule %s: %s", rule, detail)
		}
		return
	}
	if f := knownFinding(prop, kfKey); f != nil {
		gstats.mu.Lock()
		gstats.s.KnownHits[kfKey]++
		gstats.mu.Unlock()
		r.T.Skipf("known finding %s: %s", kfKey, detail)
	}
	r.failed = true
	gstats.failing = true // keep executing while rapid reproduces and shrinks
	r.T.Logf("DETAIL %s: %s", rule, detail)
	if kfKey != "" {
		r.T.Logf("KFKEY %s", kfKey)
	}
	r.T.Fatalf("VIOLATION rule=%s", rule)
}

// ViolationSynced is Violation for a broken rule after which the engine keeps
// its model in sync with the implementation (it follows what really happened):
// if the rule belongs to another property the hit is only counted and the run
// goes on, so that this property's own rules judge the rest of the history.
func (r *Run) ViolationSynced(rule, kfKey, format string, a ...any) {
	prop := strings.SplitN(rule, "/", 2)[0]
	if prop != r.Prop || r.shadow {
		r.Count("foreign_rule_followed." + rule)
		return
	}
	r.Violation(rule, kfKey, format, a...)
}

// ViolationOrKnown is Violation for observations that leave the model in sync
// (conformance checks): if kfKey names a listed known finding the hit is
// counted and true is returned so that the caller can carry on; otherwise the
// violation is reported.
func (r *Run) ViolationOrKnown(rule, kfKey, format string, a ...any) bool {
	prop := strings.SplitN(rule, "/", 2)[0]
	if prop == r.Prop && !r.shadow {
		if f := knownFinding(prop, kfKey); f != nil {
			gstats.mu.Lock()
			gstats.s.KnownHits[kfKey]++
			gstats.mu.Unlock()
			return true
		}
	}
	r.Violation(rule, kfKey, format, a...)
	return false
}

// Checkpoint ends the run quietly if a rule of another property fired since the
// last checkpoint.
func (r *Run) Checkpoint() {
	if r.foreign != "" {
		gstats.mu.Lock()
		gstats.s.Foreign[r.foreign]++
		gstats.mu.Unlock()
		r.T.Skipf("foreign rule %s", r.foreign)
	}
}

// Uniform draws an integer 0..n-1 with equal probabilities. rapid's own integer
// generators are deliberately biased towards small and boundary values (0..1
// of 0..99 carries about 21 %), which distorts workload mixes; single bits are
// not biased, so the value is assembled from bits (rejection sampling). It
// still shrinks towards 0.
func Uniform(t *rapid.T, label string, n int) int {
	if n <= 1 {
		return 0
	}
	bits := 0
	for (1 << bits) < n {
		bits++
	}
	v := 0
	for try := 0; try < 6; try++ {
		v = 0
		for b := 0; b < bits; b++ {
			if rapid.Bool().Draw(t, label) {
				v |= 1 << b
			}
		}
		if v < n {
			return v
		}
	}
	return v % n
}

// Weighted picks an index according to integer weights (zero weights are
// never picked).
func Weighted(t *rapid.T, label string, weights []int) int {
	total := 0
	for _, w := range weights {
		total += w
	}
	if total == 0 {
		harnessf("Weighted(%s): all weights zero", label)
	}
	x := Uniform(t, label, total)
	for i, w := range weights {
		if x < w {
			return i
		}
		x -= w
	}
	return len(weights) - 1
}

// Chance draws true with probability pct/100 (shrinks towards false).
func Chance(t *rapid.T, label string, pct int) bool {
	if pct <= 0 {
		return false
	}
	if pct >= 100 {
		return true
	}
	return Uniform(t, label, 100) >= 100-pct
}

// Pick draws an index 0..n-1 uniformly.
func Pick(t *rapid.T, label string, n int) int {
	return Uniform(t, label, n)
}

// OpsSlice draws the abstract operation list of a run: rapid's SliceOfN(g, 1,
// max) averages only about six elements, so a per-run knob first draws a
// minimum length (index 0 is the plain 1..max slice, which is what shrinking
// converges to, so steps can still be deleted).
func OpsSlice[T any](t *rapid.T, g *rapid.Generator[T], max int) []T {
	mins := []int{1, max / 8, max / 3, max * 6 / 10}
	m := mins[Pick(t, "minOps", len(mins))]
	if m < 1 {
		m = 1
	}
	return rapid.SliceOfN(g, m, max).Draw(t, "ops")
}
