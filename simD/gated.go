package simd

import (
	"context"

	"github.com/google/uuid"
	"github.com/nspcc-dev/neo-go/pkg/core/block"
	"github.com/nspcc-dev/neo-go/pkg/core/state"
	"github.com/nspcc-dev/neo-go/pkg/core/transaction"
	"github.com/nspcc-dev/neo-go/pkg/crypto/keys"
	"github.com/nspcc-dev/neo-go/pkg/neorpc/result"
	"github.com/nspcc-dev/neo-go/pkg/network/payload"
	"github.com/nspcc-dev/neo-go/pkg/smartcontract"
	"github.com/nspcc-dev/neo-go/pkg/smartcontract/trigger"
	"github.com/nspcc-dev/neo-go/pkg/util"
	"github.com/nspcc-dev/neo-go/pkg/vm/stackitem"
)

// GRPC parks every call at the gate; the simulator releases one at a time.
type GRPC struct{ r *RPC }

// Client returns the gated deploy.Blockchain facade of one Deploy incarnation.
func (c *Chain) Client(ctx context.Context, member, inc int) *GRPC {
	return &GRPC{r: &RPC{c: c, ctx: ctx, member: member, inc: inc}}
}

func (g *GRPC) Context() context.Context { return g.r.ctx }
func (g *GRPC) GetCommittee() (keys.PublicKeys, error) {
	return gated(g.r, "GetCommittee", false, g.r.GetCommittee)
}
func (g *GRPC) GetContractStateByID(id int32) (*state.Contract, error) {
	return gated(g.r, "GetContractStateByID", false, func() (*state.Contract, error) { return g.r.GetContractStateByID(id) })
}
func (g *GRPC) GetContractStateByHash(h util.Uint160) (*state.Contract, error) {
	return gated(g.r, "GetContractStateByHash", false, func() (*state.Contract, error) { return g.r.GetContractStateByHash(h) })
}
func (g *GRPC) SubscribeToNewBlocks() (<-chan *block.Block, error) {
	return gated(g.r, "SubscribeToNewBlocks", false, g.r.SubscribeToNewBlocks)
}
func (g *GRPC) SubscribeToNotaryRequests() (<-chan *result.NotaryRequestEvent, error) {
	return gated(g.r, "SubscribeToNotaryRequests", false, g.r.SubscribeToNotaryRequests)
}
func (g *GRPC) GetBlockCount() (uint32, error) {
	return gated(g.r, "GetBlockCount", false, g.r.GetBlockCount)
}
func (g *GRPC) GetVersion() (*result.Version, error) {
	return g.r.GetVersion() // static data, no shared state
}
func (g *GRPC) GetApplicationLog(h util.Uint256, trig *trigger.Type) (*result.ApplicationLog, error) {
	return gated(g.r, "GetApplicationLog:"+g.r.c.keyOfHash(h), false, func() (*result.ApplicationLog, error) { return g.r.GetApplicationLog(h, trig) })
}
func (g *GRPC) SendRawTransaction(tx *transaction.Transaction) (util.Uint256, error) {
	g.r.c.noteTx(tx, contentKey(tx))
	return gated(g.r, "SendRawTransaction:"+contentKey(tx), true, func() (util.Uint256, error) { return g.r.SendRawTransaction(tx) })
}
func (g *GRPC) SubmitP2PNotaryRequest(req *payload.P2PNotaryRequest) (util.Uint256, error) {
	g.r.c.noteTx(req.MainTransaction, contentKey(req.MainTransaction)+"/main")
	g.r.c.noteTx(req.FallbackTransaction, contentKey(req.MainTransaction)+"/fallback")
	return gated(g.r, "SubmitP2PNotaryRequest:"+contentKey(req.MainTransaction), true, func() (util.Uint256, error) { return g.r.SubmitP2PNotaryRequest(req) })
}
func (g *GRPC) CalculateNetworkFee(tx *transaction.Transaction) (int64, error) {
	return gated(g.r, "CalculateNetworkFee:"+contentKey(tx), false, func() (int64, error) { return g.r.CalculateNetworkFee(tx) })
}
func (g *GRPC) InvokeScript(script []byte, signers []transaction.Signer) (*result.Invoke, error) {
	return gated(g.r, "InvokeScript", false, func() (*result.Invoke, error) { return g.r.InvokeScript(script, signers) })
}
func (g *GRPC) InvokeFunction(contract util.Uint160, operation string, params []smartcontract.Parameter, signers []transaction.Signer) (*result.Invoke, error) {
	return gated(g.r, "InvokeFunction:"+operation, false, func() (*result.Invoke, error) { return g.r.InvokeFunction(contract, operation, params, signers) })
}
func (g *GRPC) InvokeContractVerify(contract util.Uint160, params []smartcontract.Parameter, signers []transaction.Signer, witnesses ...transaction.Witness) (*result.Invoke, error) {
	return gated(g.r, "InvokeContractVerify", false, func() (*result.Invoke, error) {
		return g.r.InvokeContractVerify(contract, params, signers, witnesses...)
	})
}
func (g *GRPC) TerminateSession(sessionID uuid.UUID) (bool, error) {
	return gated(g.r, "TerminateSession", false, func() (bool, error) { return g.r.TerminateSession(sessionID) })
}
func (g *GRPC) TraverseIterator(sessionID, iteratorID uuid.UUID, maxItemsCount int) ([]stackitem.Item, error) {
	return gated(g.r, "TraverseIterator", false, func() ([]stackitem.Item, error) {
		return g.r.TraverseIterator(sessionID, iteratorID, maxItemsCount)
	})
}
