package simd

import (
	"bytes"
	"context"
	"crypto/sha256"
	"encoding/json"
	"fmt"
	"math/big"
	"math/rand/v2"
	"os"
	"path/filepath"
	"sort"
	"strings"
	"sync"
	"testing"
	"testing/synctest"
	"time"

	"github.com/nspcc-dev/neo-go/pkg/core/block"
	"github.com/nspcc-dev/neo-go/pkg/core/native/nativenames"
	"github.com/nspcc-dev/neo-go/pkg/core/native/noderoles"
	"github.com/nspcc-dev/neo-go/pkg/core/state"
	"github.com/nspcc-dev/neo-go/pkg/core/transaction"
	"github.com/nspcc-dev/neo-go/pkg/crypto/keys"
	"github.com/nspcc-dev/neo-go/pkg/encoding/address"
	"github.com/nspcc-dev/neo-go/pkg/smartcontract"
	"github.com/nspcc-dev/neo-go/pkg/smartcontract/callflag"
	"github.com/nspcc-dev/neo-go/pkg/smartcontract/manifest"
	"github.com/nspcc-dev/neo-go/pkg/smartcontract/nef"
	"github.com/nspcc-dev/neo-go/pkg/smartcontract/trigger"
	"github.com/nspcc-dev/neo-go/pkg/util"
	"github.com/nspcc-dev/neo-go/pkg/vm/stackitem"
	"github.com/nspcc-dev/neo-go/pkg/vm/vmstate"
	"github.com/nspcc-dev/neo-go/pkg/wallet"
	"github.com/nspcc-dev/neofs-contract/contracts"
	"github.com/nspcc-dev/neofs-contract/deploy"
	"go.uber.org/zap"
)

// Crash is one injected member crash.
type Crash struct {
	Member       int
	AfterWrites  int // crash right after the member's k-th accepted transaction / notary request (0: use AtDecision)
	AtDecision   int
	RestartAfter int // blocks
}

// Config is everything a run is a function of (drawn by rapid before the
// bubble is entered).
type Config struct {
	N           int
	SchedSeed   uint64
	SchedRandom bool // false: round-robin over the canonical order
	BlockQuanta int  // 250 ms quanta between blocks
	Late        []int
	Crashes     []Crash
	RPCErrPct   int // per released read call, inside the fault window
	WriteErrPct int // per released write call (transaction / Notary request submission), inside the fault window: the request is lost before it reaches the node and the caller sees an error
	EvtPct      int // per event delivery, inside the fault window: delay / duplicate / drop
	HoldPct     int // per mempool transaction and block, inside the fault window: held back
	FaultBlocks int // the fault window: faults are injected while height < FaultBlocks
	Rerun       bool
	Slow        int         // member whose calls are starved inside the fault window (-1: nobody)
	SlowPct     int         // probability that a decision passes over the slow member's parked calls
	Upgrade     bool        // the chain is first deployed with older-version executables; Deploy must upgrade them
	NEO         int64       // NEO left on the validators' account before the start (0: as genesis left it, 100M)
	Delay       map[int]int // member → block height at which its (first) run starts; the leader never waits
	Liveness    int         // B: blocks allowed after the last fault
	Bootstrap   int         // B1: blocks allowed for the Notary bootstrap with late members absent
}

// Violation is one broken oracle rule.
type Violation struct {
	Rule   string
	Detail string
}

// Result is what a simulated deployment produced.
type Result struct {
	Violations []Violation
	Log        []string
	Height     uint32
	Decisions  int
	Faults     map[string][2]int // kind → injected, fired
	Counters   map[string]int
	Tokens     []string
	Converged  bool
	Harness    string
}

type member struct {
	idx      int
	inc      int // current incarnation number (0 = never started)
	running  bool
	finished bool
	err      error
	cancel   context.CancelFunc
	faulted  bool // the current incarnation saw an injected fault
	dead     map[int]bool
	writes   int
	startedH uint32
}

type sim struct {
	t   *testing.T
	cfg Config
	c   *Chain
	rng *rand.Rand
	res *Result
	mu  sync.Mutex
	m   []*member
	fs  []contracts.Contract

	decisions  int
	quanta     int
	rr         int
	lastFaultH uint32
	lateHeld   map[int]bool
	notaryAtH  int64
	crashDone  []bool
	restartAt  map[int]uint32
	phase      int // 0 deployment, 1 idempotence re-run
	rerunTxs   []string
	nnsHash    util.Uint160
	nnsSeen    bool
	records    map[string]string
	seenIDs    int32
	byName     map[string][]util.Uint160
	neoChecked map[string]bool
	designSent int
	old        []contracts.Contract // older-version executables (upgrade scenario)
	useOld     bool
	updTx      map[string]string // contract hash / 100-block window → (nonce, VUB, script digest) of update transactions
	heldTx     map[string]int
}

var debugPark = os.Getenv("VERIF_D_DEBUGPARK") != ""

type glag struct{}

func (glag) Size() int                  { return 41 }
func (glag) LetterByIndex(i int) string { return fmt.Sprintf("letter%d", i) }

func (s *sim) prm(ctx context.Context, i, inc int) deploy.Prm {
	fs := s.fs
	if s.useOld {
		fs = s.old
	}
	var p deploy.Prm
	p.Logger = zap.NewNop()
	if os.Getenv("VERIF_D_LOG") != "" {
		zc := zap.NewDevelopmentConfig()
		zc.Level = zap.NewAtomicLevelAt(zap.InfoLevel)
		zc.DisableStacktrace = true
		lg, _ := zc.Build()
		p.Logger = lg.With(zap.Int("member", i))
	}
	p.Blockchain = s.c.Client(ctx, i, inc)
	p.LocalAccount = wallet.NewAccountFromPrivateKey(s.c.privs[i])
	p.ValidatorMultiSigAccount = s.c.ValidatorAcc(i)
	p.NNS.Common.NEF, p.NNS.Common.Manifest = fs[0].NEF, fs[0].Manifest
	p.NNS.SystemEmail = "nonexistent@nspcc.io"
	p.ProxyContract.Common.NEF, p.ProxyContract.Common.Manifest = fs[1].NEF, fs[1].Manifest
	p.AuditContract.Common.NEF, p.AuditContract.Common.Manifest = fs[2].NEF, fs[2].Manifest
	p.NetmapContract.Common.NEF, p.NetmapContract.Common.Manifest = fs[3].NEF, fs[3].Manifest
	p.NetmapContract.Config.MaxObjectSize = 1 << 20
	p.NetmapContract.Config.EpochDuration = 240
	p.NetmapContract.Config.ContainerFee = 1000
	p.BalanceContract.Common.NEF, p.BalanceContract.Common.Manifest = fs[4].NEF, fs[4].Manifest
	p.ReputationContract.Common.NEF, p.ReputationContract.Common.Manifest = fs[5].NEF, fs[5].Manifest
	p.NeoFSIDContract.Common.NEF, p.NeoFSIDContract.Common.Manifest = fs[6].NEF, fs[6].Manifest
	p.ContainerContract.Common.NEF, p.ContainerContract.Common.Manifest = fs[7].NEF, fs[7].Manifest
	p.AlphabetContract.Common.NEF, p.AlphabetContract.Common.Manifest = fs[8].NEF, fs[8].Manifest
	p.Glagolitsa = glag{}
	return p
}

func (s *sim) logf(format string, a ...any) {
	s.res.Log = append(s.res.Log, fmt.Sprintf(format, a...))
}

func (s *sim) violate(rule, format string, a ...any) {
	d := fmt.Sprintf(format, a...)
	for _, v := range s.res.Violations {
		if v.Rule == rule {
			return
		}
	}
	s.res.Violations = append(s.res.Violations, Violation{rule, d})
	s.logf("VIOLATION %s: %s", rule, d)
}

func (s *sim) inject(kind string) { f := s.res.Faults[kind]; f[0]++; s.res.Faults[kind] = f }
func (s *sim) fired(kind string)  { f := s.res.Faults[kind]; f[1]++; s.res.Faults[kind] = f }
func (s *sim) count(k string)     { s.res.Counters[k]++ }

func (s *sim) start(i int) {
	m := s.m[i]
	m.inc++
	m.running, m.finished, m.err, m.faulted = true, false, nil, false
	m.startedH = s.c.bc.BlockHeight()
	ctx, cancel := context.WithCancel(context.Background())
	m.cancel = cancel
	inc := m.inc
	p := s.prm(ctx, i, inc)
	s.logf("d=%d h=%d START m%d inc=%d", s.decisions, s.c.bc.BlockHeight(), i, inc)
	go func() {
		err := deploy.Deploy(ctx, p)
		s.mu.Lock()
		if m.inc == inc {
			m.finished, m.err = true, err
		}
		s.mu.Unlock()
	}()
}

func (s *sim) crash(i int, why string) {
	m := s.m[i]
	if !m.running || m.finished {
		return
	}
	s.logf("d=%d h=%d CRASH m%d inc=%d (%s)", s.decisions, s.c.bc.BlockHeight(), i, m.inc, why)
	m.dead[m.inc] = true
	m.cancel()
	s.c.CloseSubs(i, m.inc)
	for _, p := range s.c.gate.Take() {
		if p.member == i && p.inc == m.inc {
			s.c.gate.Fail(p)
		}
	}
	s.inject("member.crash")
	s.fired("member.crash")
	s.lastFaultH = s.c.bc.BlockHeight()
}

func (s *sim) inWindow() bool {
	return s.phase == 0 && int(s.c.bc.BlockHeight()) < s.cfg.FaultBlocks
}

func (s *sim) pick(n int) int {
	if n <= 1 {
		return 0
	}
	if s.cfg.SchedRandom {
		return s.rng.IntN(n)
	}
	s.rr++
	return s.rr % n
}

// RunSim executes one simulated deployment. It must be called outside any
// bubble; all nondeterminism is a function of cfg.
func RunSim(t *testing.T, cfg Config) (res *Result) {
	res = &Result{Faults: map[string][2]int{}, Counters: map[string]int{}}
	dir, err := os.MkdirTemp(os.Getenv("VERIF_TMP"), "simd")
	must(err)
	defer os.RemoveAll(dir)
	defer func() {
		if r := recover(); r != nil {
			if he, ok := r.(HarnessError); ok {
				res.Harness = he.Msg
				return
			}
			if strings.Contains(fmt.Sprint(r), "deadlock") {
				// goroutines of the code under test still blocked at the end of the
				// bubble: leftover waiters, not a property matter
				res.Counters["bubble_leftover_goroutines"]++
				return
			}
			panic(r)
		}
	}()
	fs, err := contracts.GetFS()
	must(err)
	synctest.Test(t, func(t *testing.T) {
		s := &sim{t: t, cfg: cfg, res: res, fs: fs, rng: rand.New(rand.NewPCG(cfg.SchedSeed, 0x5eed)),
			lateHeld: map[int]bool{}, restartAt: map[int]uint32{}, records: map[string]string{},
			byName: map[string][]util.Uint160{}, neoChecked: map[string]bool{}, heldTx: map[string]int{}, notaryAtH: -1}
		s.c = NewChain(cfg.N, dir)
		s.crashDone = make([]bool, len(cfg.Crashes))
		for i := 0; i < cfg.N; i++ {
			s.m = append(s.m, &member{idx: i, dead: map[int]bool{}})
		}
		s.c.onTx = s.onTx
		s.c.onReject = s.onReject
		s.updTx = map[string]string{}
		if cfg.NEO > 0 {
			s.c.SetCommitteeNEO(cfg.NEO)
		}
		if cfg.Upgrade {
			s.old = loadOld()
			if !s.bootstrapOld() {
				res.Height = s.c.bc.BlockHeight()
				s.shutdown()
				return
			}
		}
		s.logf("config n=%d random=%v blockQuanta=%d late=%v crashes=%v rpcErr=%d sendErr=%d evt=%d hold=%d window=%d rerun=%v slow=%d/%d upgrade=%v neo=%d delay=%v", cfg.N, cfg.SchedRandom, cfg.BlockQuanta, cfg.Late, cfg.Crashes, cfg.RPCErrPct, cfg.WriteErrPct, cfg.EvtPct, cfg.HoldPct, cfg.FaultBlocks, cfg.Rerun, cfg.Slow, cfg.SlowPct, cfg.Upgrade, cfg.NEO, cfg.Delay)
		for _, l := range cfg.Late {
			s.lateHeld[l] = true
			s.inject("member.late")
		}
		for i := 0; i < cfg.N; i++ {
			if s.lateHeld[i] {
				continue
			}
			if at, ok := cfg.Delay[i]; ok && at > 0 && i > 0 {
				// started later, while the others are already at work (unlike the
				// late members it does take part in the Notary bootstrap)
				s.restartAt[i] = s.c.bc.BlockHeight() + uint32(at)
				s.inject("member.delayed")
				s.fired("member.delayed")
				continue
			}
			s.start(i)
		}
		s.loop()
		if len(res.Violations) == 0 && res.Harness == "" && res.Converged {
			s.endState()
			if cfg.Rerun && len(res.Violations) == 0 {
				s.rerun()
			}
		}
		res.Height = s.c.bc.BlockHeight()
		res.Decisions = s.decisions
		s.shutdown()
	})
	return res
}

func (s *sim) shutdown() {
	for _, m := range s.m {
		if m.cancel != nil {
			m.cancel()
		}
	}
	for i := 0; i < 2000; i++ {
		synctest.Wait()
		parked := s.c.gate.Take()
		if len(parked) == 0 {
			break
		}
		for _, p := range parked {
			s.c.gate.Fail(p)
		}
	}
	s.c.Shutdown()
	synctest.Wait()
}

func (s *sim) allDone() bool {
	s.mu.Lock()
	defer s.mu.Unlock()
	for i, m := range s.m {
		if s.lateHeld[i] {
			return false
		}
		if _, pending := s.restartAt[i]; pending {
			return false
		}
		if !m.finished || m.err != nil {
			return false
		}
	}
	return true
}

// loop is the scheduler: one decision per iteration.
func (s *sim) loop() {
	cfg := s.cfg
	for {
		synctest.Wait()
		// Calls of crashed incarnations fail at once and do not count as
		// scheduling decisions: how many more calls a dying incarnation makes
		// depends on which of two ready select cases Go picks (context done /
		// stream closed), and that must not shift the schedule.
		for {
			failed := false
			for _, p := range s.c.gate.Take() {
				if s.m[p.member].dead[p.inc] {
					s.c.gate.Fail(p)
					failed = true
				}
			}
			if !failed {
				break
			}
			synctest.Wait()
		}
		if len(s.res.Violations) > 0 {
			return
		}
		h := s.c.bc.BlockHeight()
		if s.allDone() {
			s.res.Converged = true
			s.logf("d=%d h=%d CONVERGED", s.decisions, h)
			return
		}
		s.decisions++
		// ---- members whose Deploy returned an error: judge, then restart later
		s.mu.Lock()
		for i, m := range s.m {
			if m.running && m.finished && m.err != nil {
				m.running = false
				if !m.faulted && !m.dead[m.inc] {
					s.violate("C13/deploy-returned-error-without-fault", "member %d incarnation %d: %v", i, m.inc, m.err)
				} else {
					// the text depends on which of the two ready select cases (context
					// done / stream closed) Go picked: not part of the event log
					s.logf("d=%d h=%d m%d inc=%d returned an error after crash/fault", s.decisions, h, i, m.inc)
					if _, ok := s.restartAt[i]; !ok {
						s.restartAt[i] = h + 3
					}
					s.count("incarnation_returned_error_after_fault")
				}
			}
		}
		s.mu.Unlock()
		// ---- scheduled crashes
		for ci, cr := range cfg.Crashes {
			if s.crashDone[ci] || cr.Member >= cfg.N {
				continue
			}
			m := s.m[cr.Member]
			hit := false
			if cr.AfterWrites > 0 {
				hit = m.writes >= cr.AfterWrites
			} else {
				hit = s.decisions >= cr.AtDecision
			}
			if hit && m.running && !m.finished && s.phase == 0 {
				s.crashDone[ci] = true
				s.crash(cr.Member, fmt.Sprintf("scheduled #%d", ci))
				s.restartAt[cr.Member] = h + uint32(cr.RestartAfter)
			}
		}
		// ---- restarts
		for i := 0; i < cfg.N; i++ {
			at, ok := s.restartAt[i]
			if !ok || h < at {
				continue
			}
			s.mu.Lock()
			done := s.m[i].finished || !s.m[i].running
			s.mu.Unlock()
			if done {
				delete(s.restartAt, i)
				s.inject("member.restart")
				s.fired("member.restart")
				s.start(i)
				s.lastFaultH = h
			}
		}
		// ---- late members
		if len(s.lateHeld) > 0 {
			release := s.notaryAtH >= 0
			if !release && int(h) > cfg.FaultBlocks+cfg.Bootstrap {
				s.violate("C13/notary-bootstrap-needs-absent-minority", "Notary role not designated at height %d with members %v absent (a majority including member 0 is running, faults stopped at %d)", h, cfg.Late, s.lastFaultH)
				return
			}
			if release {
				var l []int
				for i := range s.lateHeld {
					l = append(l, i)
				}
				sort.Ints(l)
				for _, i := range l {
					delete(s.lateHeld, i)
					s.fired("member.late")
					s.start(i)
				}
				s.lastFaultH = h
			}
		}
		// ---- bounded liveness
		lf := s.lastFaultH
		if uint32(cfg.FaultBlocks) > lf && s.anyWindowFault() {
			lf = uint32(cfg.FaultBlocks)
		}
		if len(s.lateHeld) == 0 && len(s.restartAt) == 0 && h > lf+uint32(cfg.Liveness) {
			var st []string
			s.mu.Lock()
			for i, m := range s.m {
				st = append(st, fmt.Sprintf("m%d:finished=%v", i, m.finished))
			}
			s.mu.Unlock()
			s.violate("C13/no-termination", "height %d, last fault at %d, budget %d blocks: %s", h, lf, cfg.Liveness, strings.Join(st, " "))
			return
		}
		// ---- parked calls (members started or crashed above must have reached
		// their next blocking point first)
		synctest.Wait()
		parked := s.c.gate.Take()
		if len(parked) > 0 {
			// a slow member: its parked calls are passed over (while others have
			// something to do) with the configured probability
			if cfg.Slow >= 0 && s.inWindow() && s.rng.IntN(100) < cfg.SlowPct {
				var rest []*parkedCall
				for _, p := range parked {
					if p.member != cfg.Slow {
						rest = append(rest, p)
					}
				}
				if len(rest) > 0 && len(rest) < len(parked) {
					parked = rest
					s.inject("rpc.slow")
					s.fired("rpc.slow")
				}
			}
			if debugPark {
				var l []string
				for _, q := range parked {
					l = append(l, fmt.Sprintf("m%d.%d.%s", q.member, q.inc, q.name))
				}
				s.logf("d=%d parked=%v", s.decisions, l)
			}
			p := parked[s.pick(len(parked))]
			if !p.write && s.inWindow() && cfg.RPCErrPct > 0 && s.rng.IntN(100) < cfg.RPCErrPct {
				s.inject("rpc.error")
				s.fired("rpc.error")
				s.m[p.member].faulted = true
				s.logf("d=%d h=%d rpcfail m%d %s", s.decisions, h, p.member, p.name)
				for _, q := range parked {
					if q != p && !q.write && q.member == p.member && q.inc == p.inc && q.name == p.name {
						s.c.gate.Fail(q) // the whole tie group, see below
					}
				}
				s.c.gate.Fail(p)
				s.lastFaultH = h
				continue
			}
			if p.write && s.inWindow() && cfg.WriteErrPct > 0 && s.rng.IntN(100) < cfg.WriteErrPct {
				s.m[p.member].faulted = true
				if s.rng.IntN(2) == 0 {
					// the other half: the node got the submission, the caller did not
					// get the answer
					s.inject("rpc.reply_lost")
					s.fired("rpc.reply_lost")
					s.logf("d=%d h=%d replylost m%d %s", s.decisions, h, p.member, p.name)
					s.c.gate.ReleaseLost(p)
					s.lastFaultH = h
					continue
				}
				// the submission never reaches the node: nothing enters the pool
				s.inject("rpc.send_lost")
				s.fired("rpc.send_lost")
				s.logf("d=%d h=%d sendfail m%d %s", s.decisions, h, p.member, p.name)
				s.c.gate.Fail(p)
				s.lastFaultH = h
				continue
			}
			// reads with the same name parked by one incarnation (several of its
			// goroutines woken at the same simulated instant, e.g. pollers) are
			// released together: which of them arrived first is the Go
			// scheduler's choice, not this simulator's, and must not matter
			group := []*parkedCall{p}
			if !p.write {
				for _, q := range parked {
					if q != p && !q.write && q.member == p.member && q.inc == p.inc && q.name == p.name {
						group = append(group, q)
					}
				}
			}
			if len(group) > 1 {
				s.logf("d=%d h=%d call m%d %s x%d", s.decisions, h, p.member, p.name, len(group))
			} else {
				s.logf("d=%d h=%d call m%d %s", s.decisions, h, p.member, p.name)
			}
			for _, q := range group {
				s.c.gate.Release(q)
			}
			continue
		}
		// ---- environment: deliver one queued event
		if s.deliver() {
			continue
		}
		// ---- nothing runnable: advance the clock one quantum; maybe a block
		time.Sleep(250 * time.Millisecond)
		s.quanta++
		if s.quanta%cfg.BlockQuanta == 0 {
			synctest.Wait()
			s.produce()
		}
	}
}

func (s *sim) anyWindowFault() bool {
	return s.cfg.RPCErrPct > 0 || s.cfg.WriteErrPct > 0 || s.cfg.EvtPct > 0 || s.cfg.HoldPct > 0 || s.cfg.Slow >= 0
}

// deliver hands one queued block / notary-request event to one subscriber.
func (s *sim) deliver() bool {
	c := s.c
	c.mu.Lock()
	type cand struct {
		s  *sub
		nr bool
	}
	var cs []cand
	for _, sb := range c.subs {
		if sb.closed {
			continue
		}
		if len(sb.blkQ) > 0 {
			cs = append(cs, cand{sb, false})
		}
		if len(sb.nrQ) > 0 {
			cs = append(cs, cand{sb, true})
		}
	}
	if len(cs) == 0 {
		c.mu.Unlock()
		return false
	}
	d := cs[s.pick(len(cs))]
	fault := ""
	if s.inWindow() && s.cfg.EvtPct > 0 && s.rng.IntN(100) < s.cfg.EvtPct {
		fault = []string{"evt.dup", "evt.drop", "evt.delay"}[s.rng.IntN(3)]
	}
	sb := d.s
	if d.nr {
		e := sb.nrQ[0]
		switch fault {
		case "evt.dup":
			// keep it queued: it will be delivered again
		case "evt.delay":
			if len(sb.nrQ) > 1 {
				sb.nrQ[0], sb.nrQ[1] = sb.nrQ[1], sb.nrQ[0]
				e = sb.nrQ[0]
			}
			sb.nrQ = sb.nrQ[1:]
		default:
			sb.nrQ = sb.nrQ[1:]
		}
		c.mu.Unlock()
		if fault != "" {
			s.inject(fault)
			s.fired(fault)
			s.lastFaultH = c.bc.BlockHeight()
		}
		if fault == "evt.drop" {
			s.logf("d=%d drop nr -> m%d", s.decisions, sb.member)
			return true
		}
		s.logf("d=%d deliver nr(%s) -> m%d %s", s.decisions, contentKey(e.NotaryRequest.MainTransaction), sb.member, fault)
		sb.nrCh <- e
		return true
	}
	b := sb.blkQ[0]
	switch fault {
	case "evt.dup":
	case "evt.delay":
		if len(sb.blkQ) > 1 {
			sb.blkQ[0], sb.blkQ[1] = sb.blkQ[1], sb.blkQ[0]
			b = sb.blkQ[0]
		}
		sb.blkQ = sb.blkQ[1:]
	default:
		sb.blkQ = sb.blkQ[1:]
	}
	c.mu.Unlock()
	if fault != "" {
		s.inject(fault)
		s.fired(fault)
		s.lastFaultH = c.bc.BlockHeight()
	}
	if fault == "evt.drop" {
		s.logf("d=%d drop blk %d -> m%d", s.decisions, b.Index, sb.member)
		return true
	}
	s.logf("d=%d deliver blk %d -> m%d %s", s.decisions, b.Index, sb.member, fault)
	sb.blkCh <- b
	return true
}

// produce makes the next block and runs the per-block safety oracles.
func (s *sim) produce() {
	txs := s.c.PoolTxs()
	if s.inWindow() && s.cfg.HoldPct > 0 {
		var keep []*transaction.Transaction
		for _, tx := range txs {
			k := contentKey(tx)
			if s.heldTx[k] < 3 && s.rng.IntN(100) < s.cfg.HoldPct {
				s.heldTx[k]++
				s.inject("sched.delay")
				s.fired("sched.delay")
				continue
			}
			keep = append(keep, tx)
		}
		txs = keep
	}
	b := s.c.ProduceBlock(txs)
	ks := make([]string, len(b.Transactions))
	for i, tx := range b.Transactions {
		ks[i] = contentKey(tx)
	}
	s.logf("d=%d BLOCK %d txs=%v", s.decisions, b.Index, ks)
	s.res.Counters["blocks"]++
	s.res.Counters["txs"] += len(txs)
	s.safety(b)
}

func (s *sim) onTx(member int, tx *transaction.Transaction, notaryMain bool) {
	m := s.m[member]
	m.writes++
	kind := classify(tx.Script)
	s.logf("d=%d h=%d SEND m%d notary=%v %s key=%s", s.decisions, s.c.bc.BlockHeight(), member, notaryMain, kind, contentKey(tx))
	if s.phase == 1 {
		s.rerunTxs = append(s.rerunTxs, fmt.Sprintf("m%d notary=%v %s", member, notaryMain, kind))
	}
	if strings.Contains(kind, "designateAsRole") && !notaryMain {
		s.designSent++
	}
	if notaryMain && strings.Contains(kind, "update") && s.phase == 0 {
		// committee-witnessed update transactions built by different members
		// inside one 100-block window must be identical (that is what lets the
		// Notary service merge their signatures)
		sc := tx.Script
		if n := len(sc); n > 40 && sc[n-5] == 0x41 && sc[n-27] == 0x0c && sc[n-26] == 20 && calledMethod(sc) == "update" {
			target := fmt.Sprintf("%x", sc[n-25:n-5])
			win := tx.Nonce / 100
			k := fmt.Sprintf("%s/%d", target, win)
			d := fmt.Sprintf("nonce=%d vub=%d script=%x", tx.Nonce, tx.ValidUntilBlock, sha256.Sum256(sc))
			if prev, ok := s.updTx[k]; ok && prev != d {
				s.violate("C13/update-transactions-differ-within-window", "contract %s, window %d: %s vs %s", target, win, clipS(prev, 60), clipS(d, 60))
			}
			s.updTx[k] = d
			s.count("probe.update_main_tx_seen")
			h := s.c.bc.BlockHeight()
			if tx.Nonce != (h/100)*100 && tx.Nonce != ((h+1)/100)*100 && tx.Nonce != ((h-1)/100)*100 {
				s.violate("C13/update-nonce-not-window-floor", "update transaction at height %d has nonce %d", h, tx.Nonce)
			}
			if tx.ValidUntilBlock != tx.Nonce+100 {
				s.violate("C13/update-nonce-not-window-floor", "update transaction has nonce %d and ValidUntilBlock %d", tx.Nonce, tx.ValidUntilBlock)
			}
		}
	}
}

func (s *sim) onReject(member int, tx *transaction.Transaction, err error) {
	kind := classify(tx.Script)
	s.logf("d=%d h=%d REJECT m%d %s: %s", s.decisions, s.c.bc.BlockHeight(), member, kind, clipS(err.Error(), 100))
	s.count("tx_rejected")
	if strings.Contains(kind, "designateAsRole") && strings.Contains(err.Error(), "nvalid") && !strings.Contains(err.Error(), "expired") {
		s.violate("C13/assembled-designation-tx-invalid", "member %d submitted a role designation transaction the ledger refuses: %s", member, clipS(err.Error(), 200))
	}
}

// loadOld reads the older-version executables written by simL/cmd/oldart.
func loadOld() []contracts.Contract {
	dir := os.Getenv("VERIF_OLDART")
	if dir == "" {
		harnessf("VERIF_OLDART is not set")
	}
	var out []contracts.Contract
	for _, n := range []string{"nns", "proxy", "audit", "netmap", "balance", "reputation", "neofsid", "container", "alphabet"} {
		nb, err := os.ReadFile(filepath.Join(dir, n, "contract.nef"))
		must(err)
		mb, err := os.ReadFile(filepath.Join(dir, n, "manifest.json"))
		must(err)
		nf, err := nef.FileFromBytes(nb)
		must(err)
		var mf manifest.Manifest
		must(json.Unmarshal(mb, &mf))
		out = append(out, contracts.Contract{NEF: nf, Manifest: mf})
	}
	return out
}

// bootstrapOld deploys the older-version executables with a fault-free
// round-robin run of all members (not judged: it only prepares the state).
func (s *sim) bootstrapOld() bool {
	s.useOld = true
	s.phase = 2
	for i := 0; i < s.cfg.N; i++ {
		s.start(i)
	}
	for {
		synctest.Wait()
		if s.allDone() {
			break
		}
		if s.c.bc.BlockHeight() > 3000 {
			s.res.Harness = "bootstrap with older executables did not converge"
			return false
		}
		s.mu.Lock()
		for _, m := range s.m {
			if m.finished && m.err != nil {
				s.res.Harness = "bootstrap with older executables failed: " + m.err.Error()
			}
		}
		s.mu.Unlock()
		if s.res.Harness != "" {
			return false
		}
		parked := s.c.gate.Take()
		if len(parked) > 0 {
			s.rr++
			s.c.gate.Release(parked[s.rr%len(parked)])
			continue
		}
		if s.deliver() {
			continue
		}
		time.Sleep(250 * time.Millisecond)
		s.quanta++
		if s.quanta%2 == 0 {
			synctest.Wait()
			s.produce()
		}
	}
	s.logf("h=%d OLD VERSION DEPLOYED (%d contracts)", s.c.bc.BlockHeight(), s.seenIDs)
	s.useOld = false
	s.phase = 0
	for _, m := range s.m {
		m.running, m.finished = false, false
	}
	s.lastFaultH = s.c.bc.BlockHeight()
	// the fault window of the judged phase starts now
	s.cfg.FaultBlocks += int(s.c.bc.BlockHeight())
	return true
}

// calledMethod returns the method a plain System.Contract.Call script invokes
// (… PUSHDATA1 method, PUSHDATA1 hash, SYSCALL), "" if it has another shape.
// (A deployment script embeds an executable that itself contains the string
// "update", so a substring search is not enough here.)
func calledMethod(sc []byte) string {
	n := len(sc)
	for l := 1; l <= 40 && n-27-l-2 >= 0; l++ {
		if sc[n-27-l-2] == 0x0c && int(sc[n-27-l-1]) == l {
			return string(sc[n-27-l : n-27])
		}
	}
	return ""
}

var judgedMethods = []string{"deploy", "update", "register", "registerTLD", "addRecord", "setRecord", "deleteRecords", "designateAsRole", "setAdmin"}

// classify lists the judged method names a script invokes (System.Contract.Call
// scripts carry the method as a PUSHDATA1 string).
func classify(script []byte) string {
	var out []string
	for _, mname := range judgedMethods {
		pat := append([]byte{0x0c, byte(len(mname))}, []byte(mname)...)
		if bytes.Contains(script, pat) {
			out = append(out, mname)
		}
	}
	if len(out) == 0 {
		return "other"
	}
	return strings.Join(out, "+")
}

func clipS(s string, n int) string {
	if len(s) > n {
		return s[:n] + "…"
	}
	return s
}

// ---------------------------------------------------------------------------
// oracles

var systemNames = []string{"proxy", "audit", "netmap", "balance", "reputation", "neofsid", "container"}

func (s *sim) invoke(h util.Uint160, method string, args ...any) (stackitem.Item, error) {
	script, err := smartcontract.CreateCallScript(h, method, args...)
	must(err)
	tx := transaction.New(script, 0)
	tx.Signers = []transaction.Signer{{Account: util.Uint160{}, Scopes: transaction.None}}
	ic, err := s.c.bc.GetTestVM(trigger.Application, tx, nil)
	must(err)
	defer ic.Finalize()
	ic.VM.GasLimit = 100_0000_0000
	ic.VM.LoadScriptWithFlags(script, callflag.ReadOnly)
	if err := ic.VM.Run(); err != nil || ic.VM.State() != vmstate.Halt {
		return nil, fmt.Errorf("fault: %v", err)
	}
	if ic.VM.Estack().Len() != 1 {
		return nil, fmt.Errorf("stack %d", ic.VM.Estack().Len())
	}
	return ic.VM.Estack().Pop().Item(), nil
}

func (s *sim) txtRecords(name string) ([]string, bool) {
	it, err := s.invoke(s.nnsHash, "getRecords", name, int64(16))
	if err != nil {
		return nil, false
	}
	if _, ok := it.(stackitem.Null); ok {
		return nil, true
	}
	arr, ok := it.Value().([]stackitem.Item)
	if !ok {
		return nil, false
	}
	var out []string
	for _, e := range arr {
		b, _ := e.TryBytes()
		out = append(out, string(b))
	}
	return out, true
}

func (s *sim) allNames() []string {
	l := append([]string{}, systemNames...)
	for i := 0; i < s.cfg.N; i++ {
		l = append(l, fmt.Sprintf("alphabet%d", i))
	}
	return l
}

func (s *sim) safety(b *block.Block) {
	bc := s.c.bc
	// contract with ID 1 is NNS and never changes
	if h, err := bc.GetContractScriptHash(1); err == nil {
		cs := bc.GetContractState(h)
		if !s.nnsSeen {
			s.nnsSeen, s.nnsHash = true, h
			if cs == nil || cs.Manifest.Name != "NameService" {
				s.violate("C13/id1-not-nns", "contract ID 1 is %v", cs)
			}
		} else if h != s.nnsHash {
			s.violate("C13/id1-changed", "contract ID 1 changed from %s to %s", s.nnsHash.StringLE(), h.StringLE())
		}
	}
	// deployed contracts: never two for one system name, never more than 8+n
	for {
		h, err := bc.GetContractScriptHash(s.seenIDs + 1)
		if err != nil {
			break
		}
		s.seenIDs++
		cs := bc.GetContractState(h)
		if cs == nil {
			continue
		}
		s.byName[cs.Manifest.Name] = append(s.byName[cs.Manifest.Name], h)
		s.logf("h=%d CONTRACT id=%d name=%q", b.Index, s.seenIDs, cs.Manifest.Name)
		lim := 1
		if cs.Manifest.Name == "NeoFS Alphabet" {
			lim = s.cfg.N
		}
		if len(s.byName[cs.Manifest.Name]) > lim {
			s.violate("C13/contract-deployed-twice", "%d contracts named %q on chain (limit %d)", len(s.byName[cs.Manifest.Name]), cs.Manifest.Name, lim)
		}
	}
	if int(s.seenIDs) > 8+s.cfg.N {
		s.violate("C13/too-many-contracts", "%d contracts deployed, expected at most %d", s.seenIDs, 8+s.cfg.N)
	}
	// role designations: nobody or exactly the committee
	for _, r := range []noderoles.Role{noderoles.P2PNotary, noderoles.NeoFSAlphabet} {
		ks, _, err := bc.GetDesignatedByRole(r)
		if err != nil || len(ks) == 0 {
			continue
		}
		if !sameKeys(ks, s.c.pubs) {
			s.violate("C13/role-not-committee", "role %v designated to %d keys that are not the committee", r, len(ks))
		}
		if r == noderoles.P2PNotary && s.notaryAtH < 0 {
			s.notaryAtH = int64(b.Index)
			s.logf("h=%d NOTARY ROLE DESIGNATED", b.Index)
			if len(s.lateHeld) > 0 {
				s.count("probe.notary_bootstrap_completed_by_majority_only")
			}
		}
	}
	// system names: at most one TXT record ever, never changing once set
	if s.nnsSeen {
		for _, n := range s.allNames() {
			recs, ok := s.txtRecords(n + ".neofs")
			if !ok {
				continue
			}
			if len(recs) > 1 {
				s.violate("C13/name-has-several-records", "%s.neofs has %d TXT records", n, len(recs))
			}
			if len(recs) == 1 {
				if old, ok := s.records[n]; ok && old != recs[0] {
					s.violate("C13/name-record-changed", "%s.neofs changed from %s to %s", n, old, recs[0])
				}
				s.records[n] = recs[0]
			} else if old, ok := s.records[n]; ok {
				s.violate("C13/name-record-vanished", "%s.neofs lost its record %s", n, old)
			}
		}
	}
	// fund arithmetic in situ: every NEO distribution from the committee account
	s.neoSplit(b)
}

func sameKeys(a, b keys.PublicKeys) bool {
	if len(a) != len(b) {
		return false
	}
	x := append(keys.PublicKeys{}, a...)
	y := append(keys.PublicKeys{}, b...)
	sort.Sort(x)
	sort.Sort(y)
	for i := range x {
		if !x[i].Equal(y[i]) {
			return false
		}
	}
	return true
}

// neoSplit checks every transaction that moves NEO from one account to several
// Alphabet contracts: shares differ by at most one and sum to what the source
// held before.
func (s *sim) neoSplit(b *block.Block) {
	bc := s.c.bc
	neoH, _ := bc.GetNativeContractScriptHash(nativenames.Neo)
	for _, tx := range b.Transactions {
		aers, err := bc.GetAppExecResults(tx.Hash(), trigger.Application)
		if err != nil || len(aers) == 0 || aers[0].VMState != vmstate.Halt {
			continue
		}
		var from *util.Uint160
		var amounts []*big.Int
		for _, ev := range aers[0].Events {
			if ev.ScriptHash != neoH || ev.Name != "Transfer" {
				continue
			}
			it := ev.Item.Value().([]stackitem.Item)
			fb, _ := it[0].TryBytes()
			tb, _ := it[1].TryBytes()
			if len(fb) != 20 || len(tb) != 20 {
				continue
			}
			to, _ := util.Uint160DecodeBytesBE(tb)
			cs := bc.GetContractState(to)
			if cs == nil || cs.Manifest.Name != "NeoFS Alphabet" {
				continue
			}
			f, _ := util.Uint160DecodeBytesBE(fb)
			from = &f
			a, _ := it[2].TryInteger()
			amounts = append(amounts, a)
		}
		if len(amounts) == 0 {
			continue
		}
		s.count("probe.neo_distribution_tx")
		mn, mx, sum := amounts[0], amounts[0], new(big.Int)
		for _, a := range amounts {
			sum.Add(sum, a)
			if a.Cmp(mn) < 0 {
				mn = a
			}
			if a.Cmp(mx) > 0 {
				mx = a
			}
		}
		if new(big.Int).Sub(mx, mn).Cmp(big.NewInt(1)) > 0 {
			s.violate("C13/fund-shares-differ-by-more-than-one", "NEO shares %v", amounts)
		}
		left, _ := bc.GetGoverningTokenBalance(*from)
		if len(amounts) == s.cfg.N && left.Sign() != 0 {
			s.violate("C13/fund-shares-do-not-sum-to-input", "NEO shares %v leave %s on the source account", amounts, left)
		}
	}
}

// endState checks what the property promises once every run has returned nil.
func (s *sim) endState() {
	bc := s.c.bc
	for _, r := range []noderoles.Role{noderoles.P2PNotary, noderoles.NeoFSAlphabet} {
		ks, _, _ := bc.GetDesignatedByRole(r)
		if !sameKeys(ks, s.c.pubs) {
			s.violate("C13/end-role-not-committee", "role %v holds %d keys at the end", r, len(ks))
		}
	}
	if !s.nnsSeen {
		s.violate("C13/end-no-nns", "no contract with ID 1")
		return
	}
	want := map[string][]byte{"proxy": s.fs[1].NEF.Script, "audit": s.fs[2].NEF.Script, "netmap": s.fs[3].NEF.Script, "balance": s.fs[4].NEF.Script,
		"reputation": s.fs[5].NEF.Script, "neofsid": s.fs[6].NEF.Script, "container": s.fs[7].NEF.Script}
	for i := 0; i < s.cfg.N; i++ {
		want[fmt.Sprintf("alphabet%d", i)] = s.fs[8].NEF.Script
	}
	seen := map[util.Uint160]string{}
	for _, n := range s.allNames() {
		recs, ok := s.txtRecords(n + ".neofs")
		if !ok || len(recs) != 1 {
			s.violate("C13/end-name-unresolved", "%s.neofs has records %v", n, recs)
			continue
		}
		h, err := util.Uint160DecodeStringLE(recs[0])
		if err != nil {
			h, err = address.StringToUint160(recs[0])
		}
		if err != nil {
			s.violate("C13/end-name-unresolved", "%s.neofs record %q is not an address", n, recs[0])
			continue
		}
		cs := bc.GetContractState(h)
		if cs == nil {
			s.violate("C13/end-name-points-nowhere", "%s.neofs → %s is not a contract", n, recs[0])
			continue
		}
		if !bytes.Equal(cs.NEF.Script, want[n]) {
			s.violate("C13/end-wrong-executable", "%s.neofs → contract %q does not carry the supplied executable", n, cs.Manifest.Name)
		}
		if other, dup := seen[h]; dup {
			s.violate("C13/end-two-names-one-contract", "%s and %s resolve to the same contract", n, other)
		}
		seen[h] = n
	}
	if recs, ok := s.txtRecords(fmt.Sprintf("alphabet%d.neofs", s.cfg.N)); ok && len(recs) > 0 {
		s.violate("C13/end-extra-alphabet", "alphabet%d.neofs exists", s.cfg.N)
	}
	if h, err := bc.GetContractScriptHash(1); err != nil || h != s.nnsHash {
		s.violate("C13/end-id1", "contract ID 1 at the end: %v", err)
	} else if cs := bc.GetContractState(h); cs == nil || !bytes.Equal(cs.NEF.Script, s.fs[0].NEF.Script) {
		s.violate("C13/end-wrong-executable", "NNS does not carry the supplied executable")
	}
	if int(s.seenIDs) != 8+s.cfg.N {
		s.violate("C13/end-contract-count", "%d contracts on chain, expected %d", s.seenIDs, 8+s.cfg.N)
	}
	if s.cfg.Upgrade {
		// every contract was upgraded exactly once to the supplied executable
		for id := int32(1); id <= s.seenIDs; id++ {
			h, err := bc.GetContractScriptHash(id)
			if err != nil {
				continue
			}
			cs := bc.GetContractState(h)
			if cs == nil {
				continue
			}
			if cs.UpdateCounter != 1 {
				s.violate("C13/upgrade-count", "contract %d (%s) was updated %d times, expected once", id, cs.Manifest.Name, cs.UpdateCounter)
			}
		}
		s.count("probe.upgrade_scenario_converged")
	}
	// all NEO ended on the Alphabet contracts, shares within one of each other
	var shares []*big.Int
	sum := new(big.Int)
	for _, h := range s.byName["NeoFS Alphabet"] {
		b, _ := bc.GetGoverningTokenBalance(h)
		shares = append(shares, b)
		sum.Add(sum, b)
	}
	if len(shares) > 0 {
		mn, mx := shares[0], shares[0]
		for _, a := range shares {
			if a.Cmp(mn) < 0 {
				mn = a
			}
			if a.Cmp(mx) > 0 {
				mx = a
			}
		}
		total := int64(100_000_000) // NEO's fixed supply, all of it on the validators' account at genesis
		if s.cfg.NEO > 0 {
			total = s.cfg.NEO
		}
		if sum.Cmp(big.NewInt(total)) != 0 || new(big.Int).Sub(mx, mn).Cmp(big.NewInt(1)) > 0 {
			s.violate("C13/end-neo-distribution", "Alphabet contracts hold %v NEO (sum %s)", shares, sum)
		}
	}
}

// rerun starts every member once more on the finished chain: nothing may be
// deployed, updated, registered or designated.
func (s *sim) rerun() {
	s.phase = 1
	h0 := s.c.bc.BlockHeight()
	before := s.seenIDs
	upd := s.updateCounters()
	s.logf("h=%d RERUN", h0)
	rerunFaults := 0
	if os.Getenv("VERIF_NO_RERUN_FAULTS") != "" {
		rerunFaults = 1 << 30
	}
	for i := 0; i < s.cfg.N; i++ {
		s.start(i)
	}
	for {
		synctest.Wait()
		if s.allDone() {
			break
		}
		s.mu.Lock()
		var again []int
		for i, m := range s.m {
			if m.finished && m.err != nil {
				if m.faulted {
					// gave up after an injected read failure (the set-up reads of
					// Deploy are not retried): started once more, as in the main phase
					again = append(again, i)
					continue
				}
				s.violate("C13/rerun-returned-error", "member %d: %v", i, m.err)
			}
		}
		s.mu.Unlock()
		for _, i := range again {
			s.count("rerun_member_restarted_after_fault")
			s.start(i)
		}
		if len(s.res.Violations) > 0 {
			return
		}
		if s.c.bc.BlockHeight() > h0+400 {
			s.violate("C13/rerun-no-termination", "re-run on the finished chain still running after 400 blocks")
			return
		}
		s.decisions++
		parked := s.c.gate.Take()
		if len(parked) > 0 {
			p := parked[s.pick(len(parked))]
			if !p.write && s.cfg.RPCErrPct > 0 && rerunFaults < 25 && s.rng.IntN(100) < s.cfg.RPCErrPct {
				// a read fails during the re-run as well (a bounded number of
				// times): the member has to come back to the step, not to skip or
				// repeat work because of what it could not see
				rerunFaults++
				s.inject("rpc.error")
				s.fired("rpc.error")
				s.count("probe.rerun_read_failed")
				s.m[p.member].faulted = true
				s.logf("d=%d h=%d rerun rpcfail m%d %s", s.decisions, s.c.bc.BlockHeight(), p.member, p.name)
				for _, q := range parked {
					if q != p && !q.write && q.member == p.member && q.inc == p.inc && q.name == p.name {
						s.c.gate.Fail(q)
					}
				}
				s.c.gate.Fail(p)
				continue
			}
			s.c.gate.Release(p)
			continue
		}
		if s.deliver() {
			continue
		}
		time.Sleep(250 * time.Millisecond)
		s.quanta++
		if s.quanta%s.cfg.BlockQuanta == 0 {
			synctest.Wait()
			s.produce()
		}
	}
	s.count("probe.rerun_completed")
	for _, k := range s.rerunTxs {
		if !strings.HasSuffix(k, " other") {
			s.violate("C13/rerun-not-idempotent", "re-run on the finished chain submitted: %s", k)
		} else {
			s.count("rerun_pure_funding_or_other_tx")
		}
	}
	if s.seenIDs != before {
		s.violate("C13/rerun-not-idempotent", "re-run deployed %d more contracts", s.seenIDs-before)
	}
	if u := s.updateCounters(); u != upd {
		s.violate("C13/rerun-not-idempotent", "re-run updated a contract (update counters %s → %s)", upd, u)
	}
}

func (s *sim) updateCounters() string {
	var sb strings.Builder
	for id := int32(1); id <= s.seenIDs; id++ {
		h, err := s.c.bc.GetContractScriptHash(id)
		if err != nil {
			continue
		}
		if cs := s.c.bc.GetContractState(h); cs != nil {
			fmt.Fprintf(&sb, "%d:%d ", id, cs.UpdateCounter)
		}
	}
	return sb.String()
}

var _ = state.Contract{}
